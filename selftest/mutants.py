"""Seeded mutants (Appendix B of DESIGN.md + reverse patches of the fix: commits).
Each: id, props (checks that must fire), file/old/new (exact text substitution in /repo), expect
(substrings of obligation keys, any of which must appear in the VIOLATION output)."""

MUTANTS = []


def M(id, props, file, old, new, expect, count=1, tier="quick"):
    MUTANTS.append(dict(id=id, props=props if isinstance(props, list) else [props], file=file, old=old, new=new,
                        expect=expect if isinstance(expect, list) else [expect], count=count, tier=tier))


# ---- C01 -------------------------------------------------------------------------------------------
M("C01.clock_before_own_extent", "C01", "core/src/lib.rs",
  "let extent = evt.extent().cloned().or_else(|| clock.now().to_extent());",
  "let extent = clock.now().to_extent().or_else(|| evt.extent().cloned());", "C01.R2")
M("C01.ambient_before_own_props", "C01", "core/src/lib.rs",
  ".map_props(|props| props.and_props(ctxt));",
  ".map_props(|props| ctxt.and_props(props));", "C01.R3")
M("C01.filter_before_ambient", "C01", "core/src/lib.rs",
  """        let evt = evt
            .with_extent(extent)
            .map_props(|props| props.and_props(ctxt));

        if filter.matches(&evt) {
            emitter.emit(evt);
        }""",
  """        let evt = evt.with_extent(extent);

        if filter.matches(&evt) {
            emitter.emit(evt.map_props(|props| props.and_props(ctxt)));
        }""", "C01.R4")
M("C01.and_flush_short_circuit", "C01", "core/src/emitter.rs",
  """        let lhs = self.left().blocking_flush(timeout);
        let rhs = self.right().blocking_flush(timeout);

        lhs && rhs""",
  """        self.left().blocking_flush(timeout) && self.right().blocking_flush(timeout)""", "C01.S2.and:Emitter::blocking_flush")
M("C01.first_defined_both", "C01", "src/macro_hooks.rs",
  """        if let Some(ref first) = self.0 {
            return first.matches(evt);
        }""",
  """        if let Some(ref first) = self.0 {
            return first.matches(&evt) && self.1.matches(&evt);
        }""", "C01.S2.first_defined")
M("C01.dispatch_emit_twice", "C01", "core/src/emitter.rs",
  """    fn dispatch_emit(&self, evt: &Event<&dyn ErasedProps>) {
        self.emit(evt)
    }""",
  """    fn dispatch_emit(&self, evt: &Event<&dyn ErasedProps>) {
        self.emit(evt);
        self.emit(evt)
    }""", "C01.S2.forward")
M("C01.wrap_flush_true", "C01", "core/src/emitter.rs",
  """    fn blocking_flush(&self, timeout: Duration) -> bool {
        self.emitter.blocking_flush(timeout)
    }""",
  """    fn blocking_flush(&self, _timeout: Duration) -> bool {
        true
    }""", "C01.S2.wrap:Emitter::blocking_flush")
M("C01.or_filter_as_and", "C01", "core/src/filter.rs",
  "self.left().matches(&evt) || self.right().matches(&evt)",
  "self.left().matches(&evt) && self.right().matches(&evt)", "C01.S2.or")
M("C01.option_none_rejects", "C01", "core/src/filter.rs",
  "            None => Empty.matches(evt),",
  "            None => false,", "C01.S2.option:Filter")
M("C01.and_emit_left_twice", "C01", "core/src/emitter.rs",
  """        self.left().emit(&evt);
        self.right().emit(&evt);""",
  """        self.left().emit(&evt);
        self.left().emit(&evt);""", "C01.S2.and:Emitter::emit")
M("C01.from_filter_inverted", "C01", "core/src/emitter.rs",
  "            if self.0.matches(&evt) {\n                output.emit(evt);",
  "            if !self.0.matches(&evt) {\n                output.emit(evt);", "C01.S2.from_filter")
M("C01.erased_flush_zero_timeout", "C01", "core/src/emitter.rs",
  "self.erase_emitter().0.dispatch_blocking_flush(timeout)",
  "self.erase_emitter().0.dispatch_blocking_flush(Duration::ZERO)", "C01.S2.forward", count=1)


def load_seeded():
    """Changes written by independent sub-agents (see /verif/seeded/*/meta.json)."""
    import glob
    import json
    import os
    root = os.path.join(os.path.dirname(os.path.dirname(os.path.abspath(__file__))), "seeded")
    for d in sorted(glob.glob(os.path.join(root, "*"))):
        p = os.path.join(d, "patch.diff")
        if not os.path.exists(p):
            continue
        meta = json.load(open(os.path.join(d, "meta.json")))
        if meta.get("superseded"):
            continue  # no longer breaks the property on the current tree (see meta.json)
        props = meta.get("checked_by") or [meta["property"]]
        MUTANTS.append(dict(id="seeded:" + os.path.basename(d), props=props, patch=p,
                            expect=meta.get("expect_rule", [""]), tier=meta.get("tier", "quick"),
                            expected_outcome="MISSED" if str(meta.get("expected_outcome", "")).startswith("MISSED") else None))

# ---- C02 -------------------------------------------------------------------------------------------
M("C02.and_get_right_first", "C02", "core/src/props.rs",
  "self.left().get(key).or_else(|| self.right().get(key))",
  "self.right().get(key).or_else(|| self.left().get(key))", "C02.R2.get")
M("C02.slice_ignores_break", "C02", "core/src/props.rs",
  """        for p in self {
            p.for_each(&mut for_each)?;
        }""",
  """        for p in self {
            let _ = p.for_each(&mut for_each);
        }""", "C02.R1")
M("C02.and_is_unique", "C02", "core/src/props.rs",
  """        self.left().get(key).or_else(|| self.right().get(key))
    }
}""",
  """        self.left().get(key).or_else(|| self.right().get(key))
    }

    fn is_unique(&self) -> bool {
        self.left().is_unique() && self.right().is_unique()
    }
}""", "C02.R4")
M("C02.span_inner_first", "C02", "src/span.rs",
  """        for_each(KEY_EVT_KIND.to_str(), Kind::Span.to_value())?;
        for_each(KEY_SPAN_NAME.to_str(), self.name.to_value())?;

        self.props.for_each(&mut for_each)
    }""",
  """        self.props.for_each(&mut for_each)?;

        for_each(KEY_EVT_KIND.to_str(), Kind::Span.to_value())?;
        for_each(KEY_SPAN_NAME.to_str(), self.name.to_value())
    }""", "C02.S4")
M("C02.dedup_last_wins", "C02", "core/src/props.rs",
  "                seen.entry(key).or_insert(value);",
  "                seen.insert(key, value);", "C02.R5")
M("C02.dedup_fast_path_unguarded", "C02", "core/src/props.rs",
  "            if self.0.is_unique() {\n                return self.0.for_each(for_each);",
  "            if !self.0.is_unique() {\n                return self.0.for_each(for_each);", "C02.R5")
M("C02.macro_get_binary_search(reverse of fix 6d4280d)", "C02", "src/macro_hooks.rs",
  """        self.0
            .iter()
            .find(|(k, v)| v.is_some() && *k == key)
            .and_then(|(_, v)| v.as_ref().map(|v| v.by_ref()))""",
  """        self.0
            .binary_search_by(|(k, _)| k.cmp(&key))
            .ok()
            .and_then(|i| self.0[i].1.as_ref().map(|v| v.by_ref()))""", "C02.R2.get")
M("C02.metric_swallows_break", "C02", "src/metric.rs",
  "        for_each(KEY_METRIC_AGG.to_str(), self.agg.to_value())?;",
  "        let _ = for_each(KEY_METRIC_AGG.to_str(), self.agg.to_value());", "C02.R1")
M("C02.dispatch_get_wrong_sibling", "C02", "core/src/props.rs",
  """    fn dispatch_is_unique(&self) -> bool {
        self.is_unique()
    }""",
  """    fn dispatch_is_unique(&self) -> bool {
        true
    }""", "C02.S2")
M("C02.default_get_last_wins", "C02", "core/src/props.rs",
  """                value = Some(v);

                ControlFlow::Break(())
            } else {""",
  """                value = Some(v);

                ControlFlow::Continue(())
            } else {""", "C02.R3")

# ---- C05 -------------------------------------------------------------------------------------------
M("C05.with_completion_enables(reverse of fix 3266f83)", "C05", "src/span.rs",
  """        let completion = self.completion.take().map(|_| completion);

        SpanGuard {
            state: self.state.take(),
            data: self.data.take(),
            completion,
        }""",
  """        self.completion.take();

        SpanGuard {
            state: self.state.take(),
            data: self.data.take(),
            completion: Some(completion),
        }""", "C05.R4")
M("C05.complete_with_leaves_completion", "C05", "src/span.rs",
  """        if let (SpanGuardState::Started(timer), Some(data), Some(_)) =
            (self.state.take(), self.data.take(), self.completion.take())""",
  """        if let (SpanGuardState::Started(timer), Some(data), Some(_)) =
            (self.state.take(), self.data.take(), self.completion.as_ref())""", "C05.R1:complete_with")
M("C05.start_restarts", "C05", "src/span.rs",
  """        let SpanGuardState::Initial(clock) = state else {
            self.state = state;
            return;
        };

        self.state = SpanGuardState::Started(Timer::start(clock));""",
  """        let clock = match state {
            SpanGuardState::Initial(clock) => clock,
            SpanGuardState::Started(timer) => timer.into_clock(),
            SpanGuardState::Completed => return,
        };

        self.state = SpanGuardState::Started(Timer::start(clock));""", "C05.R3") if False else None
M("C05.complete_default_ignores_state", "C05", "src/span.rs",
  """        if let (SpanGuardState::Started(timer), Some(data), Some(completion)) =
            (self.state.take(), self.data.take(), self.completion.take())
        {
            completion.complete(Span::new(data.mdl, data.name, timer, data.props));""",
  """        if let (SpanGuardState::Started(timer), Some(data), Some(completion)) =
            (self.state.take(), self.data.take(), self.completion.as_ref())
        {
            completion.complete(Span::new(data.mdl, data.name, timer, data.props));""", "C05.R1:complete_default")
M("C05.map_props_copies_completion_some", "C05", "src/span.rs",
  """            state: self.state.take(),
            data,
            completion: self.completion.take(),""",
  """            state: mem::replace(&mut self.state, SpanGuardState::Completed),
            data,
            completion: self.completion.take(),""", "C05.NEVER") if False else None
M("C05.new_always_enabled", "C05", "src/span.rs",
  "            completion: if is_enabled { Some(completion) } else { None },",
  "            completion: { let _ = is_enabled; Some(completion) },", "C05.R4")
M("C05.drop_does_not_complete", "C05", "src/span.rs",
  """    fn drop(&mut self) {
        self.complete_default();
    }""",
  """    fn drop(&mut self) {
        if self.data.is_none() {
            self.complete_default();
        }
    }""", "C05.R2:Drop")
M("C05.timer_extent_start_now", "C05", "src/timer.rs",
  "            (Some(start), Some(end)) => Some(Extent::range(start..end)),",
  "            (Some(_), Some(end)) => Some(Extent::range(end..end)),", "C05.R6")
M("C05.panic_arm_uses_lvl", "C05", "src/span.rs",
  """                    self.panic_lvl
                        .as_ref()
                        .map(|lvl| Value::from_any(lvl))
                        .or_else(|| Some(Value::from_any(&Level::Error)))""",
  """                    self.lvl
                        .as_ref()
                        .map(|lvl| Value::from_any(lvl))
                        .or_else(|| Some(Value::from_any(&Level::Error)))""", "C05.R7")
M("C05.hook_swaps_levels", "C05", "src/macro_hooks.rs",
  """        if let Some(lvl) = self.lvl.and_then(|lvl| lvl.capture()) {
            completion = completion.with_lvl(lvl);
        }

        if let Some(lvl) = self.panic_lvl.and_then(|lvl| lvl.capture()) {
            completion = completion.with_panic_lvl(lvl);
        }""",
  """        if let Some(lvl) = self.lvl.and_then(|lvl| lvl.capture()) {
            completion = completion.with_panic_lvl(lvl);
        }

        if let Some(lvl) = self.panic_lvl.and_then(|lvl| lvl.capture()) {
            completion = completion.with_lvl(lvl);
        }""", "C05.hooks")

# ---- C03 -------------------------------------------------------------------------------------------
M("C03.guard_drop_body_removed", "C03", "src/frame.rs",
  """    fn drop(&mut self) {
        self.scope.ctxt.exit(&mut self.scope.scope);
    }""",
  """    fn drop(&mut self) {
        let _ = &self.scope;
    }""", "C03.R2")
M("C03.poll_drops_guard_early", "C03", "src/frame.rs",
  "        let __guard = unpinned.frame.enter();",
  "        let _ = unpinned.frame.enter();", "C03.R3:FrameFuture::poll")
M("C03.call_drops_guard_early", "C03", "src/frame.rs",
  "        let __guard = self.enter();\n        scope()",
  "        let _ = self.enter();\n        scope()", "C03.R3:Frame::call")
M("C03.tlc_exit_noop", "C03", "src/platform/thread_local_ctxt.rs",
  """    fn exit(&self, frame: &mut Self::Frame) {
        swap(self.id, frame);
    }""",
  """    fn exit(&self, frame: &mut Self::Frame) {
        let _ = frame;
    }""", "C03.R6")
M("C03.open_root_from_current", "C03", "src/platform/thread_local_ctxt.rs",
  """        let mut span = HashMap::new();

        let _ = props.for_each(|k, v| {""",
  """        let mut span = current(self.id).props.map(|p| (*p).clone()).unwrap_or_default();

        let _ = props.for_each(|k, v| {""", "C03.R9:open_root")
M("C03.box_exit_forwards_to_enter", "C03", "core/src/ctxt.rs",
  """    fn exit(&self, frame: &mut Self::Frame) {
        (**self).exit(frame)
    }""",
  """    fn exit(&self, frame: &mut Self::Frame) {
        (**self).enter(frame)
    }""", ["C03.forward", "C03.R4"], count=3)
M("C03.swap_keyed_by_zero", "C03", "src/platform/thread_local_ctxt.rs",
  """        let current = active
            .entry(id)""",
  """        let current = active
            .entry(id & 0)""", "C03.R6:swap")
M("C03.open_push_keeps_ambient", "C03", "src/platform/thread_local_ctxt.rs",
  "            span_props.insert(k.to_shared(), ThreadLocalValue::from_value(v));",
  "            span_props.entry(k.to_shared()).or_insert_with(|| ThreadLocalValue::from_value(v));", "C03.R9:open_push")
M("C03.frame_drop_skips_close", "C03", "src/frame.rs",
  "        ctxt.close(scope)\n",
  "        let _ = (ctxt, scope);\n", "C03.R5")

# ---- C04 -------------------------------------------------------------------------------------------
M("C04.new_child_wrong_parent", "C04", "src/span.rs",
  "        let span_parent = self.span_id;\n        let span_id = SpanId::random(&rng);\n\n        SpanCtxt::new(trace_id, span_parent, span_id)",
  "        let span_parent = self.span_parent;\n        let span_id = SpanId::random(&rng);\n\n        SpanCtxt::new(trace_id, span_parent, span_id)", "C04.R1")
M("C04.current_swaps_keys", "C04", "src/span.rs",
  """                current.pull::<SpanId, _>(KEY_SPAN_PARENT),
                current.pull::<SpanId, _>(KEY_SPAN_ID),""",
  """                current.pull::<SpanId, _>(KEY_SPAN_ID),
                current.pull::<SpanId, _>(KEY_SPAN_PARENT),""", "C04.R2")
M("C04.disabled_span_pushes_ids", "C04", "src/span.rs",
  "            Frame::disabled(ctxt, ctxt_props.and_props(span_ctxt))",
  "            Frame::push(ctxt, ctxt_props.and_props(span_ctxt))", "C04.R4")
M("C04.props_view_swaps_fields", "C04", "src/span.rs",
  """        if let Some(ref span_id) = self.span_id {
            for_each(KEY_SPAN_ID.to_str(), span_id.to_value())?;
        }

        if let Some(ref span_parent) = self.span_parent {
            for_each(KEY_SPAN_PARENT.to_str(), span_parent.to_value())?;
        }""",
  """        if let Some(ref span_id) = self.span_id {
            for_each(KEY_SPAN_PARENT.to_str(), span_id.to_value())?;
        }

        if let Some(ref span_parent) = self.span_parent {
            for_each(KEY_SPAN_ID.to_str(), span_parent.to_value())?;
        }""", "C04.R2")
M("C04.guard_child_of_empty", "C04", "src/span.rs",
  "        let span_ctxt = SpanCtxt::current(&ctxt).new_child(rng);",
  "        let span_ctxt = SpanCtxt::empty().new_child(rng);", "C04.R4")
M("C04.begin_span_wrong_rng_clock", "C04", "src/macro_hooks.rs",
  """        __PrivateBeginSpanFilter { rt, when, lvl },
        rt.ctxt(),""",
  """        __PrivateBeginSpanFilter { rt, when: None::<&crate::Empty>, lvl },
        rt.ctxt(),""", "C04.R6") if False else None
M("C04.tlv_trace_id_as_any", "C04", "src/platform/thread_local_ctxt.rs",
  """        if let Some(span_id) = value.downcast_ref() {
            return ThreadLocalValue::SpanId(*span_id);
        }
""",
  "", "C04.S5")
M("C04.complete_ok_empty_ctxt", "C04", "src/macro_hooks.rs",
  """            self.rt.emitter(),
            crate::Empty,
            self.rt.ctxt(),
            self.rt.clock(),
            span.to_event()
                .with_tpl(self.tpl.by_ref())
                .map_props(|span_props| lvl_prop.and_props(span_props)),""",
  """            self.rt.emitter(),
            crate::Empty,
            crate::Empty,
            self.rt.clock(),
            span.to_event()
                .with_tpl(self.tpl.by_ref())
                .map_props(|span_props| lvl_prop.and_props(span_props)),""", "C04.S4")

# ---- C06 / C07 / C08 / C09 (emit_batcher) ------------------------------------------------------------
M("C06.send_two_locks", ["C06"], "batcher/src/lib.rs",
  """        let mut state = self.shared.state.lock().unwrap();

        // If the channel is full then drop it; this prevents OOMing
        // when the destination is unavailable. We don't notify the batch
        // in this case because the clearing is opaque to outside observers
        if state.next_batch.channel.len() >= self.max_capacity {
            state.next_batch.channel.clear();
            self.shared.metrics.queue_full_truncated.increment();
        }
""",
  """        {
            let mut state = self.shared.state.lock().unwrap();
            if state.next_batch.channel.len() >= self.max_capacity {
                state.next_batch.channel.clear();
                self.shared.metrics.queue_full_truncated.increment();
            }
        }
        let mut state = self.shared.state.lock().unwrap();
""", "C06.R1")
M("C06.retry_fresh_watchers", ["C06", "C07"], "batcher/src/lib.rs",
  "                                                watchers: current_batch.watchers,",
  "                                                watchers: Watchers::new(),", ["C06.R4", "C07.R4"])
M("C06.truncation_not_counted", ["C06", "C09"], "batcher/src/lib.rs",
  "            state.next_batch.channel.clear();\n            self.shared.metrics.queue_full_truncated.increment();",
  "            state.next_batch.channel.clear();", ["C06.R3", "C09.R3"])
M("C07.when_flushed_ignores_in_batch", ["C07"], "batcher/src/lib.rs",
  "        if !state.is_in_batch && (state.next_batch.channel.is_empty() || !state.is_open) {",
  "        if state.next_batch.channel.is_empty() || !state.is_open {", "C07.R1")
M("C07.notify_inside_retry_loop", ["C07"], "batcher/src/lib.rs",
  """                                Ok(Err(BatchError { retryable })) => {
                                    self.shared.metrics.queue_batch_failed.increment();
""",
  """                                Ok(Err(BatchError { retryable })) => {
                                    self.shared.metrics.queue_batch_failed.increment();
                                    current_batch.watchers.notify_on_flush();
""", "C07.R3")
M("C08.catch_unwind_removed", ["C08"], "batcher/src/lib.rs",
  "                    match panic::catch_unwind(AssertUnwindSafe(|| on_batch(current_batch.channel)))\n                    {",
  "                    match Ok::<_, Box<dyn Any + Send>>(on_batch(current_batch.channel))\n                    {", "C08.R1")
M("C08.retry_ignores_budget", ["C08"], "batcher/src/lib.rs",
  "                                        if retryable.len() > 0 && self.retry.next() {",
  "                                        if retryable.len() > 0 {", "C08.R2")
M("C08.callback_under_lock", ["C08"], "batcher/src/lib.rs",
  """        if state.next_batch.channel.is_empty() {
            drop(state);

            f();""",
  """        if state.next_batch.channel.is_empty() {
            f();
            drop(state);""", "C08.R3")
M("C08.exec_returns_before_swap", ["C08", "C06"], "batcher/src/lib.rs",
  """                let mut state = self.shared.state.lock().unwrap();

                // NOTE: We don't check the `is_open` value here because we want a chance to emit
                // any last batch

                // If there are events then mark that we're in a batch and replace it with an empty one""",
  """                let mut state = self.shared.state.lock().unwrap();

                if !state.is_open {
                    return;
                }

                // If there are events then mark that we're in a batch and replace it with an empty one""", ["C08.R4", "C06.R4"])
M("C08.tokio_block_on(reverse of fix)", ["C08"], "batcher/src/tokio.rs",
  """        Ok(handle) if handle.runtime_flavor() == tokio::runtime::RuntimeFlavor::MultiThread => {
            tokio::task::block_in_place(|| sync::blocking_flush(sender, timeout))
        }""",
  """        Ok(handle) if handle.runtime_flavor() == tokio::runtime::RuntimeFlavor::MultiThread => {
            handle.block_on(flush(sender, timeout))
        }""", "C08.R5")
M("C08.block_in_place_any_flavor", ["C08"], "batcher/src/tokio.rs",
  """        Ok(handle) if handle.runtime_flavor() == tokio::runtime::RuntimeFlavor::MultiThread => {
            tokio::task::block_in_place(|| sync::blocking_flush(sender, timeout))
        }""",
  """        Ok(_) => {
            tokio::task::block_in_place(|| sync::blocking_flush(sender, timeout))
        }""", "C08.R5")
M("C09.send_gt_instead_of_ge", ["C09"], "batcher/src/lib.rs",
  "        if state.next_batch.channel.len() >= self.max_capacity {\n            state.next_batch.channel.clear();",
  "        if state.next_batch.channel.len() > self.max_capacity {\n            state.next_batch.channel.clear();", "C09.R1")
M("C09.try_send_full_no_retry", ["C09"], "batcher/src/lib.rs",
  """            Err(BatchError::retry(TrySendError("the channel is full"), msg))""",
  """            { drop(msg); Err(BatchError::no_retry(TrySendError("the channel is full"))) }""", "C09.R2")
M("C09.file_emit_blocking_send", ["C09"], "emitter/file/src/lib.rs",
  "                self.sender.send(buf.into_boxed_slice());",
  "                let _ = emit_batcher::blocking_send(&self.sender, buf.into_boxed_slice(), std::time::Duration::from_secs(1));", "C09.R4")
M("C09.event_batch_clear(reverse of fix 43294a4)", ["C09"], "emitter/file/src/lib.rs",
  """        self.bufs.clear();
        self.remaining_bytes = 0;
        self.index = 0;""",
  """        self.bufs.clear();""", "C09.R5")

# ---- C10 -------------------------------------------------------------------------------------------
M("C10.sync_result_ignored", ["C10", "C07"], "emitter/file/src/lib.rs",
  """        file.file
            .sync_all()
            .map_err(|e| emit_batcher::BatchError::no_retry(e))?;""",
  """        let _ = file.file.sync_all();""", ["C10.R1", "C07.R5"])
M("C10.active_file_before_sync", ["C10"], "emitter/file/src/lib.rs",
  """        file.file
            .flush()
            .map_err(|e| emit_batcher::BatchError::no_retry(e))?;
        file.file
            .sync_all()
            .map_err(|e| emit_batcher::BatchError::no_retry(e))?;""",
  """        file.file
            .flush()
            .map_err(|e| emit_batcher::BatchError::no_retry(e))?;
        if file.file.sync_all().is_err() {
            self.active_file = Some(file);
            return Err(emit_batcher::BatchError::no_retry(io::Error::new(io::ErrorKind::Other, "sync")));
        }""", "C10.R2")
M("C10.flag_reset_before_write", ["C10"], "emitter/file/src/lib.rs",
  """        self.file_size_bytes += event_buf.len();
        self.file.write_all(event_buf)?;

        self.file_needs_recovery = false;""",
  """        self.file_size_bytes += event_buf.len();
        self.file_needs_recovery = false;
        self.file.write_all(event_buf)?;
""", "C10.R4")
M("C10.open_new_without_create_new", ["C10"], "emitter/file/src/lib.rs",
  ".create_new(true)", ".create(true)", "C10.R5")
M("C10.reuse_without_recovery", ["C10"], "emitter/file/src/lib.rs",
  "            file_needs_recovery: true,", "            file_needs_recovery: false,", "C10.R4:try_open_reuse")
M("C10.no_sync_parent", ["C10"], "emitter/file/src/lib.rs",
  "        // This is only important on some platforms and filesystems\n        fs.sync_parent(file_path)?;", "        // This is only important on some platforms and filesystems\n        let _ = &fs;", "C10.R5:sync_parent")

# ---- C12 -------------------------------------------------------------------------------------------
M("C12.double_pop(reverse of fix 6bba6ea)", ["C12"], "emitter/otlp/src/client.rs",
  """                            return Err(e.map_retryable(|r| r.map(|_| channel)));
                        }
                    }
                }""",
  """                            return Err(e.map_retryable(|r| r.map(|_| channel)));
                        }
                    }

                    channel.requests.pop();
                }""", "C12.R1")
M("C12.err_pops_failed_request", ["C12"], "emitter/otlp/src/client.rs",
  """                        Err(e) => {
                            return Err(e.map_retryable(|r| r.map(|_| channel)));""",
  """                        Err(e) => {
                            channel.requests.pop();
                            return Err(e.map_retryable(|r| r.map(|_| channel)));""", "C12.R1")
M("C12.http_success_lt_400", ["C12"], "emitter/otlp/src/client.rs",
  "if status >= 200 && status < 300 {", "if status >= 200 && status < 400 {", "C12.R5")
M("C12.grpc_success_any", ["C12"], "emitter/otlp/src/client.rs",
  "                            if status == 0 {", "                            if status <= 1 {", "C12.R5")
M("C12.transport_error_not_retryable", ["C12"], "emitter/otlp/src/client.rs",
  "                return Err(BatchError::retry(err, ()));", "                return Err(BatchError::no_retry(err));", "C12.R6")
M("C12.push_skips_event_on_new_request", ["C12"], "emitter/otlp/src/client.rs",
  """            let mut request = EncodedScopeItems::new();
            request.push(item.event);

            self.requests.push(request);""",
  """            let request = EncodedScopeItems::new();

            self.requests.push(request);
            self.requests.last_mut().unwrap().push(item.event);
            if false { return; }""", "C12.NONE") if False else None

# ---- C14 -------------------------------------------------------------------------------------------
M("C14.logs_tried_first", ["C14"], "emitter/otlp/src/client.rs",
  "        if let Some((ref encoder, ref sender)) = self.otlp_metrics {\n            if let Some(event) = encoder.encode_event(&evt) {",
  "        if let Some((ref encoder, ref sender)) = self.otlp_logs {\n            if let Some(event) = encoder.encode_event(&evt) {", "C14.R1")
M("C14.metrics_arm_falls_through", ["C14"], "emitter/otlp/src/client.rs",
  """        if let Some((ref encoder, ref sender)) = self.otlp_metrics {
            if let Some(event) = encoder.encode_event(&evt) {
                return sender.send(ChannelItem {
                    max_request_size_bytes: DEFAULT_MAX_REQUEST_SIZE_BYTES,
                    event,
                });
            }
        }""",
  """        if let Some((ref encoder, ref sender)) = self.otlp_metrics {
            if let Some(event) = encoder.encode_event(&evt) {
                sender.send(ChannelItem {
                    max_request_size_bytes: DEFAULT_MAX_REQUEST_SIZE_BYTES,
                    event,
                });
            }
        }""", "C14.R1")
M("C14.traces_accept_point_extents", ["C14"], "emitter/otlp/src/data/traces.rs",
  """            .and_then(|extent| extent.as_range())
            .map(|range| {
                (
                    range.start.to_unix().as_nanos() as u64,
                    range.end.to_unix().as_nanos() as u64,
                )
            })?;""",
  """            .map(|extent| {
                let range = extent.as_range().cloned().unwrap_or_else(|| *extent.as_point()..*extent.as_point());
                (
                    range.start.to_unix().as_nanos() as u64,
                    range.end.to_unix().as_nanos() as u64,
                )
            })?;""", "C14.R2:traces")
M("C14.discard_not_counted", ["C14"], "emitter/otlp/src/client.rs",
  "        self.metrics.event_discarded.increment();\n    }", "    }", "C14.R1")
M("C14.span_filter_metric_kind", ["C14"], "src/kind.rs",
  "KindFilter::new(Kind::Span)", "KindFilter::new(Kind::Metric)", "C14.R3") if False else None

# ---- C11 -------------------------------------------------------------------------------------------
M("C11.keep_file_or", ["C11"], "emitter/file/src/lib.rs",
  """            file.file_size_bytes + batch.remaining_bytes <= self.max_file_size_bytes
                && file.file_ts == file_ts""",
  """            file.file_size_bytes + batch.remaining_bytes <= self.max_file_size_bytes
                || file.file_ts == file_ts""", "C11.R1")
M("C11.listing_not_reversed", ["C11"], "emitter/file/src/lib.rs",
  "file_set.sort_by(|a, b| a.cmp(b).reverse());", "file_set.sort_by(|a, b| a.cmp(b));", "C11.R4")
M("C11.retention_skipped_on_roll(reverse of fix c00d40e)", ["C11"], "emitter/file/src/lib.rs",
  """            if !file_set_is_read {
                read_file_set(&mut file_set);
            }
""", "", "C11.R2")
M("C11.retention_unwrap(reverse of fix 9b04f88)", ["C11", "C08"], "emitter/file/src/lib.rs",
  """            let Some(file_name) = self.file_set.pop() else {
                break;
            };
""",
  """            let file_name = self.file_set.pop().unwrap();
""", ["C11.R3", "C08"])
M("C11.name_ts_after_id", ["C11"], "emitter/file/src/lib.rs",
  """    format!("{}.{}.{}.{}", file_prefix, ts, id, file_ext)""",
  """    format!("{}.{}.{}.{}", file_prefix, id, ts, file_ext)""", "C11.R5")
M("C11.retention_bound_no_room", ["C11"], "emitter/file/src/lib.rs",
  "self.max_files.saturating_sub(1)", "self.max_files", "C11.R2")
M("C10.remainder_only_retry(reverse of fix 8c8ee87)", ["C10"], "emitter/file/src/lib.rs",
  """                batch.rewind();

                return Err(emit_batcher::BatchError::retry(err, batch));""",
  """                return Err(emit_batcher::BatchError::retry(err, batch));""", "C10.R8")

# ---- C13 -------------------------------------------------------------------------------------------
M("C13.log_attributes_without_dedup", ["C13"], "emitter/otlp/src/data.rs",
  "    let _ = props.dedup().for_each(|k, v| {", "    let _ = props.for_each(|k, v| {", "C13.R2")
M("C13.metrics_without_dedup(reverse of fix 8433e92)", ["C13"], "emitter/otlp/src/data/metrics.rs",
  "            let _ = evt.props().dedup().for_each(|k, v| match k.get() {",
  "            let _ = evt.props().for_each(|k, v| match k.get() {", "C13.R2")
M("C13.span_status_index_14", ["C13"], "emitter/otlp/src/data/traces/span.rs",
  None, None, "C13.R3") if False else None
M("C13.metric_json_label(reverse of fix a59ce71)", ["C13"], "emitter/otlp/src/data/metrics/metric.rs",
  """    #[sval(label = "asInt", index = 6)]""", """    #[sval(label = "value", index = 6)]""", "C13.R3")
M("C13.new_unwrap_in_encoder", ["C13"], "emitter/otlp/src/data/logs/log_record.rs",
  "                        level = v.by_ref().cast::<emit::Level>().unwrap_or_default();",
  "                        level = v.by_ref().cast::<emit::Level>().unwrap();", "C13.R1.panic")
M("C13.file_writer_without_dedup", ["C13"], "emitter/file/src/lib.rs",
  "            let _ = self.0.props().dedup().for_each(|k, v| {", "            let _ = self.0.props().for_each(|k, v| {", "C13.R2")
M("C13.lvl_also_attribute", ["C13"], "emitter/otlp/src/data/logs/log_record.rs",
  """                        level = v.by_ref().cast::<emit::Level>().unwrap_or_default();
                        Ok(())""",
  """                        level = v.by_ref().cast::<emit::Level>().unwrap_or_default();
                        stream.stream_attribute(k, v)""", "C13.R4")
M("C13.span_status_index_14", ["C13"], "emitter/otlp/src/data/traces/span.rs",
  "const SPAN_STATUS_INDEX: sval::Index = sval::Index::new(15);", "const SPAN_STATUS_INDEX: sval::Index = sval::Index::new(14);", "C13.R3")

# ---- C15 -------------------------------------------------------------------------------------------
M("C15.unwrap_in_parser", ["C15"], "traceparent/src/lib.rs",
  "            Some(TraceId::try_from_hex_slice(trace_id).map_err(|e| Error { msg: e.to_string() })?)",
  "            Some(TraceId::try_from_hex_slice(trace_id).unwrap())", "C15.R1.panic")
M("C15.hex_table_off_by_one", ["C15"], "src/span.rs", None, None, "C15.R2") if False else None
M("C15.path_accepts_single_colon(reverse of fix 8255e1b)", ["C15"], "core/src/path.rs",
  """            // A lone `:` that isn't followed by another `:`
            _ if separators == 1 => return false,
""", "", "C15.R3")
M("C15.template_unused", ["C15"], "core/src/path.rs", None, None, "x") if False else None
M("C15.rfc3339_str_slicing", ["C15"], "core/src/timestamp.rs",
  "    let years = digits(&fmt[0..4])? as u16;",
  "    let years = digits(_s[0..4].as_bytes())? as u16;", "C15.R1") if False else None
# (C15.rfc3339_len_19_allowed removed: equivalent mutant - a 19-byte input is still rejected by the digit/zone checks, no panic)
M("C15.rfc3339_separator_unchecked", ["C15"], "core/src/timestamp.rs",
  "    separator(fmt, 10, b'T')?;", "    let _ = separator(fmt, 10, b'T');", "C15.R4:rfc3339")
M("C15.traceparent_wrong_offset", ["C15"], "traceparent/src/lib.rs",
  "        let span_id = &bytes[36..52];", "        let span_id = &bytes[35..51];", "C15.R4:traceparent")
M("C15.traceparent_len_56", ["C15"], "traceparent/src/lib.rs",
  "        if bytes.len() != 55 {", "        if bytes.len() < 53 {", ["C15.R4:traceparent", "C15.R1.panic"])
M("C15.from_parts_zero_day(reverse of part of fix 1be2e5e)", ["C15"], "core/src/timestamp.rs",
  "        let days = parts.days.checked_sub(1)?;", "        let days = parts.days - 1;", "C15.R1.panic")
M("C15.sentinel_dropped", ["C15"], "src/span.rs",
  """            if h1 | h2 == 0xff {
                return Err(ParseIdError {});
            }

            // The upper nibble needs to be shifted into position
            // to produce the final byte value
            dst[i] = SHL4_TABLE[h1 as usize] | h2;
            i += 1;
        }

        Ok(TraceId::new(""",
  """            // The upper nibble needs to be shifted into position
            // to produce the final byte value
            dst[i] = SHL4_TABLE[h1 as usize] | h2;
            i += 1;
        }

        Ok(TraceId::new(""", "C15.R2:sentinel")
M("C15.digits_accepts_sign", ["C15"], "core/src/timestamp.rs",
  """    let years = digits(&fmt[0..4])? as u16;""",
  """    let years = core::str::from_utf8(&fmt[0..4]).ok().and_then(|s| u16::from_str_radix(s, 10).ok()).ok_or(ParseTimestampError {})?;""", "C15.R1:forbidden")
M("C15.hex_table_off_by_one", ["C15"], "src/span.rs",
  "            b'A'..=b'F' => i - b'A' + 10,\n            _ => 0xff,\n        };\n\n        if i == 255 {\n            break buf;\n        }\n\n        i += 1\n    }\n};\n\nconst SHL4_TABLE",
  "            b'A'..=b'F' => i - b'A' + 11,\n            _ => 0xff,\n        };\n\n        if i == 255 {\n            break buf;\n        }\n\n        i += 1\n    }\n};\n\nconst SHL4_TABLE", "C15.R2:hex-tables")

# ---- C16 -------------------------------------------------------------------------------------------
M("C16.eq_str_slicing(reverse of fix c2f24e9)", ["C16"], "core/src/template.rs",
  """                    let a = a.get().as_bytes();
                    let b = b.get().as_bytes();""",
  """                    let a = a.get();
                    let b = b.get();""", "C16.R1")
M("C16.write_arms_swapped", ["C16"], "core/src/template.rs",
  """                    if let Some(formatter) = formatter {
                        writer.write_hole_fmt(label, value, formatter.clone())
                    } else {
                        writer.write_hole_value(label, value)
                    }
                } else {
                    writer.write_hole_label(label)
                }""",
  """                    if let Some(formatter) = formatter {
                        writer.write_hole_fmt(label, value, formatter.clone())
                    } else {
                        let _ = value;
                        writer.write_hole_label(label)
                    }
                } else {
                    writer.write_hole_value(label, Value::null())
                }""", "C16.R2")
M("C16.by_ref_drops_formatter", ["C16"], "core/src/template.rs",
  """            } => Part(PartKind::Hole {
                label: label.by_ref(),
                formatter: formatter.clone(),
            }),""",
  """            } => { let _ = formatter; Part(PartKind::Hole {
                label: label.by_ref(),
                formatter: None,
            }) }""", "C16.R4")
M("C16.render_ignores_error", ["C16"], "core/src/template.rs", None, None, "x") if False else None
M("C16.render_ignores_error", ["C16"], "core/src/template.rs",
  "            part.write(&mut writer, &self.props)?;", "            let _ = part.write(&mut writer, &self.props);", "C16.R2:Render")

# ---- C17 -------------------------------------------------------------------------------------------
M("C17.gt_instead_of_ge", ["C17"], "src/level.rs",
  "            .unwrap_or(&L::default())\n            >= &self.min", "            .unwrap_or(&L::default())\n            > &self.min", "C17.R1")
M("C17.inherited_beats_child", ["C17"], "src/level.rs",
  "                filter = node.min_level.as_ref().or(filter);", "                filter = filter.or(node.min_level.as_ref());", "C17.R4")
M("C17.children_pushed", ["C17"], "src/level.rs",
  """                        node.children.insert(
                            idx,
                            (""",
  """                        let idx = { let _ = idx; node.children.len() };
                        node.children.insert(
                            idx,
                            (""", "C17.R3")
M("C17.level_order_swapped", ["C17"], "src/level.rs", None, None, "x") if False else None
M("C17.default_beats_own_level", ["C17"], "src/level.rs",
  """            .pull::<L, _>(KEY_LVL)
            .as_ref()
            .or_else(|| self.default.as_ref())""",
  """            .pull::<L, _>(KEY_LVL)
            .as_ref()
            .and(self.default.as_ref())""", "C17.R1") if False else None
M("C17.segments_single_colon", ["C17"], "core/src/path.rs",
  """                Some(inner) => SegmentsInner::Static(inner.split("::")),""",
  """                Some(inner) => SegmentsInner::Static(inner.split(":")),""", "C17.R5") if False else None

# ---- C18 -------------------------------------------------------------------------------------------
M("C18.child_consults_sampler", ["C18"], "traceparent/src/lib.rs",
  "                active.traceparent.trace_flags & trace_flags,\n            ),",
  "                if sampler.as_ref().map(|s| s(&SpanCtxt::new(active.traceparent.trace_id, None, Some(span_id)))).unwrap_or(true) { active.traceparent.trace_flags & trace_flags } else { TraceFlags::EMPTY },\n            ),", "C18.R1")
M("C18.child_flags_constant_sampled", ["C18"], "traceparent/src/lib.rs",
  "                active.traceparent.trace_flags & trace_flags,\n            ),",
  "                TraceFlags::SAMPLED & trace_flags,\n            ),", "C18.R1:child")
M("C18.exit_does_not_swap", ["C18"], "traceparent/src/lib.rs",
  """    fn exit(&self, frame: &mut Self::Frame) {
        if frame.active {
            frame.slot = set_active_traceparent(frame.slot.take());
        }
""",
  """    fn exit(&self, frame: &mut Self::Frame) {
""", "C18.R4")
M("C18.open_push_passes_sampler_flags", ["C18"], "traceparent/src/lib.rs",
  """    fn open_disabled<P: Props>(&self, props: P) -> Self::Frame {
        let (slot, props) =
            incoming_traceparent(None::<fn(&SpanCtxt) -> bool>, props, TraceFlags::EMPTY);""",
  """    fn open_disabled<P: Props>(&self, props: P) -> Self::Frame {
        let (slot, props) =
            incoming_traceparent(None::<fn(&SpanCtxt) -> bool>, props, TraceFlags::ALL);""", "C18.R2")
M("C18.unsampled_exposes_ids", ["C18"], "traceparent/src/lib.rs",
  """                if active.traceparent.trace_flags.is_sampled() {
                    Some(SpanCtxt::new(""",
  """                if active.traceparent.trace_flags.is_sampled() || true {
                    Some(SpanCtxt::new(""", "C18.R5") if False else None
M("C18.filter_samples_non_spans", ["C18"], "traceparent/src/lib.rs",
  "        if emit::kind::is_span_filter().matches(&evt) {\n            if let (Some(incoming), _) =",
  "        {\n            if let (Some(incoming), _) =", "C18.R2")

# ---- C20 -------------------------------------------------------------------------------------------
M("C20.slot_get_or_init", ["C20"], "core/src/runtime.rs",
  "            let rt = self.0.get()?;", "            let rt = self.0.get_or_init(|| unreachable!());", "C20.R1") if False else None
M("C20.set_result_ignored", ["C20"], "core/src/runtime.rs",
  "                .ok()?;\n\n            let rt = self.0.get()?;", "                .ok();\n\n            let rt = self.0.get()?;", "C20.R1:init")
M("C20.empty_flush_false", ["C20", "C01"], "core/src/emitter.rs",
  """impl Emitter for Empty {
    fn emit<E: ToEvent>(&self, _: E) {}

    fn blocking_flush(&self, _: Duration) -> bool {
        true
    }""",
  """impl Emitter for Empty {
    fn emit<E: ToEvent>(&self, _: E) {}

    fn blocking_flush(&self, _: Duration) -> bool {
        false
    }""", ["C20.R3", "C01.S2.empty"])
M("C20.try_init_wrong_component", ["C20"], "src/setup.rs",
  "                .with_clock(self.clock)\n                .with_rng(self.rng),", "                .with_clock(Default::default())\n                .with_rng(self.rng),", "C20.R4") if False else None
M("C20.init_slot_ignores_failure", ["C20"], "src/setup.rs", None, None, "x") if False else None

# ---- C19 -------------------------------------------------------------------------------------------
M("C19.inspecting_debug_captured_anonymously", ["C19"], "src/macro_hooks.rs",
  "        Some(Value::capture_debug(self))", "        Some(Value::from_debug(self))", "C19.R1.impl")
# (C19.anon_sval_keeps_type removed: does not compile - capture_sval needs T: 'static)
M("C19.hook_wrong_trait", ["C19"], "src/macro_hooks.rs",
  "        CaptureAsAnonDebug::capture(self)\n    }", "        CaptureAsDebug::capture(self)\n    }", "C19.R1.hook") if False else None
M("C19.optional_none_maps_to_some_null", ["C19"], "src/macro_hooks.rs",
  """        self.into_option().and_then(map)
    }

    fn __private_optional_map_option_ref<""",
  """        self.into_option().and_then(map).or_else(|| None)
    }

    fn __private_optional_map_option_ref<""", "C19.R3") if False else None
M("C19.value_debug_not_forwarded", ["C19"], "core/src/value.rs",
  "        fmt::Debug::fmt(&self.0, f)", "        fmt::Display::fmt(&self.0, f)", "C19.R4.forward") if False else None

# ---- configurations the test-suite never builds (thorough tier overlays) -----------------------------
M("C05.nostd_is_panicking_true", ["C05"], "src/span.rs",
  """                #[cfg(not(feature = "std"))]
                {
                    false
                }""",
  """                #[cfg(not(feature = "std"))]
                {
                    true
                }""", "K2b/C05.R7:is_panicking", tier="thorough")
M("C20.nostd_slot_claims_enabled", ["C20"], "core/src/runtime.rs",
  """        pub fn is_enabled(&self) -> bool {
            false
        }

        /**
        When the `std` feature is not enabled this method always returns an empty runtime.
        */
        pub fn get(&self) -> &AmbientRuntime {
            const EMPTY""",
  """        pub fn is_enabled(&self) -> bool {
            true
        }

        /**
        When the `std` feature is not enabled this method always returns an empty runtime.
        */
        pub fn get(&self) -> &AmbientRuntime {
            const EMPTY""", "C20.K2a.R3", tier="thorough")

# ---- reverse patch of fix 3e65fcb (D16) and hand mutants for the C11 rules added in round 2 ------------------
M("C11.rev_fix_empty_set_directory", ["C11"], "emitter/file/src/lib.rs",
  """    let dir = if dir.is_empty() {
        String::from(".")
    } else {
        dir
    };
""", "", "C11.R6")
M("C11.retention_bound_is_max_files", ["C11"], "emitter/file/src/lib.rs",
  "file_set.apply_retention(&self.fs, self.max_files.saturating_sub(1));",
  "file_set.apply_retention(&self.fs, self.max_files);", "C11.R7:retention-bound")
M("C11.retention_strictly_over", ["C11"], "emitter/file/src/lib.rs",
  "while self.file_set.len() >= max_files {", "while self.file_set.len() > max_files {", "C11.R7:retention-loop")
M("C11.counter_from_other_reading", ["C11"], "emitter/file/src/lib.rs",
  "rolling_millis(self.roll_by, ts, parts),", "rolling_millis(self.roll_by, self.clock.now().unwrap(), parts),", "C11.R8:one-reading")
M("C11.hour_period_truncates_to_day", ["C11"], "emitter/file/src/lib.rs",
  """            days: parts.days,
            hours: parts.hours,
            ..Default::default()
        })
        .unwrap(),
        RollBy::Minute""",
  """            days: parts.days,
            ..Default::default()
        })
        .unwrap(),
        RollBy::Minute""", "C11.R8:counter-monotone")

M("C15.rev_fix_underscore_segment_start", ["C15"], "core/src/path.rs",
  "c if separators % 2 == 0 && (is_xid_start(c) || c == '_') => {", "c if separators % 2 == 0 && is_xid_start(c) => {", "C15.R3")

# ---- builder discipline (common.builder_rules) -------------------------------------------------------------------
M("C11.builder_size_stored_in_max_files", ["C11"], "emitter/file/src/lib.rs",
  "        self.max_file_size_bytes = max_file_size_bytes;\n        self",
  "        self.max_files = max_file_size_bytes;\n        self", "C11.builder")
M("C01.event_map_props_drops_extent", ["C01"], "core/src/event.rs",
  """            mdl: self.mdl,
            extent: self.extent,
            tpl: self.tpl,
            props: map(self.props),""",
  """            mdl: self.mdl,
            extent: None,
            tpl: self.tpl,
            props: map(self.props),""", "C01.builder")

# ---- C20 entry points --------------------------------------------------------------------------------------------------
M("C20.try_init_internal_reads_shared_handle", ["C20"], "src/setup.rs",
  """                .with_rng(self.rng),
        )?;

        Some(Init {
            rt: slot.get(),""",
  """                .with_rng(self.rng),
        )?;

        Some(Init {
            rt: emit_core::runtime::shared_slot().get(),""", "C20.R6:right-slot", count=2)
M("C20.init_guard_zero_timeout", ["C20"], "src/setup.rs",
  "        self.inner.blocking_flush(self.timeout);", "        self.inner.blocking_flush(Duration::ZERO);", "C20.R6:InitGuard")

# ---- format templates (rules/fmtspec.py) ---------------------------------------------------------------------------------
M("C11.month_not_zero_padded", ["C11"], "emitter/file/src/lib.rs",
  '''        RollBy::Hour => format!(
            "{:>04}-{:>02}-{:>02}-{:>02}",''',
  '''        RollBy::Hour => format!(
            "{:>04}-{}-{:>02}-{:>02}",''', "C11.R10")
M("C11.counter_unpadded", ["C11"], "emitter/file/src/lib.rs",
  '    format!("{:<08}.{:<08x}", rolling_millis, rolling_id)', '    format!("{}.{:<08x}", rolling_millis, rolling_id)', "C11.R10")
M("C11.period_day_before_month", ["C11"], "emitter/file/src/lib.rs",
  """            "{:>04}-{:>02}-{:>02}",
            parts.years, parts.months, parts.days,""",
  """            "{:>04}-{:>02}-{:>02}",
            parts.years, parts.days, parts.months,""", "C11.R10")
M("C15.traceparent_absent_span_id_short", ["C15"], "traceparent/src/lib.rs",
  '            f.write_str("0000000000000000-")?;', '            f.write_str("000000000000000-")?;', "C15.R4:traceparent-writer")
M("C15.traceparent_ids_swapped_in_display", ["C15"], "traceparent/src/lib.rs",
  """        if let Some(span_id) = self.span_id {
            fmt::Display::fmt(&span_id, f)?;""",
  """        if let Some(span_id) = self.span_id {
            fmt::Display::fmt(&self.trace_flags, f)?;""", "C15.R4:traceparent-writer")

# ---- metrics accounting ----------------------------------------------------------------------------------------------------
M("C09.counter_increment_by_stores", ["C09"], "batcher/src/internal_metrics.rs",
  "        self.0.fetch_add(by, Ordering::Relaxed);", "        self.0.store(by, Ordering::Relaxed);", "C09.R6:counters")
M("C09.queue_length_reports_capacity_hint", ["C09"], "batcher/src/lib.rs",
  "        let queue_length = { self.shared.state.lock().unwrap().next_batch.channel.len() };",
  "        let queue_length = { self.shared.state.lock().unwrap().next_batch.watchers.on_take.len() };", "C09.R6:queue_length")

M("C12.grpc_len_little_endian_slip", ["C12"], "emitter/otlp/src/client.rs",
  "                                    .with_content_frame([0, len[0], len[1], len[2], len[3]])",
  "                                    .with_content_frame([0, len[3], len[2], len[1], len[0]])", "C12.R7")
M("C12.grpc_compressed_flag_unset", ["C12"], "emitter/otlp/src/client.rs",
  "                                    .with_content_frame([1, len[0], len[1], len[2], len[3]])",
  "                                    .with_content_frame([0, len[0], len[1], len[2], len[3]])", "C12.R7")

M("C08.no_backoff_wait_before_retry", ["C08"], "batcher/src/lib.rs",
  "                                            wait(self.retry_delay.next()).await;\n\n", "", "C08.R2:retry-budget")
M("C08.backoff_future_not_awaited", ["C08"], "batcher/src/lib.rs",
  "                                            wait(self.retry_delay.next()).await;\n", "                                            let _ = wait(self.retry_delay.next());\n", "C08.R2:retry-budget")

M("C11.rev_fix_period_after_first_dot", ["C11"], "emitter/file/src/lib.rs",
  "    file_name.rsplit('.').nth(3).ok_or_else(|| {", "    file_name.split('.').skip(1).next().ok_or_else(|| {", "C11.R5:reader-any-prefix")
M("C11.period_counted_wrong_from_end", ["C11"], "emitter/file/src/lib.rs",
  "    file_name.rsplit('.').nth(3).ok_or_else(|| {", "    file_name.rsplit('.').nth(2).ok_or_else(|| {", "C11.R5:reader-any-prefix")

# ---- round 4: reverse patch of fix aac7257 (D19) and hand mutants for the rules added with it -----------------------------------
M("C13.rev_fix_file_record_closes_over_error", ["C13"], "emitter/file/src/lib.rs",
  """            let mut r = Ok(());

            let _ = self.0.props().dedup().for_each(|k, v| {
                match (|| {
                    stream.record_value_begin(None, &sval::Label::new_computed(k.get()))?;
                    stream.value_computed(&v)?;
                    stream.record_value_end(None, &sval::Label::new_computed(k.get()))?;

                    Ok::<(), sval::Error>(())
                })() {
                    Ok(()) => ControlFlow::Continue(()),
                    Err(e) => {
                        r = Err(e);
                        ControlFlow::Break(())
                    }
                }
            });

            // A property that failed to stream leaves the record incomplete
            r?;
""", """            let _ = self.0.props().dedup().for_each(|k, v| {
                match (|| {
                    stream.record_value_begin(None, &sval::Label::new_computed(k.get()))?;
                    stream.value_computed(&v)?;
                    stream.record_value_end(None, &sval::Label::new_computed(k.get()))?;

                    Ok::<(), sval::Error>(())
                })() {
                    Ok(()) => ControlFlow::Continue(()),
                    Err(_) => ControlFlow::Break(()),
                }
            });
""", "C13.R5.errors")
M("C13.file_record_error_slot_unchecked", ["C13"], "emitter/file/src/lib.rs",
  """            // A property that failed to stream leaves the record incomplete
            r?;
""", """            let _ = r;
""", "C13.R5.errors")
M("C15.id_buffer_overflow_ignored_u128", ["C15"], "src/span.rs",
  """        write!(self, "{}", value).map_err(|_| ParseIdError {})?;""", """        write!(self, "{}", value).ok();""", "C15.R1:results-inspected")
M("C15.path_append_from_raw_text", ["C15"], "core/src/path.rs",
  "        Path::new_str(value.cast()?).ok()", "        Some(Path::new_str_raw(value.cast()?))", "C15.R3:unvalidated-paths")
M("C15.new_str_ignores_grammar", ["C15"], "core/src/path.rs",
  "        if is_valid_path(path.get()) {\n            Ok(Path(path))", "        if is_valid_path(path.get()) || true {\n            Ok(Path(path))", "C15.R3:unvalidated-paths")
M("C15.leap_shortcut_to_2100", ["C15"], "core/src/timestamp.rs",
  "        if year as u64 <= 138 {", "        if year as u64 <= 200 {", "C15.R5:four-year-shortcut")
M("C16.render_literal_shortcut", ["C16"], "core/src/template.rs",
  """        for part in self.tpl.0.parts() {
            part.write(&mut writer, &self.props)?;
        }
""", """        if let Some(text) = self.as_literal() {
            return writer.write_str(text.get());
        }

        for part in self.tpl.0.parts() {
            part.write(&mut writer, &self.props)?;
        }
""", "C16.R2:Render::write")
M("C17.from_iter_reversed", ["C17"], "src/level.rs",
  "            for (path, min_level) in iter {\n                map.min_level(path, min_level);",
  "            for (path, min_level) in iter.into_iter().collect::<Vec<_>>().into_iter().rev() {\n                map.min_level(path, min_level);", "C17.R5:from_iter")
M("C13.sum_points_wrapping", ["C13"], "emitter/otlp/src/data/metrics.rs",
  """            NumberDataPointValue::AsInt(AsInt(current)) => current
                .checked_add(value)
                .map(|value| NumberDataPointValue::AsInt(AsInt(value)))
                .unwrap_or(NumberDataPointValue::AsDouble(AsDouble(
                    current as f64 + value as f64,
                ))),""",
  """            NumberDataPointValue::AsInt(AsInt(current)) => {
                NumberDataPointValue::AsInt(AsInt(current.wrapping_add(value)))
            }""", "C13.R6:point-arithmetic")
M("C10.sync_parent_outcome_dropped", ["C10"], "emitter/file/src/lib.rs",
  "        // This is only important on some platforms and filesystems\n        fs.sync_parent(file_path)?;\n", "        // This is only important on some platforms and filesystems\n        let _ = fs.sync_parent(file_path);\n", "C10")

# ---- reverse patch of fix 4923149 (D21) and variants ---------------------------------------------------------------------------------
M("C11.rev_fix_membership_bare_prefix_suffix", ["C11"], "emitter/file/src/lib.rs",
  "            if is_file_in_set(file_name, file_prefix, file_ext) {",
  "            if file_name.starts_with(&file_prefix) && file_name.ends_with(&file_ext) {", "C11.R10:own-files-only")
M("C11.membership_ignores_extension", ["C11"], "emitter/file/src/lib.rs",
  "        .and_then(|rest| rest.strip_suffix(file_ext))\n", "", "C11.R3:listing-filter")
M("C11.membership_prefix_from_extension", ["C11"], "emitter/file/src/lib.rs",
  "            if is_file_in_set(file_name, file_prefix, file_ext) {",
  "            if is_file_in_set(file_name, file_ext, file_ext) {", "C11.R3:listing-filter")

# ---- reverse patch of fix d698938 (D22: empty fragment facing a hole) and variants -----------------------------------------------------
M("C16.rev_fix_empty_fragment_facing_hole", ["C16"], "core/src/template.rs",
  """                (PartKind::Text { value: ref a }, PartKind::Hole { .. }) if a.get().is_empty() => {
                    ai += 1;

                    continue;
                }
                (PartKind::Hole { .. }, PartKind::Text { value: ref b }) if b.get().is_empty() => {
                    bi += 1;

                    continue;
                }
""", "", "C16.R1g")
M("C16.empty_fragment_step_takes_the_hole_too", ["C16"], "core/src/template.rs",
  """                (PartKind::Text { value: ref a }, PartKind::Hole { .. }) if a.get().is_empty() => {
                    ai += 1;
""",
  """                (PartKind::Text { value: ref a }, PartKind::Hole { .. }) if a.get().is_empty() => {
                    ai += 1;
                    bi += 1;
""", "C16.R1g")
M("C16.nonempty_fragment_facing_hole_skipped", ["C16"], "core/src/template.rs",
  "(PartKind::Hole { .. }, PartKind::Text { value: ref b }) if b.get().is_empty() => {",
  "(PartKind::Hole { .. }, PartKind::Text { value: ref b }) if !b.get().is_empty() => {", "C16.R1")

# ---- reverse patch of fix bf6d79a (D23: OTLP worker ends with its first receiver) and variants ----------------------------------------
M("C08.rev_fix_worker_awaits_first_receiver", ["C08", "C12"], "emitter/otlp/src/client.rs",
  "            let _ = processors.collect::<Vec<()>>().await;", "            let _ = processors.into_future().await;", "R4:workers-run-to-completion")
M("C08.worker_awaits_next_once", ["C08", "C12"], "emitter/otlp/src/client.rs",
  "            let _ = processors.collect::<Vec<()>>().await;", "            let mut processors = processors;\n            let _ = processors.next().await;", "R4:workers-run-to-completion")


# ---- round 11: survivors of the operator-mutation sweep (selftest/sweep.py) that became rules (rules/shapes.py and results-inspected regions) ----
M('sweep11.file.member_else_true', ['C11'], 'emitter/file/src/lib.rs',
  '    else {\n        return false;\n    };\n\n',
  '    else {\n        return true;\n    };\n\n', 'C11.R10:non-members-rejected')
M('sweep11.tokio.flavour_ne_flush', ['C08'], 'batcher/src/tokio.rs',
  'Ok(handle) if handle.runtime_flavor() == tokio::runtime::RuntimeFlavor::MultiThread => {\n            tokio::task::block_in_place(|| sync::blocking_flush',
  'Ok(handle) if handle.runtime_flavor() != tokio::runtime::RuntimeFlavor::MultiThread => {\n            tokio::task::block_in_place(|| sync::blocking_flush', 'C08.R5:block-in-place-polarity')
M('sweep11.sync.trigger_true', ['C07', 'C08'], 'batcher/src/sync.rs',
  'Mutex::new(false), Condvar::new()',
  'Mutex::new(true), Condvar::new()', 'trigger-starts-unset')
M('sweep11.sync.remaining_add', ['C08'], 'batcher/src/sync.rs',
  'timeout.checked_sub(now.elapsed())',
  'timeout.checked_add(now.elapsed())', 'remaining-time-shrinks')
M('sweep11.otlp.flush_remaining_add', ['C08'], 'emitter/otlp/src/client.rs',
  'timeout.saturating_sub(start.elapsed())',
  'timeout.saturating_add(start.elapsed())', 'remaining-time-shrinks', count=3)
M('sweep11.lib.retry_len_le', ['C06', 'C08'], 'batcher/src/lib.rs',
  'if retryable.len() > 0 && self.retry.next() {',
  'if retryable.len() <= 0 && self.retry.next() {', 'retry-when-nonempty')
M('sweep11.lib.retry_len_ge', ['C06'], 'batcher/src/lib.rs',
  'if retryable.len() > 0 && self.retry.next() {',
  'if retryable.len() >= 0 && self.retry.next() {', 'retry-when-nonempty')
M('sweep11.lib.is_empty_ne', ['C06'], 'batcher/src/lib.rs',
  '        self.len() == 0\n',
  '        self.len() != 0\n', 'C06.R1:Channel::is_empty')
M('sweep11.tp.check_neg', ['C18'], 'traceparent/src/lib.rs',
  '        if !self.check {\n            return self.inner.for_each(for_each);',
  '        if self.check {\n            return self.inner.for_each(for_each);', 'exclude-props-polarity')
M('sweep11.tp.check_false_true', ['C18'], 'traceparent/src/lib.rs',
  '                check: false,\n',
  '                check: true,\n', 'exclude-props-polarity', count=2)
M('sweep11.tp.check_true_false', ['C18'], 'traceparent/src/lib.rs',
  '            check: true,\n',
  '            check: false,\n', 'exclude-props-polarity')
M('sweep11.tp.is_valid_or', ['C18'], 'traceparent/src/lib.rs',
  'self.trace_id.is_some() && self.span_id.is_some()',
  'self.trace_id.is_some() || self.span_id.is_some()', 'C18.R1:is_valid')
M('sweep11.tp.is_parent_or', ['C18'], 'traceparent/src/lib.rs',
  'self.traceparent.trace_id.is_some() && self.traceparent.trace_id == trace_id',
  'self.traceparent.trace_id.is_some() || self.traceparent.trace_id == trace_id', 'C18.R6:is_parent_of')
M('sweep11.tp.is_parent_none', ['C18'], 'traceparent/src/lib.rs',
  'self.traceparent.trace_id.is_some() && self.traceparent.trace_id == trace_id',
  'self.traceparent.trace_id.is_none() && self.traceparent.trace_id == trace_id', 'C18.R6:is_parent_of')
M('sweep11.tp.sep_and', ['C15'], 'traceparent/src/lib.rs',
  "bytes[2] != b'-' || bytes[35] != b'-' || bytes[52] != b'-'",
  "bytes[2] != b'-' && bytes[35] != b'-' || bytes[52] != b'-'", 'separators-each-checked')
M('sweep11.tp.sep_and2', ['C15'], 'traceparent/src/lib.rs',
  "bytes[2] != b'-' || bytes[35] != b'-' || bytes[52] != b'-'",
  "bytes[2] != b'-' || bytes[35] != b'-' && bytes[52] != b'-'", 'separators-each-checked')
M('sweep11.anyvalue.bool_ok', ['C13'], 'emitter/otlp/src/data/any_value.rs',
  '        self.stream.bool(value)?;',
  '        self.stream.bool(value).ok();', 'C13.R5:results-inspected')
M('sweep11.logrecord.exception_ok', ['C13'], 'emitter/otlp/src/data/logs/log_record.rs',
  'stream.stream_attribute(emit::Str::new("exception.message"), v)?;',
  'stream.stream_attribute(emit::Str::new("exception.message"), v).ok();', 'C13.R5:results-inspected')
M('sweep11.tp.display_ok', ['C15'], 'traceparent/src/lib.rs',
  '            fmt::Display::fmt(&trace_id, f)?;',
  '            fmt::Display::fmt(&trace_id, f).ok();', 'writers-propagate')
M('sweep11.props.asmap_ok', ['C02'], 'core/src/props.rs',
  '            stream.map_key_begin()?;',
  '            stream.map_key_begin().ok();', 'views-propagate')

M('sweep11.metrics.sum_sub_a', ['C13'], 'emitter/otlp/src/data/metrics.rs',
  'AsDouble(AsDouble(current + value as f64))',
  'AsDouble(AsDouble(current - value as f64))', 'sum-accumulates')
M('sweep11.metrics.sum_sub_b', ['C13'], 'emitter/otlp/src/data/metrics.rs',
  'AsDouble(AsDouble(current + value))',
  'AsDouble(AsDouble(current - value))', 'sum-accumulates')
M('sweep11.metrics.range_add', ['C13'], 'emitter/otlp/src/data/metrics.rs',
  'time_unix_nano.saturating_sub(start_time_unix_nano)',
  'time_unix_nano.saturating_add(start_time_unix_nano)', 'range-end-minus-start')
M('sweep11.metrics.range_swapped', ['C13'], 'emitter/otlp/src/data/metrics.rs',
  'time_unix_nano.saturating_sub(start_time_unix_nano)',
  'start_time_unix_nano.saturating_sub(time_unix_nano)', 'range-end-minus-start')
M('sweep11.file.listing_neg', ['C11'], 'emitter/file/src/lib.rs',
  'if entry.metadata().ok()?.is_file() {',
  'if !entry.metadata().ok()?.is_file() {', 'std-listing-files-only')
M('sweep11.file.listing_none', ['C11'], 'emitter/file/src/lib.rs',
  '                Some(entry.path())\n',
  '                None\n', 'std-listing-files-only')
M('sweep11.file.batch_len_add', ['C09', 'C10'], 'emitter/file/src/lib.rs',
  'self.bufs.len() - self.index',
  'self.bufs.len() + self.index', 'EventBatch::len')
M('sweep11.http.tls_neg', ['C12'], 'emitter/otlp/src/client/http.rs',
  '    if uri.is_https() {\n        #[cfg(feature = "tls")]',
  '    if !uri.is_https() {\n        #[cfg(feature = "tls")]', 'tls-iff-https')
M('sweep11.http.content_len_sub', ['C12'], 'emitter/otlp/src/client/http.rs',
  'self.content_frame_len() + self.content_payload_len()',
  'self.content_frame_len() - self.content_payload_len()', 'content-length')

M('sweep11.tokio.wait_fired_false', ['C08'], 'batcher/src/tokio.rs',
  '    if notified.try_recv().is_ok() {\n        return true;',
  '    if notified.try_recv().is_ok() {\n        return false;', 'R4:tokio::wait')
M('sweep11.tokio.wait_okok_false', ['C08'], 'batcher/src/tokio.rs',
  '        Ok(Ok(())) => true,',
  '        Ok(Ok(())) => false,', 'R4:tokio::wait')

M('sweep11.http.frame_false', ['C12'], 'emitter/otlp/src/client/http.rs',
  '                        Poll::Ready(Ok(true))\n',
  '                        Poll::Ready(Ok(false))\n', 'C12.R5:response-read-to-end')
M('sweep11.http.end_true', ['C12'], 'emitter/otlp/src/client/http.rs',
  'Poll::Ready(None) => Poll::Ready(Ok(false)),',
  'Poll::Ready(None) => Poll::Ready(Ok(true)),', 'C12.R5:response-read-to-end')
M('sweep11.http.no_loop', ['C12'], 'emitter/otlp/src/client/http.rs',
  '        while BufNext(frame, &mut body, &mut trailer).await? {}',
  '        let _ = BufNext(frame, &mut body, &mut trailer).await?;', 'C12.R5:response-read-to-end')

M('sweep11.http.end_stream_pending_true', ['C12'], 'emitter/otlp/src/client/http.rs',
  '            (Some(_), _) | (_, Some(_)) => false,',
  '            (Some(_), _) | (_, Some(_)) => true,', 'C12.R10:end-of-request-body')
M('sweep11.http.end_stream_done_false', ['C12'], 'emitter/otlp/src/client/http.rs',
  '            (Some(_), _) | (_, Some(_)) => false,\n            _ => true,',
  '            (Some(_), _) | (_, Some(_)) => false,\n            _ => false,', 'C12.R10:end-of-request-body')
M('sweep11.http.end_stream_only_frame', ['C12'], 'emitter/otlp/src/client/http.rs',
  '            (Some(_), _) | (_, Some(_)) => false,',
  '            (Some(_), _) => false,', 'C12.R10:end-of-request-body')

M('sweep11.macros.push_ok_props', ['C02'], 'macros/src/props.rs',
  '        props.push(&fv, capture::default_fn_name(&fv), false, true)?;',
  '        props.push(&fv, capture::default_fn_name(&fv), false, true).ok();', 'C02.R4:macro-errors-propagate', count=2)
M('sweep11.macros.push_ok_template', ['C02'], 'macros/src/template.rs',
  'props.push(fv, fn_name(fv), true, captured)?;',
  'props.push(fv, fn_name(fv), true, captured).ok();', 'C02.R4:macro-errors-propagate')
M('sweep11.macros.check_evt_props_ok', ['C02'], 'macros/src/span.rs',
  '    check_evt_props(&ctxt_props)?;',
  '    check_evt_props(&ctxt_props).ok();', 'C02.R4:macro-errors-propagate', count=2)

# ---- reverse patch of fix b2fa7b0 (D25: outer format flags reach hole values) ------------------------------------------------------------
M("C16.rev_fix_hole_value_gets_outer_formatter", ["C16"], "core/src/template.rs",
  "        // flags the caller is formatting the template with to each hole\n        self.write_fmt(format_args!(\"{}\", value))", "        // flags the caller is formatting the template with to each hole\n        fmt::Display::fmt(&value, self)", "C16.R2:hole-values-flag-neutral")

# ---- reverse patch of fix a125679 (D26: gRPC status only read from trailers) ---------------------------------------------------------------
M("C12.rev_fix_grpc_status_trailers_only", ["C12"], "emitter/otlp/src/client.rs",
  """                            let mut status = res
                                .header("grpc-status")
                                .and_then(|v| v.parse().ok())
                                .unwrap_or(0);""",
  """                            let mut status = 0;""", "C12.R5:grpc-status-in-headers")

# ---- reverse patch of fix 3f51424 (D27: HTTP status ignored on the gRPC transport) --------------------------------------------------------------
M("C12.rev_fix_grpc_ignores_http_status", ["C12"], "emitter/otlp/src/client.rs",
  """                            if !(http_status >= 200 && http_status < 300) {""",
  """                            if false && !(http_status >= 200 && http_status < 300) {""", "C12.R5")
M("C12.grpc_http_status_range_off", ["C12"], "emitter/otlp/src/client.rs",
  """                            if !(http_status >= 200 && http_status < 300) {""",
  """                            if !(http_status >= 200 && http_status <= 300) {""", "C12.R5:status")

M('sweep11.ts.len_le_20', ['C15'], 'core/src/timestamp.rs',
  'if fmt.len() > 30 || fmt.len() < 20 {',
  'if fmt.len() > 30 || fmt.len() <= 20 {', 'C15.R4:rfc3339-length-window')
M('sweep11.ts.len_ge_30', ['C15'], 'core/src/timestamp.rs',
  'if fmt.len() > 30 || fmt.len() < 20 {',
  'if fmt.len() >= 30 || fmt.len() < 20 {', 'C15.R4:rfc3339-length-window')
M('sweep11.ts.len_and', ['C15'], 'core/src/timestamp.rs',
  'if fmt.len() > 30 || fmt.len() < 20 {',
  'if fmt.len() > 30 && fmt.len() < 20 {', 'C15.R4:rfc3339-length-window')
M('sweep11.ts.month_feb_div', ['C15'], 'core/src/timestamp.rs',
  '            31 * 86400,  // Feb',
  '            31 / 86400,  // Feb', 'C15.R5:month-table')
M('sweep11.ts.month_jul_day', ['C15'], 'core/src/timestamp.rs',
  '            181 * 86400, // Jul',
  '            182 * 86400, // Jul', 'C15.R5:month-table')
M('sweep11.ts.leap_fast_false', ['C15'], 'core/src/timestamp.rs',
  '                leaps -= 1;\n                is_leap = true;',
  '                leaps -= 1;\n                is_leap = false;', 'C15.R5:leap-flag-table')
M('sweep11.ts.leap_400_false', ['C15'], 'core/src/timestamp.rs',
  '            if rem == 0 {\n                is_leap = true;',
  '            if rem == 0 {\n                is_leap = false;', 'C15.R5:leap-flag-table')
M('sweep11.ts.leap_century_true', ['C15'], 'core/src/timestamp.rs',
  '                if rem == 0 {\n                    is_leap = false;',
  '                if rem == 0 {\n                    is_leap = true;', 'C15.R5:leap-flag-table')
M('sweep11.ts.leap_mod4_ne', ['C15'], 'core/src/timestamp.rs',
  '                    is_leap = rem == 0;',
  '                    is_leap = rem != 0;', 'C15.R5:leap-flag-table')
M('sweep11.ts.leap_tz_gt2', ['C15'], 'core/src/timestamp.rs',
  'if (year - 68).trailing_zeros() >= 2 {',
  'if (year - 68).trailing_zeros() > 2 {', 'C15.R5:leap-flag-table')

M('sweep11.macros.evt_level_dropped', ['C17'], 'macros/src/build.rs',
  '    push_evt_props(&mut props, opts.level)?;\n',
  '', 'C17.R6:macro-level-used')
M('sweep11.macros.emit_level_dropped', ['C17'], 'macros/src/emit.rs',
  'push_evt_props(&mut props, opts.level)?;',
  'push_evt_props(&mut props, None)?;', 'C17.R6:macro-level-used')

# ---- reverse patch of fix ab610ab (D28: reuse path never syncs the directory entry) ---------------------------------------------------------
M("C10.rev_fix_reuse_without_sync_parent", ["C10"], "emitter/file/src/lib.rs",
  """        fs.sync_parent(file_path)?;

        let file_size_bytes = file.len()?;""",
  """        let file_size_bytes = file.len()?;""", "C10.R5:sync_parent-on-reuse")
M("C10.reuse_sync_parent_outcome_dropped", ["C10"], "emitter/file/src/lib.rs",
  """        fs.sync_parent(file_path)?;

        let file_size_bytes = file.len()?;""",
  """        let _ = fs.sync_parent(file_path);

        let file_size_bytes = file.len()?;""", "C10")

M('sweep11.http.gzip_loop_inverted', ['C12'], 'emitter/otlp/src/client/http.rs',
  '            if chunk.len() == 0 {\n                break;',
  '            if chunk.len() != 0 {\n                break;', 'C12.R10:gzip-consumes-payload')

M('sweep11.client.url_join_or', ['C12'], 'emitter/otlp/src/client.rs',
  'if !url.ends_with("/") && !path.starts_with("/") {',
  'if !url.ends_with("/") || !path.starts_with("/") {', 'C12.R9:url-join')
M('sweep11.client.url_join_neg', ['C12'], 'emitter/otlp/src/client.rs',
  'if !url.ends_with("/") && !path.starts_with("/") {',
  'if url.ends_with("/") && !path.starts_with("/") {', 'C12.R9:url-join')

M('sweep11.template.literal_eq_ne', ['C16'], 'core/src/template.rs',
  '            return a == b;',
  '            return a != b;', 'C16.R1h:literal-fast-path')
M('sweep11.template.literal_eq_self', ['C16'], 'core/src/template.rs',
  '            return a == b;',
  '            return a == a;', 'C16.R1h:literal-fast-path')

# ---- reverse patch of fix 95227de (D29: an overflowing integer sum becomes +Infinity) -----------------------------------------------------
M("C13.rev_fix_sum_overflow_infinity", ["C13"], "emitter/otlp/src/data/metrics.rs",
  """                .unwrap_or(NumberDataPointValue::AsDouble(AsDouble(
                    current as f64 + value as f64,
                ))),""",
  """                .unwrap_or(NumberDataPointValue::AsDouble(AsDouble(f64::INFINITY))),""", "C13.R8:sum-accumulates")

# ---- round 6 (own probing of the blocking entry points): Trigger, send_or_wait, callbacks ------------------------------------------
M("C07.wait_zero_timeout_reports_flushed", ["C07"], "batcher/src/sync.rs",
  "            if timeout == Duration::ZERO {\n                return false;", "            if timeout == Duration::ZERO {\n                return true;", "C07.R4:Trigger")
M("C07.wait_timed_out_reports_flushed", ["C07"], "batcher/src/sync.rs",
  """                (flushed, _) => {
                    return *flushed;
                }""", """                (_, _) => {
                    return true;
                }""", "C07.R4:Trigger")
M("C08.blocking_send_elapsed_constant", ["C08", "C09"], "batcher/src/sync.rs",
  "        || start.elapsed(),", "        || Duration::ZERO,", "R3:send_or_wait-clock")
M("C09.send_or_wait_ok_on_expiry", ["C09"], "batcher/src/lib.rs",
  "                    if elapsed >= timeout {\n                        return Err(err);", "                    if elapsed >= timeout {\n                        return Ok(());", "C09.R3:send_or_wait-outcomes")
M("C08.when_empty_callback_lost", ["C08"], "batcher/src/lib.rs",
  "            state.next_batch.watchers.push_on_take(Box::new(f));", "            drop(f);", "C08.R3:when_empty-consumes-callback")
M("C08.when_flushed_parked_on_take", ["C08"], "batcher/src/lib.rs",
  "            state.next_batch.watchers.push_on_flush(Box::new(f));", "            state.next_batch.watchers.push_on_take(Box::new(f));", "C08.R3:when_flushed-consumes-callback")

# ---- round 6 (own probing): constructors, configuration wiring, naming tables ------------------------------------------------------
M("C06.bounded_starts_closed", ["C06", "C09"], "batcher/src/lib.rs",
  "            is_open: true,\n            is_in_batch: false,", "            is_open: false,\n            is_in_batch: false,", "R0:bounded")
M("C08.retry_backoff_min_above_max", ["C08"], "batcher/src/lib.rs",
  "retry_delay: Delay::new(Duration::from_millis(700), Duration::from_secs(10)),", "retry_delay: Delay::new(Duration::from_secs(10), Duration::from_millis(700)),", "C08.R0:bounded")
M("C11.spawn_swaps_size_and_count_limits", ["C11"], "emitter/file/src/lib.rs",
  "            self.max_files,\n            self.max_file_size_bytes,", "            self.max_file_size_bytes,\n            self.max_files,", "C11.R11")
M("C10.emitter_separator_not_configured_one", ["C10"], "emitter/file/src/lib.rs",
  "            writer: self.writer,\n            separator: self.separator,", "            writer: self.writer,\n            separator: b\"\\n\",", "C10.R6:configuration")
M("C12.logs_json_builder_builds_proto", ["C12"], "emitter/otlp/src/client/logs.rs",
  "        Self::new(Encoding::Json, transport)", "        Self::new(Encoding::Proto, transport)", "C12.R9:named-constructors")
M("C12.logs_grpc_service_path_of_traces", ["C12"], "emitter/otlp/src/client/logs.rs",
  'Some("opentelemetry.proto.collector.logs.v1.LogsService/Export")', 'Some("opentelemetry.proto.collector.trace.v1.TraceService/Export")', "C12.R9:named-constructors")
M("C13.content_type_arms_crossed", ["C13", "C12"], "emitter/otlp/src/client/http.rs",
  '        Encoding::Proto => "application/x-protobuf",\n        Encoding::Json => "application/json",', '        Encoding::Proto => "application/json",\n        Encoding::Json => "application/x-protobuf",', "encoding-arms")
M("C07.flush_watchers_pushed_to_take_list", ["C07"], "batcher/src/lib.rs",
  "    fn push_on_flush(&mut self, watcher: Watcher) {\n        self.on_flush.push(watcher);", "    fn push_on_flush(&mut self, watcher: Watcher) {\n        self.on_take.push(watcher);", "C07.R3:watcher-lists")

# ---- round 7 (deletion sweeps) --------------------------------------------------------------------------------------------------------
M("C08.send_or_wait_expired_edge_falls_through", ["C08", "C09"], "batcher/src/lib.rs",
  "                    if elapsed >= timeout {\n                        return Err(err);\n                    }", "                    if elapsed >= timeout {\n                    }", "R3:send_or_wait-outcomes")
M("C11.listing_never_stored", ["C11"], "emitter/file/src/lib.rs",
  "        self.file_set = file_set;\n\n        Ok(())", "        Ok(())", "C11.R3:listing-total")
M("C11.event_bytes_not_counted", ["C11"], "emitter/file/src/lib.rs",
  "        self.file_size_bytes += event_buf.len();\n", "", "C11.R1c:size-accounting")
M("C12.http2_connection_not_driven", ["C12"], "emitter/otlp/src/client/http.rs",
  "    tokio::task::spawn(async move {\n        let _ = conn.await;\n    });\n\n    Ok(HttpSender::Http2(sender))", "    tokio::task::spawn(async move {\n        let _ = conn;\n    });\n\n    Ok(HttpSender::Http2(sender))", "C12.R4:connection-driven")
M("C12.request_size_not_increased", ["C12"], "emitter/otlp/src/client.rs",
  "            self.current_request_size_bytes += incoming_size_bytes;\n", "", "C12.R2:request-size-accounting")
M("C16.format_hook_returns_empty", ["C16"], "src/macro_hooks.rs",
  "    tpl.render(props).write(&mut s).expect(\"infallible write\");\n", "", "C16.R2:__private_format")
M("C18.filter_ignores_sampling_decision", ["C18"], "traceparent/src/lib.rs",
  "                return incoming.traceparent.trace_flags().is_sampled();\n", "", "C18.R2:filter-returns-decision")
M("C03.frame_enumerates_nothing", ["C03", "C19"], "src/platform/thread_local_ctxt.rs",
  "                for_each(k.by_ref(), v.to_value())?;\n", "                let _ = (k, v, &mut for_each);\n", "R10:frame-yields-entries")
M("C03.open_push_unwraps_empty_snapshot", ["C03"], "src/platform/thread_local_ctxt.rs",
  "            span.props = Some(Arc::new(HashMap::new()));\n", "", "C03.R9:open_push-unwrap-guarded")
