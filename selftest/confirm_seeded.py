#!/usr/bin/env python3
"""Confirm a sub-agent's seeded change in its scratch worktree, then keep it under /verif/seeded/.

usage: confirm_seeded.py <ID> [m1 m2 ...]
For each change: (1) apply patch, full test suite must pass; (2) add demo, demo must FAIL;
(3) revert patch, demo must PASS.  Only then is it copied to /verif/seeded/<ID>-<m>/.
"""
import json
import os
import shutil
import subprocess
import sys
import time

VERIF = os.path.dirname(os.path.dirname(os.path.abspath(__file__)))
TARGET = "/tmp/wt/target-confirm"
_slot_lock = None


def take_slot():
    """Three shared cargo target directories; one confirmation at a time per directory."""
    global TARGET, _slot_lock
    import fcntl
    while True:
        for i in range(3):
            f = open("/tmp/wt/target-confirm-%d.lock" % i, "w")
            try:
                fcntl.flock(f, fcntl.LOCK_EX | fcntl.LOCK_NB)
            except OSError:
                f.close()
                continue
            _slot_lock = f
            TARGET = "/tmp/wt/target-confirm-%d" % i
            return
        time.sleep(5)


def sh(cmd, cwd, timeout=3600):
    env = dict(os.environ, CARGO_TARGET_DIR=TARGET, CARGO_NET_OFFLINE="true")
    p = subprocess.run(cmd, shell=True, cwd=cwd, env=env, text=True, stdout=subprocess.PIPE,
                       stderr=subprocess.STDOUT, timeout=timeout)
    return p.returncode, p.stdout


def main():
    pid = sys.argv[1]
    ms = sys.argv[2:] or ["m1", "m2"]
    W = "/tmp/wt/%s" % pid
    if any(m in ("m3", "m4", "m5") for m in ms):
        W = "/tmp/wt/r2-%s" % pid  # round 2: scratch clones
    if any(m in ("m6", "m7", "m8") for m in ms):
        W = "/tmp/wt/r3-%s" % pid  # round 3
    if any(m in ("m9", "m10", "m11", "m11_alt") for m in ms):
        W = "/tmp/wt/r4-%s" % pid  # round 4
    if any(m in ("m13", "m14", "m15") for m in ms):
        W = "/tmp/wt/r5-%s" % pid  # round 5
    if any(m in ("m16", "m17", "m18") for m in ms):
        W = "/tmp/wt/r6-%s" % pid  # round 6
    if any(m in ("m19", "m20", "m21") for m in ms):
        W = "/tmp/wt/r7-%s" % pid  # round 7
    if any(m in ("m22", "m23", "m24") for m in ms):
        W = "/tmp/wt/r8-%s" % pid  # round 8
    if any(m in ("m25", "m26", "m27") for m in ms):
        W = "/tmp/wt/r9-%s" % pid  # round 9
    if any(m in ("m28", "m29", "m30") for m in ms):
        W = "/tmp/wt/r10-%s" % pid  # round 10
    if any(m in ("m31", "m32", "m33") for m in ms):
        W = "/tmp/wt/r11-%s" % pid  # round 11
    if any(m in ("m34", "m35", "m36") for m in ms):
        W = "/tmp/wt/r12-%s" % pid  # round 12
    if any(m in ("m37", "m38", "m39") for m in ms):
        W = "/tmp/wt/r13-%s" % pid  # round 13
    take_slot()
    for m in ms:
        out = os.path.join(W, "_out", m)
        if not os.path.exists(os.path.join(out, "patch.diff")):
            print(pid, m, "no patch.diff")
            continue
        meta = json.load(open(os.path.join(out, "meta.json")))
        demo_cmd = meta["demo_cmd"]
        if isinstance(demo_cmd, list):
            demo_cmd = " && ".join(demo_cmd)
        demo_cmd = demo_cmd.replace("/tmp/wt/%s/target" % pid, TARGET)
        import re
        demo_cmd = re.sub(r"git apply [^&;]*(&&|;)\s*", "", demo_cmd)
        demo_cmd = re.sub(r"cd /tmp/wt/(r[234]-)?%s\s*(&&|;)\s*" % pid, "", demo_cmd)
        mm = re.search(r"(cargo test[^&;|(#`]*)", demo_cmd)
        if mm:
            demo_cmd = mm.group(1).strip()
        sh("git checkout -- . && git clean -fdq -e _out -e Cargo.lock -e target", W)
        res = {"at": time.strftime("%Y-%m-%dT%H:%M:%S")}
        rc, o = sh("git apply %s/patch.diff" % out, W)
        res["apply_patch"] = rc
        if rc != 0:
            print(pid, m, "patch does not apply", o[-500:])
            continue
        rc, o = sh("cargo test --workspace --no-fail-fast --offline 2>&1 | grep -E '^test result|FAILED|^error' ", W)
        passed = "FAILED" not in o and "error" not in o and "test result: ok" in o
        res["suite_with_change"] = "pass" if passed else "FAIL"
        res["suite_tail"] = o[-600:]
        rc, o = sh("git apply %s/demo.diff" % out, W)
        res["apply_demo"] = rc
        rc1, o1 = sh(demo_cmd, W)
        res["demo_with_change"] = "fails" if rc1 != 0 else "PASSES"
        res["demo_with_change_tail"] = o1[-800:]
        sh("git apply -R %s/patch.diff" % out, W)
        rc2, o2 = sh(demo_cmd, W)
        res["demo_without_change"] = "passes" if rc2 == 0 else "FAILS"
        res["demo_without_change_tail"] = o2[-500:]
        sh("git checkout -- . && git clean -fdq -e _out -e Cargo.lock -e target", W)
        ok = passed and rc1 != 0 and rc2 == 0
        res["confirmed"] = ok
        json.dump(res, open(os.path.join(out, "confirm.json"), "w"), indent=1)
        print(pid, m, "CONFIRMED" if ok else "NOT CONFIRMED", {k: v for k, v in res.items() if not k.endswith("tail")})
        if ok:
            dst = os.path.join(VERIF, "seeded", "%s-%s" % (pid, m))
            os.makedirs(dst, exist_ok=True)
            shutil.copy(os.path.join(out, "patch.diff"), dst)
            shutil.copy(os.path.join(out, "demo.diff"), dst)
            meta["confirmed_by_me"] = {k: v for k, v in res.items() if not k.endswith("tail")}
            meta["confirmed_by_me"]["ran"] = [
                "git apply patch.diff; cargo test --workspace --no-fail-fast --offline  -> all ok",
                "git apply demo.diff; %s -> fails" % demo_cmd,
                "git apply -R patch.diff; %s -> passes" % demo_cmd]
            json.dump(meta, open(os.path.join(dst, "meta.json"), "w"), indent=1)


if __name__ == "__main__":
    main()
