#!/usr/bin/env python3
"""Run ad-hoc probe mutants (a python file defining PROBES = [(id, props, file, old, new), ...]) through the checks in scratch
clones and print which obligations fire.  Development aid for finding gaps; lasting ones are copied into mutants.py."""
import os
import sys
import threading
HERE = os.path.dirname(os.path.abspath(__file__))
sys.path.insert(0, HERE)
probe_file = sys.argv[1]
sys.argv = sys.argv[:1]
import run  # noqa
ns = {}
exec(open(probe_file).read(), ns)
PROBES = ns["PROBES"]
run.SCRATCH = "/tmp/wtpriv/probe-%d" % os.getpid()
jobs = min(int(os.environ.get("PROBE_JOBS", "8")), len(PROBES))
import queue
q = queue.Queue()
for p in PROBES:
    q.put(p)
out = {}
def loop(i):
    w = run.Worker(i)
    while True:
        try:
            p = q.get_nowait()
        except queue.Empty:
            return
        m = dict(id=p[0], props=p[1], file=p[2], old=p[3], new=p[4], expect=[""], tier=os.environ.get("VERIF_TIER", "quick"), count=(p[5] if len(p) > 5 else open(os.path.join(w.repo, p[2])).read().count(p[3])))
        out[p[0]] = w.run(m)
ths = [threading.Thread(target=loop, args=(i,)) for i in range(jobs)]
[t.start() for t in ths]
[t.join() for t in ths]
for p in PROBES:
    r = out[p[0]]
    print("%-50s %-12s %s" % (p[0], r[1], " ".join(r[4])[:150]))
    if r[1] not in ("CAUGHT",):
        print("    " + r[2][-600:].replace("\n", "\n    "))
import shutil
shutil.rmtree(run.SCRATCH, ignore_errors=True)
