#!/usr/bin/env python3
"""Behaviour-preserving identifier renames (regex within a line range): every listed check must stay silent AND the tree must compile."""
import os, sys, threading, queue, shutil, re
HERE = os.path.dirname(os.path.abspath(__file__))
sys.path.insert(0, HERE)
pf = sys.argv[1]
sys.argv = sys.argv[:1]
import run
ns = {}
exec(open(pf).read(), ns)
REN = ns["RENAMES"]
run.SCRATCH = "/tmp/wtpriv/prober-%d" % os.getpid()
q = queue.Queue()
for p in REN:
    q.put(p)
out = {}
def loop(i):
    w = run.Worker(i)
    while True:
        try:
            pid, props, file, word, repl, lo, hi = q.get_nowait()
        except queue.Empty:
            return
        path = os.path.join(w.repo, file)
        lines = open(path).read().split("\n")
        n = 0
        for k in range(lo - 1, min(hi, len(lines))):
            new, c = re.subn(word, repl, lines[k])
            n += c
            lines[k] = new
        open(path, "w").write("\n".join(lines))
        res = []
        for pr in props:
            r = w.check(pr)
            res.append((pr, r.returncode, [l for l in r.stdout.splitlines() if l.startswith(("VIOLATION", "  rule", "  |")) or "does not compile" in l or l.startswith("error")][:5]))
        run.sh("git -C %s checkout -- ." % w.repo)
        out[pid] = ("ALARM" if any(rc != 0 for _, rc, _ in res) else "SILENT(%d renamed)" % n, res)
ths = [threading.Thread(target=loop, args=(i,)) for i in range(min(6, len(REN)))]
[t.start() for t in ths]
[t.join() for t in ths]
for p in REN:
    st, d = out[p[0]]
    print("%-25s %s" % (p[0], st))
    if not st.startswith("SILENT"):
        for x in d:
            if x[1] != 0:
                print("    ", x)
shutil.rmtree(run.SCRATCH, ignore_errors=True)
