#!/usr/bin/env python3
"""Try unconfirmed patches against the checks in scratch clones: try_patch.py <ID>[,<ID2>] <patch.diff> ...
Prints which obligations fire.  (Development aid; the confirmed ones live in /verif/seeded and run through run.py.)"""
import os
import re
import sys
import threading

HERE = os.path.dirname(os.path.abspath(__file__))
sys.path.insert(0, HERE)
sys.argv, argv = sys.argv[:1], sys.argv[1:]
import run  # noqa

props = argv[0].split(",")
tier = os.environ.get("VERIF_TIER", "quick")
patches = argv[1:]
run.SCRATCH = "/tmp/wtpriv/try-%d" % os.getpid()
out = {}


def one(i, p):
    w = run.Worker(i)
    r = w.run(dict(id=p, props=props, patch=p, expect=[""], tier=tier))
    out[p] = r


ths = [threading.Thread(target=one, args=(i, p)) for i, p in enumerate(patches)]
[t.start() for t in ths]
[t.join() for t in ths]
for p in patches:
    r = out[p]
    print("%-50s %-10s %s" % (p[-50:], r[1], " ".join(r[4])))
    if r[1] != "CAUGHT":
        print("    " + r[2][-800:].replace("\n", "\n    "))
import shutil
shutil.rmtree(run.SCRATCH, ignore_errors=True)
