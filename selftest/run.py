#!/usr/bin/env python3
"""Self-test of the checker: apply one seeded mutation at a time to /repo's working tree, require the
owning check to raise a VIOLATION naming the expected rule, revert.  Finally require silence on the
pristine tree.  Not registered in MANIFEST.json (it edits /repo's working tree temporarily).

usage: selftest/run.py [mutant-id-substring ...]   (no args: all)
"""
import json
import os
import subprocess
import sys
import time

HERE = os.path.dirname(os.path.abspath(__file__))
VERIF = os.path.dirname(HERE)
REPO = "/repo"
sys.path.insert(0, HERE)
import mutants  # noqa
mutants.load_seeded()
MUTANTS = mutants.MUTANTS


def sh(cmd, **kw):
    return subprocess.run(cmd, shell=True, text=True, stdout=subprocess.PIPE, stderr=subprocess.STDOUT, **kw)


def clean():
    r = sh("git -C %s status --porcelain --untracked-files=no" % REPO)
    return r.stdout.strip() == ""


def apply(m):
    if "patch" in m:
        r = sh("git -C %s apply %s" % (REPO, m["patch"]))
        return r.returncode == 0, r.stdout
    p = os.path.join(REPO, m["file"])
    s = open(p).read()
    n = s.count(m["old"])
    if n != m.get("count", 1):
        return False, "pattern occurs %d times in %s" % (n, m["file"])
    s = s.replace(m["old"], m["new"])
    open(p, "w").write(s)
    return True, ""


def main():
    sel = sys.argv[1:]
    if not clean():
        print("refusing: /repo has uncommitted changes to tracked files")
        return 2
    results = []
    for m in MUTANTS:
        if sel and not any(s in m["id"] for s in sel):
            continue
        t = time.time()
        ok, msg = apply(m)
        if not ok:
            results.append((m["id"], "APPLY-FAILED", msg))
            sh("git -C %s checkout -- ." % REPO)
            print("%-60s APPLY-FAILED %s" % (m["id"], msg), flush=True)
            continue
        try:
            outs = []
            caught = False
            named = False
            for pid in m["props"]:
                r = sh("./check %s --tier %s" % (pid, m.get("tier", "quick")), cwd=VERIF)
                outs.append(r.stdout)
                if r.returncode == 1 and "VIOLATION property=%s" % pid in r.stdout:
                    caught = True
                    if any(e in r.stdout for e in m["expect"]):
                        named = True
                if "does not compile" in r.stdout or "failed on /repo" in r.stdout:
                    caught = False
                    named = False
                    outs.append("MUTANT DOES NOT COMPILE")
            status = "CAUGHT" if (caught and named) else ("CAUGHT-OTHER-RULE" if caught else "MISSED")
            detail = ""
            if status != "CAUGHT":
                detail = "\n".join(outs)[-1500:]
            results.append((m["id"], status, detail))
        finally:
            sh("git -C %s checkout -- ." % REPO)
        print("%-60s %-18s %.1fs" % (m["id"], results[-1][1], time.time() - t), flush=True)
        if results[-1][2]:
            print("    " + results[-1][2].replace("\n", "\n    "))
    assert clean()
    # pristine tree must be silent
    props = sorted({p for m in MUTANTS for p in m["props"] if not sel or any(s in m["id"] for s in sel)})
    for pid in props:
        r = sh("./check %s" % pid, cwd=VERIF)
        st = "SILENT" if r.returncode == 0 and "VIOLATION" not in r.stdout else "ALARM-ON-PRISTINE"
        results.append(("pristine:%s" % pid, st, "" if st == "SILENT" else r.stdout[-1500:]))
        print("%-60s %s" % ("pristine:%s" % pid, st), flush=True)
    if not sel:
        with open(os.path.join(HERE, "RESULTS.md"), "w") as fh:
            fh.write("# Self-test results (selftest/run.py)\n\n| mutant | outcome |\n|---|---|\n")
            for i, st, _ in results:
                fh.write("| %s | %s |\n" % (i, st))
    bad = [r for r in results if r[1] not in ("CAUGHT", "SILENT")]
    return 1 if bad else 0


if __name__ == "__main__":
    sys.exit(main())
