#!/usr/bin/env python3
"""Self-test of the checker: apply one seeded mutation at a time to a scratch clone of /repo, require the
owning check to raise a VIOLATION naming the expected rule, revert.  Finally require silence on the
pristine tree.  Not registered in MANIFEST.json (it needs scratch copies).

Each worker owns one clone of /repo's HEAD under /tmp/wt/selftest/w<i> with its own work directory (facts
cache, cargo target) and evidence directory, selected through VERIF_REPO / VERIF_WORK / VERIF_EVIDENCE; /repo
itself and /verif/evidence are never touched.  Everything under /tmp/wt/selftest is removed at the end.

usage: selftest/run.py [-j N] [mutant-id-substring ...]   (no filter: all, and RESULTS.md is rewritten)
"""
import os
import queue
import re
import shutil
import subprocess
import sys
import threading
import time

HERE = os.path.dirname(os.path.abspath(__file__))
VERIF = os.path.dirname(HERE)
REPO = "/repo"
SCRATCH = "/tmp/wtpriv/selftest-%d" % os.getpid()
sys.path.insert(0, HERE)
import mutants  # noqa
mutants.load_seeded()
MUTANTS = mutants.MUTANTS


def sh(cmd, **kw):
    return subprocess.run(cmd, shell=True, text=True, stdout=subprocess.PIPE, stderr=subprocess.STDOUT, **kw)


def apply(m, repo):
    if "patch" in m:
        r = sh("git -C %s apply %s" % (repo, m["patch"]))
        return r.returncode == 0, r.stdout
    p = os.path.join(repo, m["file"])
    s = open(p).read()
    n = s.count(m["old"])
    if n != m.get("count", 1):
        return False, "pattern occurs %d times in %s" % (n, m["file"])
    s = s.replace(m["old"], m["new"])
    open(p, "w").write(s)
    return True, ""


class Worker:
    def __init__(self, i):
        self.dir = os.path.join(SCRATCH, "w%d" % i)
        self.repo = os.path.join(self.dir, "repo")
        self.work = os.path.join(self.dir, "work")
        self.evid = os.path.join(self.dir, "evidence")
        shutil.rmtree(self.dir, ignore_errors=True)
        os.makedirs(self.dir)
        r = sh("git clone -q %s %s" % (REPO, self.repo))
        assert r.returncode == 0, r.stdout
        os.makedirs(self.work)
        # warm cargo target directories (third-party dependencies already compiled)
        for d in ("target", "witness-target"):
            src = os.path.join(VERIF, ".work", d)
            if os.path.isdir(src):
                sh("cp -a --reflink=auto %s %s" % (src, os.path.join(self.work, d)))
        self.env = dict(os.environ, VERIF_REPO=self.repo, VERIF_WORK=self.work, VERIF_EVIDENCE=self.evid)

    def check(self, pid, tier="quick"):
        return sh("./check %s --tier %s" % (pid, tier), cwd=VERIF, env=self.env)

    def run(self, m):
        t = time.time()
        ok, msg = apply(m, self.repo)
        if not ok:
            sh("git -C %s checkout -- ." % self.repo)
            return (m["id"], "APPLY-FAILED", msg, time.time() - t, [])
        try:
            outs = []
            fired = []
            caught = named = False
            for pid in m["props"]:
                r = self.check(pid, m.get("tier", "quick"))
                outs.append(r.stdout)
                fired += re.findall(r"^\s*rule (.+?): ", r.stdout, re.M)
                if r.returncode == 1 and "VIOLATION property=%s" % pid in r.stdout:
                    caught = True
                    if any(e in r.stdout for e in m["expect"]):
                        named = True
                if "does not compile" in r.stdout or "failed on /repo" in r.stdout:
                    caught = named = False
                    outs.append("MUTANT DOES NOT COMPILE")
            status = "CAUGHT" if (caught and named) else ("CAUGHT-OTHER-RULE" if caught else "MISSED")
            if m.get("expected_outcome") == "MISSED" and status == "MISSED":
                status = "MISSED-AS-DOCUMENTED"
            detail = "" if status in ("CAUGHT", "MISSED-AS-DOCUMENTED") else "\n".join(outs)[-1500:]
            return (m["id"], status, detail, time.time() - t, sorted(set(fired)))
        finally:
            sh("git -C %s checkout -- ." % self.repo)


def main():
    args = sys.argv[1:]
    jobs = 8
    if args and args[0] == "-j":
        jobs = int(args[1])
        args = args[2:]
    sel = args
    todo = [m for m in MUTANTS if not sel or any(s in m["id"] for s in sel)]
    jobs = max(1, min(jobs, len(todo)))
    q = queue.Queue()
    for i, m in enumerate(todo):
        q.put((i, m))
    results = [None] * len(todo)
    workers = [Worker(i) for i in range(jobs)]
    lock = threading.Lock()

    def loop(w):
        while True:
            try:
                i, m = q.get_nowait()
            except queue.Empty:
                return
            r = w.run(m)
            results[i] = r
            with lock:
                print("%-60s %-20s %.1fs" % (r[0], r[1], r[3]), flush=True)
                if r[2]:
                    print("    " + r[2].replace("\n", "\n    "), flush=True)

    ths = [threading.Thread(target=loop, args=(w,)) for w in workers]
    for t in ths:
        t.start()
    for t in ths:
        t.join()
    fired = {r[0]: r[4] for r in results}
    results = [r[:3] for r in results]
    # pristine tree must be silent (checked in a clone of HEAD, same machinery)
    props = sorted({p for m in todo for p in m["props"]})
    pq = queue.Queue()
    for p in props:
        pq.put(p)
    pres = {}

    def ploop(w):
        while True:
            try:
                pid = pq.get_nowait()
            except queue.Empty:
                return
            r = w.check(pid)
            st = "SILENT" if r.returncode == 0 and "VIOLATION" not in r.stdout else "ALARM-ON-PRISTINE"
            pres[pid] = (st, "" if st == "SILENT" else r.stdout[-1500:])
    ths = [threading.Thread(target=ploop, args=(w,)) for w in workers[:4]]
    for t in ths:
        t.start()
    for t in ths:
        t.join()
    for pid in props:
        st, d = pres[pid]
        results.append(("pristine:%s" % pid, st, d))
        print("%-60s %s" % ("pristine:%s" % pid, st), flush=True)
        if d:
            print("    " + d.replace("\n", "\n    "))
    shutil.rmtree(SCRATCH, ignore_errors=True)
    if not sel:
        keep = ""
        try:
            old_text = open(os.path.join(HERE, "RESULTS.md")).read()
            mk = "\n## Behaviour-preserving edits"
            if mk in old_text:
                keep = old_text[old_text.index(mk):]
        except OSError:
            pass
        with open(os.path.join(HERE, "RESULTS.md"), "w") as fh:
            fh.write("# Self-test results (selftest/run.py)\n\n| mutant | checks run | outcome | obligations that fired |\n|---|---|---|---|\n")
            by = {m["id"]: m for m in todo}
            for i, st, _ in results:
                fh.write("| %s | %s | %s | %s |\n" % (i, " ".join(by[i]["props"]) if i in by else "", st,
                                                 " ".join("`%s`" % k for k in fired.get(i, [])[:6])))
            fh.write(keep)
    bad = [r for r in results if r[1] not in ("CAUGHT", "SILENT", "MISSED-AS-DOCUMENTED")]
    print("%d mutants, %d not caught / alarms" % (len(todo), len(bad)))
    return 1 if bad else 0


if __name__ == "__main__":
    sys.exit(main())
