#!/usr/bin/env python3
"""Run selftest/benign.py: behaviour-preserving edits applied to scratch clones; every listed check must stay silent.
Appends a section to selftest/RESULTS.md when run without a filter.  usage: run_benign.py [-j N] [id-substring ...]"""
import os, sys, threading, queue, shutil, re
HERE = os.path.dirname(os.path.abspath(__file__))
sys.path.insert(0, HERE)
args = sys.argv[1:]
sys.argv = sys.argv[:1]
import run, benign
jobs = 8
if args and args[0] == "-j":
    jobs = int(args[1]); args = args[2:]
LIMITS = {m[0] for m in getattr(benign, "LIMITS", [])}
items = [("multi", m) for m in benign.MULTI] + [("rename", r) for r in benign.RENAMES] + [("multi", m) for m in getattr(benign, "LIMITS", [])]
if args:
    items = [it for it in items if any(a in it[1][0] for a in args)]
run.SCRATCH = "/tmp/wtpriv/benign-%d" % os.getpid()
q = queue.Queue()
for it in items:
    q.put(it)
out = {}
def loop(i):
    w = run.Worker(i)
    while True:
        try:
            kind, it = q.get_nowait()
        except queue.Empty:
            return
        pid, props, file = it[0], it[1], it[2]
        path = os.path.join(w.repo, file)
        s = open(path).read()
        ok = True
        if kind == "multi":
            for old, new in it[3]:
                if old.startswith("@first:"):
                    old = old[len("@first:"):]
                    if s.count(old) < 1:
                        out[pid] = ("APPLY-FAILED", "pattern %r not found" % old[:50]); ok = False; break
                    s = s.replace(old, new, 1)
                    continue
                if s.count(old) != 1:
                    out[pid] = ("APPLY-FAILED", "pattern %r occurs %d times" % (old[:50], s.count(old))); ok = False; break
                s = s.replace(old, new)
        else:
            word, repl, lo, hi = it[3], it[4], it[5], it[6]
            lines = s.split("\n"); n = 0
            for k in range(lo - 1, min(hi, len(lines))):
                lines[k], c = re.subn(word, repl, lines[k]); n += c
            if n == 0:
                out[pid] = ("APPLY-FAILED", "nothing renamed"); ok = False
            s = "\n".join(lines)
        if not ok:
            continue
        open(path, "w").write(s)
        res = []
        for pr in props:
            r = w.check(pr)
            res.append((pr, r.returncode, [l for l in r.stdout.splitlines() if l.startswith(("VIOLATION", "  rule", "  |")) or "does not compile" in l or l.startswith("error")][:5]))
        run.sh("git -C %s checkout -- ." % w.repo)
        if any("does not compile" in " ".join(x[2]) for x in res):
            out[pid] = ("DOES-NOT-COMPILE", res)
        else:
            out[pid] = ("ALARM" if any(rc != 0 for _, rc, _ in res) else "SILENT", res)
ths = [threading.Thread(target=loop, args=(i,)) for i in range(max(1, min(jobs, len(items))))]
[t.start() for t in ths]
[t.join() for t in ths]
bad = 0
lines = []
for kind, it in items:
    st, d = out[it[0]]
    if it[0] in LIMITS:
        st = {"ALARM": "ALARM-AS-DOCUMENTED", "SILENT": "SILENT (documented limit no longer applies)"}.get(st, st)
    print("%-40s %s" % (it[0], st))
    lines.append("| %s | %s | %s |" % (it[0], " ".join(it[1]), st))
    if st.startswith("ALARM-AS-DOCUMENTED"):
        print("     detail:", [l for _, _, ls in d for l in ls][:4])
        print("     rules:", sorted({l.split(":", 1)[0].replace("  rule ", "") + ":" + l.split(":", 2)[1] for _, _, ls in d for l in ls if l.startswith("  rule ")}))
    if st != "SILENT" and not st.startswith(("ALARM-AS-DOCUMENTED", "SILENT (")):
        bad += 1
        print("    ", d)
shutil.rmtree(run.SCRATCH, ignore_errors=True)
if not args:
    p = os.path.join(HERE, "RESULTS.md")
    s = open(p).read() if os.path.exists(p) else ""
    marker = "\n## Behaviour-preserving edits (selftest/run_benign.py): every check must stay silent\n"
    if marker in s:
        s = s[:s.index(marker)]
    s += marker + "\n| edit | checks run | outcome |\n|---|---|---|\n" + "\n".join(lines) + "\n"
    open(p, "w").write(s)
print("%d benign edits, %d alarms/failures" % (len(items), bad))
sys.exit(1 if bad else 0)
