#!/usr/bin/env python3
"""Operator-mutation sweep (development aid, not registered in MANIFEST.json: it needs scratch clones).

For every selected source file of /repo it generates single-line mutants of the non-test code (deleted expression
statement, comparison operator off by one / inverted, && <-> ||, negated `if`, flipped boolean literal, + <-> -,
`?` replaced by `.ok()`, min <-> max, first <-> last), applies each to a scratch clone, runs the checks of every
property whose anchors name the file, and - only for mutants that compile and leave every check silent - runs the
repository's own test suite to see whether the tests kill it.  What is left ("SILENT, tests pass") is the list to
triage by reading: equivalent / cosmetic / outside the statements, or a blind spot that needs a rule.

usage: sweep.py [-j N] [--ops DEL,CMP,...] [--props C06,C07] [--limit N] [--out FILE] <repo-relative file> ...
"""
import json
import os
import queue
import re
import shutil
import subprocess
import sys
import threading
import time

HERE = os.path.dirname(os.path.abspath(__file__))
VERIF = os.path.dirname(HERE)
sys.path.insert(0, HERE)
sys.argv, ARGV = sys.argv[:1], sys.argv[1:]
import run  # noqa

ALL_OPS = ["DEL", "CMP", "LOGIC", "NEG", "BOOL", "ARITH", "ERR", "MINMAX", "NONE"]
SEED_TARGET = "/tmp/wt/seed/target"


def file_props():
    fp = {}
    for l in open(os.path.join(VERIF, "properties.jsonl")):
        p = json.loads(l)
        for f in p["anchors"].get("files", []):
            fp.setdefault(f, []).append(p["id"])
    return fp


def code_lines(src):
    """indices of lines outside `#[cfg(test)] mod ..` blocks, comments and attribute lines"""
    lines = src.split("\n")
    out = []
    skip_depth = None
    depth = 0
    pending_test = False
    in_block = False
    for i, l in enumerate(lines):
        s = l.strip()
        if in_block:
            if "*/" in l:
                in_block = False
            continue
        if s.startswith("/*") and "*/" not in s:
            in_block = True
            continue
        if s.startswith("#[cfg(test)]"):
            pending_test = True
        opens = l.count("{")
        closes = l.count("}")
        if pending_test and skip_depth is None and re.match(r"\s*(pub\s+)?mod\s+\w+\s*\{", l):
            skip_depth = depth
            pending_test = False
        elif pending_test and s and not s.startswith("#"):
            pending_test = False if not re.match(r"\s*(pub\s+)?mod\s", l) else pending_test
        depth += opens - closes
        if skip_depth is not None:
            if depth <= skip_depth:
                skip_depth = None
            continue
        if not s or s.startswith("//") or s.startswith("#") or s.startswith("*") or s.startswith("/*"):
            continue
        out.append(i)
    return lines, out


def balanced(s):
    return all(s.count(a) == s.count(b) for a, b in ("()", "[]", "{}"))


def strip_strings(l):
    return re.sub(r'"(\\.|[^"\\])*"', lambda m: '"' + "_" * (len(m.group(0)) - 2) + '"', l)


def mutants_of(path, src, ops):
    lines, idx = code_lines(src)
    out = []

    def add(i, op, new, k=0):
        if new != lines[i]:
            out.append(dict(line=i, op=op, k=k, old=lines[i], new=new))

    for i in idx:
        l = lines[i]
        c = strip_strings(l)
        code = c.split("//")[0]
        s = code.strip()
        prev = lines[i - 1].strip() if i else ""
        if "DEL" in ops and s.endswith(";") and balanced(s) and not re.match(
                r"(let |use |pub |const |type |static |fn |mod |extern |return|break|continue|\}|\)|\.|impl |struct |enum |trait )", s) \
                and (prev.endswith((";", "{", "}")) or prev.startswith("//") or not prev):
            add(i, "DEL", re.match(r"\s*", l).group(0) + "();" if False else "")
        if re.search(r"\b(fn|impl|where|struct|enum|trait|type)\b", code) or "->" in code and "=>" not in code:
            generic_line = True
        else:
            generic_line = False
        if "CMP" in ops and not generic_line:
            for k, m in enumerate(re.finditer(r" (<=|>=|==|!=|<|>) ", code)):
                o = m.group(1)
                for rep in {"<": ["<=", ">="], "<=": ["<", ">"], ">": [">=", "<="], ">=": [">", "<"], "==": ["!="], "!=": ["=="]}[o]:
                    add(i, "CMP:%s>%s" % (o, rep), l[:m.start(1)] + rep + l[m.end(1):], k)
        if "LOGIC" in ops:
            for k, m in enumerate(re.finditer(r" (&&|\|\|) ", code)):
                rep = "||" if m.group(1) == "&&" else "&&"
                add(i, "LOGIC:%s" % rep, l[:m.start(1)] + rep + l[m.end(1):], k)
        if "NEG" in ops:
            m = re.match(r"(\s*(?:\}\s*else\s+)?if )(?!let )(.+?)( \{\s*)$", code)
            if m and " let " not in m.group(2) and balanced(m.group(2)):
                add(i, "NEG", m.group(1) + "!(" + l[m.start(2):m.end(2)] + ")" + m.group(3))
            m = re.match(r"(\s*while )(?!let )(.+?)( \{\s*)$", code)
            if m and balanced(m.group(2)):
                add(i, "NEG", m.group(1) + "!(" + l[m.start(2):m.end(2)] + ")" + m.group(3))
        if "BOOL" in ops:
            for k, m in enumerate(re.finditer(r"\b(true|false)\b", code)):
                rep = "false" if m.group(1) == "true" else "true"
                add(i, "BOOL:%s" % rep, l[:m.start(1)] + rep + l[m.end(1):], k)
        if "ARITH" in ops and not generic_line:
            for k, m in enumerate(re.finditer(r" (\+|-|\+=|-=|\*|/|%) ", code)):
                o = m.group(1)
                rep = {"+": "-", "-": "+", "+=": "-=", "-=": "+=", "*": "/", "/": "*", "%": "/"}[o]
                add(i, "ARITH:%s>%s" % (o, rep), l[:m.start(1)] + rep + l[m.end(1):], k)
            for k, m in enumerate(re.finditer(r"([+\-] )1\b(?!\.)", code)):
                add(i, "ARITH:1>2", l[:m.end(1)] + "2" + l[m.end(1) + 1:], k)
            for k, m in enumerate(re.finditer(r"\b(saturating|wrapping|checked)_(add|sub)\(", code)):
                rep = "sub" if m.group(2) == "add" else "add"
                add(i, "ARITH:%s>%s" % (m.group(2), rep), l[:m.start(2)] + rep + l[m.end(2):], k)
        if "ERR" in ops:
            m = re.search(r"\)\?;\s*$", code)
            if m and balanced(s):
                add(i, "ERR:?>ok", l[:m.start()] + ").ok();")
        if "MINMAX" in ops:
            for k, m in enumerate(re.finditer(r"\.(min|max|first|last|front|back|pop_front|pop_back|push_front|push_back|any|all|is_some|is_none|is_ok|is_err|or|and|take|skip|le|ge|lt|gt|iter|into_iter)\(", code)):
                o = m.group(1)
                rep = {"min": "max", "max": "min", "first": "last", "last": "first", "front": "back", "back": "front",
                       "pop_front": "pop_back", "pop_back": "pop_front", "push_front": "push_back", "push_back": "push_front",
                       "any": "all", "all": "any", "is_some": "is_none", "is_none": "is_some", "is_ok": "is_err", "is_err": "is_ok",
                       "or": None, "and": None, "take": "skip", "skip": "take", "le": "lt", "ge": "gt", "lt": "le", "gt": "ge",
                       "iter": None, "into_iter": None}[o]
                if rep:
                    add(i, "MINMAX:%s>%s" % (o, rep), l[:m.start(1)] + rep + l[m.end(1):], k)
        if "NONE" in ops:
            # `Some(x)` returned / stored -> None ; `Ok(x)`-> unchanged (type errors mostly)
            m = re.match(r"(\s*)(return )?Some\((.+)\)(;?)\s*$", code)
            if m and balanced(m.group(3)):
                add(i, "NONE", m.group(1) + (m.group(2) or "") + "None" + m.group(4))
    return out


class Sweeper(run.Worker):
    def test_suite(self):
        tgt = os.path.join(self.dir, "test-target")
        if not os.path.isdir(tgt) and os.path.isdir(SEED_TARGET):
            run.sh("cp -a --reflink=auto %s %s" % (SEED_TARGET, tgt))
        env = dict(os.environ, CARGO_TARGET_DIR=tgt, CARGO_NET_OFFLINE="true")
        try:
            p = subprocess.run("cargo test --workspace --no-fail-fast --offline -j 4 2>&1 | grep -E '^test result|FAILED|^error|panicked' | head -40",
                               shell=True, cwd=self.repo, env=env, text=True, stdout=subprocess.PIPE, stderr=subprocess.STDOUT, timeout=1500)
        except subprocess.TimeoutExpired:
            return "TIMEOUT(killed by tests)", ""
        o = p.stdout
        if "FAILED" in o or "error" in o or "test result: ok" not in o:
            return "KILLED-BY-TESTS", o[-300:]
        return "TESTS-PASS", ""

    def run_mut(self, path, m, props, tier, with_tests):
        t = time.time()
        fp = os.path.join(self.repo, path)
        src = open(fp).read()
        lines = src.split("\n")
        assert lines[m["line"]] == m["old"]
        lines[m["line"]] = m["new"]
        open(fp, "w").write("\n".join(lines))
        try:
            fired = []
            status = "SILENT"
            for pid in props:
                r = self.check(pid, tier)
                if "does not compile" in r.stdout or "failed on /repo" in r.stdout or "extraction failed" in r.stdout:
                    status = "NOCOMPILE"
                    break
                if r.returncode == 1 and "VIOLATION property=%s" % pid in r.stdout:
                    status = "CAUGHT"
                    fired += re.findall(r"^\s*rule (.+?): ", r.stdout, re.M)
                    break
                if r.returncode != 0:
                    status = "CHECK-ERROR"
                    fired.append(r.stdout[-300:])
                    break
            detail = ""
            if status == "SILENT" and with_tests:
                ts, detail = self.test_suite()
                status = "SILENT," + ts
            return status, sorted(set(fired)), time.time() - t, detail
        finally:
            run.sh("git -C %s checkout -- ." % self.repo)


def main():
    args = ARGV
    jobs, ops, props_override, limit, outp, tier, with_tests = 6, ALL_OPS, None, None, None, "quick", True
    files = []
    while args:
        a = args.pop(0)
        if a == "-j":
            jobs = int(args.pop(0))
        elif a == "--ops":
            ops = args.pop(0).split(",")
        elif a == "--props":
            props_override = args.pop(0).split(",")
        elif a == "--limit":
            limit = int(args.pop(0))
        elif a == "--out":
            outp = args.pop(0)
        elif a == "--tier":
            tier = args.pop(0)
        elif a == "--no-tests":
            with_tests = False
        else:
            files.append(a)
    fp = file_props()
    todo = []
    for f in files:
        src = open(os.path.join(run.REPO, f)).read()
        props = props_override or fp.get(f) or []
        if f.startswith("macros/") and not props_override:
            props = sorted(set(props) | {"C02", "C04", "C05", "C16", "C19"})
        if not props:
            print("no property anchors", f)
            continue
        ms = mutants_of(f, src, ops)
        if limit:
            ms = ms[:limit]
        for m in ms:
            todo.append((f, m, props))
    print("%d mutants over %d files" % (len(todo), len(files)), flush=True)
    run.SCRATCH = "/tmp/wtpriv/sweep-%d" % os.getpid()
    q = queue.Queue()
    for t in todo:
        q.put(t)
    lock = threading.Lock()
    outf = open(outp, "a") if outp else None
    counts = {}

    def loop(i):
        w = Sweeper(i)
        while True:
            try:
                f, m, props = q.get_nowait()
            except queue.Empty:
                return
            try:
                st, fired, dt, detail = w.run_mut(f, m, props, tier, with_tests)
            except Exception as e:  # noqa
                st, fired, dt, detail = "ERROR", [repr(e)], 0, ""
            rec = dict(file=f, line=m["line"] + 1, op=m["op"], k=m["k"], old=m["old"].strip(), new=m["new"].strip(), status=st,
                       fired=fired[:4], secs=round(dt, 1), props=props)
            with lock:
                counts[st] = counts.get(st, 0) + 1
                print("%-28s %s:%d %-14s %s" % (st, f, m["line"] + 1, m["op"], m["old"].strip()[:70]), flush=True)
                if outf:
                    outf.write(json.dumps(rec) + "\n")
                    outf.flush()

    ths = [threading.Thread(target=loop, args=(i,)) for i in range(min(jobs, max(1, len(todo))))]
    [t.start() for t in ths]
    [t.join() for t in ths]
    print(counts)
    shutil.rmtree(run.SCRATCH, ignore_errors=True)


if __name__ == "__main__":
    main()
