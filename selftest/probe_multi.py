#!/usr/bin/env python3
"""Like probe.py but each probe is a list of (old, new) replacements in one file (behaviour-preserving refactors)."""
import os, sys, threading, queue, shutil
HERE = os.path.dirname(os.path.abspath(__file__))
sys.path.insert(0, HERE)
pf = sys.argv[1]
sys.argv = sys.argv[:1]
import run
ns = {}
exec(open(pf).read(), ns)
MULTI = ns["MULTI"]
run.SCRATCH = "/tmp/wtpriv/probem-%d" % os.getpid()
q = queue.Queue()
for p in MULTI:
    q.put(p)
out = {}
def loop(i):
    w = run.Worker(i)
    while True:
        try:
            pid, props, file, pairs = q.get_nowait()
        except queue.Empty:
            return
        path = os.path.join(w.repo, file)
        s = open(path).read()
        ok = True
        for old, new in pairs:
            if s.count(old) != 1:
                ok = False
                out[pid] = ("APPLY-FAILED", "pattern %r occurs %d times" % (old[:40], s.count(old)))
                break
            s = s.replace(old, new)
        if not ok:
            continue
        open(path, "w").write(s)
        res = []
        for pr in props:
            r = w.check(pr)
            res.append((pr, r.returncode, [l for l in r.stdout.splitlines() if l.startswith(("VIOLATION", "  rule", "  |")) or "does not compile" in l or "error" in l][:6]))
        run.sh("git -C %s checkout -- ." % w.repo)
        out[pid] = ("ALARM" if any(rc != 0 for _, rc, _ in res) else "SILENT", res)
ths = [threading.Thread(target=loop, args=(i,)) for i in range(min(6, len(MULTI)))]
[t.start() for t in ths]
[t.join() for t in ths]
for p in MULTI:
    st, d = out[p[0]]
    print("%-45s %s" % (p[0], st))
    if st != "SILENT":
        print("    ", d)
shutil.rmtree(run.SCRATCH, ignore_errors=True)
