"""Behaviour-preserving edits of /repo: every listed check must stay SILENT on them (and the tree must still compile).
Two forms: MULTI = (id, checks, file, [(old, new), ...]) exact replacements; RENAMES = (id, checks, file, regex, replacement,
first line, last line) identifier renames inside a line range.  Run with selftest/run_benign.py."""

MULTI = [
 ("B.C11.rename_period_local", ["C11", "C10"], "emitter/file/src/lib.rs", [
    ("        let file_ts = file_ts(self.roll_by, parts);", "        let period = file_ts(self.roll_by, parts);"),
    ("                && file.file_ts == file_ts", "                && file.file_ts == period"),
    ("                &file_ts,\n", "                &period,\n")]),
 ("B.C08.rename_wait_on_batch_params", ["C06", "C07", "C08", "C10", "C12"], "batcher/src/lib.rs", [
    ("        mut wait: impl FnMut(Duration) -> FWait,\n        mut on_batch: impl FnMut(T) -> FBatch,", "        mut sleep_for: impl FnMut(Duration) -> FWait,\n        mut process: impl FnMut(T) -> FBatch,"),
    ("                                            wait(self.retry_delay.next()).await;", "                                            sleep_for(self.retry_delay.next()).await;"),
    ("                wait(self.idle_delay.next()).await;", "                sleep_for(self.idle_delay.next()).await;"),
    ("AssertUnwindSafe(|| on_batch(current_batch.channel))", "AssertUnwindSafe(|| process(current_batch.channel))")]),
 ("B.C09.rename_wait_until_empty", ["C09", "C08"], "batcher/src/lib.rs", [
    ("        mut wait_until_empty: impl FnMut(&'a Self, Duration) -> FWait,", "        mut wait_for_room: impl FnMut(&'a Self, Duration) -> FWait,"),
    ("                    wait_until_empty(self, timeout.saturating_sub(elapsed)).await;", "                    wait_for_room(self, timeout.saturating_sub(elapsed)).await;")]),
 ("B.try_send_match", ["C09", "C06", "C08"], "batcher/src/lib.rs", [
   ("""        if state.next_batch.channel.len() < self.max_capacity {
            state.next_batch.channel.push(msg);

            Ok(())
        } else {
            Err(BatchError::retry(TrySendError("the channel is full"), msg))
        }""",
    """        match state.next_batch.channel.len() < self.max_capacity {
            true => {
                state.next_batch.channel.push(msg);

                Ok(())
            }
            false => Err(BatchError::retry(TrySendError("the channel is full"), msg)),
        }""")]),
 ("B.exec_reorder_resets", ["C08", "C06", "C10"], "batcher/src/lib.rs", [
   ("""                self.retry.reset();
                self.retry_delay.reset();
                self.idle_delay.reset();""",
    """                self.idle_delay.reset();
                self.retry_delay.reset();
                self.retry.reset();""")]),
 ("B.send_guard_clause_first", ["C09", "C06", "C07"], "batcher/src/lib.rs", [
   ("""        if !state.is_open {
            return;
        }

        state.next_batch.channel.push(msg);""",
    """        if state.is_open {
            state.next_batch.channel.push(msg);
        }""")]),
 ("B.emit_pipeline_let", ["C01"], "core/src/lib.rs", [
   ("""        if filter.matches(&evt) {
            emitter.emit(evt);
        }""",
    """        let accepted = filter.matches(&evt);
        if accepted {
            emitter.emit(evt);
        }""")]),
 ("B.when_flushed_nested_if", ["C07", "C06"], "batcher/src/lib.rs", [
   ("        if !state.is_in_batch && (state.next_batch.channel.is_empty() || !state.is_open) {",
    "        let idle = !state.is_in_batch;\n        let nothing_pending = state.next_batch.channel.is_empty() || !state.is_open;\n        if idle && nothing_pending {")]),
 ("B.file_keep_condition_split", ["C11"], "emitter/file/src/lib.rs", [
   ("""        file = file.filter(|file| {
            file.file_size_bytes + batch.remaining_bytes <= self.max_file_size_bytes
                && file.file_ts == file_ts
        });""",
    """        file = file.filter(|file| {
            let fits = file.file_size_bytes + batch.remaining_bytes <= self.max_file_size_bytes;
            let same_period = file.file_ts == file_ts;
            fits && same_period
        });""")]),
 ("B.spanguard_complete_match", ["C05", "C04", "C18"], "src/span.rs", [
   ("""        if let (SpanGuardState::Started(timer), Some(data), Some(_)) =
            (self.state.take(), self.data.take(), self.completion.take())
        {
            completion.complete(Span::new(data.mdl, data.name, timer, data.props));

            true
        } else {
            false
        }""",
    """        match (self.state.take(), self.data.take(), self.completion.take()) {
            (SpanGuardState::Started(timer), Some(data), Some(_)) => {
                completion.complete(Span::new(data.mdl, data.name, timer, data.props));

                true
            }
            _ => false,
        }""")]),
 ("B.frame_call_named_guard", ["C03", "C04", "C18"], "src/frame.rs", [
   ("        let __guard = self.enter();\n        scope()", "        let entered = self.enter();\n        let r = scope();\n        drop(entered);\n        r")]),
 ("B.otlp_discard_counter_local", ["C14", "C09"], "emitter/otlp/src/client.rs", [
   ("        self.metrics.event_discarded.increment();", "        let discarded = &self.metrics.event_discarded;\n        discarded.increment();")]),
 ("B.tl_open_root_with_capacity", ["C03", "C19"], "src/platform/thread_local_ctxt.rs", [
   ("        let mut span = HashMap::new();\n\n        let _ = props.for_each(|k, v| {\n            span.insert(k.to_shared(), ThreadLocalValue::from_value(v));",
    "        let mut span = HashMap::with_capacity(4);\n\n        let _ = props.for_each(|k, v| {\n            let value = ThreadLocalValue::from_value(v);\n            span.insert(k.to_shared(), value);")]),
 ("B.slot_init_let", ["C20"], "core/src/runtime.rs", [
   ("            self.0\n                .set({", "            let cell = &self.0;\n            cell\n                .set({")]),
 # ---- round 4: equivalent spellings of the constructs the round-4 rules read --------------------------------------------
 ("B.from_iter_for_each", ["C17"], "src/level.rs", [
   ("""            for (path, min_level) in iter {
                map.min_level(path, min_level);
            }
""", """            iter.into_iter().for_each(|(path, min_level)| {
                map.min_level(path, min_level);
            });
""")]),
 ("B.from_iter_named_iterator", ["C17"], "src/level.rs", [
   ("""            for (path, min_level) in iter {
                map.min_level(path, min_level);
            }
""", """            let mut pairs = iter.into_iter();
            while let Some((path, min_level)) = pairs.next() {
                map.min_level(path, min_level);
            }
""")]),
 ("B.render_write_iter", ["C16"], "core/src/template.rs", [
   ("""        for part in self.tpl.0.parts() {
            part.write(&mut writer, &self.props)?;
        }

        Ok(())""", """        let parts = self.tpl.0.parts();
        let w = &mut writer;
        for part in parts.iter() {
            if let Err(e) = part.write(&mut *w, &self.props) {
                return Err(e);
            }
        }

        Ok(())""")]),
 ("B.new_str_guard_clause", ["C15", "C17"], "core/src/path.rs", [
   ("""        if is_valid_path(path.get()) {
            Ok(Path(path))
        } else {""", """        let text_ok = is_valid_path(path.get());
        if text_ok == true {
            Ok(Path(path))
        } else {""")]),
 ("B.id_buffer_is_err", ["C15", "C04"], "src/span.rs", [
   ("""        write!(self, "{}", value).map_err(|_| ParseIdError {})?;""",
    """        if write!(self, "{}", value).is_err() {
            return Err(ParseIdError {});
        }""")]),
 ("B.leap_shortcut_strict_bound", ["C15"], "core/src/timestamp.rs", [
   ("        if year as u64 <= 138 {", "        if 139 > year as u64 {")]),
 ("B.sum_points_match", ["C13", "C14"], "emitter/otlp/src/data/metrics.rs", [
   ("""            NumberDataPointValue::AsInt(AsInt(current)) => current
                .checked_add(value)
                .map(|value| NumberDataPointValue::AsInt(AsInt(value)))
                .unwrap_or(NumberDataPointValue::AsDouble(AsDouble(
                    current as f64 + value as f64,
                ))),""",
    """            NumberDataPointValue::AsInt(AsInt(current)) => match current.checked_add(value) {
                Some(total) => NumberDataPointValue::AsInt(AsInt(total)),
                None => NumberDataPointValue::AsDouble(AsDouble(current as f64 + value as f64)),
            },""")]),
 ("B.file_record_break_carries_error", ["C13", "C10"], "emitter/file/src/lib.rs", [
   ("""            let mut r = Ok(());

            let _ = self.0.props().dedup().for_each(|k, v| {""", """            let flow = self.0.props().dedup().for_each(|k, v| {"""),
   ("""                    Err(e) => {
                        r = Err(e);
                        ControlFlow::Break(())
                    }
                }
            });

            // A property that failed to stream leaves the record incomplete
            r?;
""", """                    Err(_) => ControlFlow::Break(()),
                }
            });

            if flow.is_break() {
                return sval::error();
            }
""")]),
 ("B.capture_args_let", ["C19"], "macros/src/capture.rs", [
   ("""        Ok(Args {
            inspect: inspect.take_or_default(),
        })""", """        let inspect = inspect.take_or_default();

        Ok(Args { inspect })""")]),
 ("B.visit_text_alias", ["C16"], "macros/src/template.rs", [
   ("""        self.literal.push_str(text);

        parts.push(quote!(emit::template::Part::text(#text)));""", """        let fragment = text;
        self.literal.push_str(fragment);

        parts.push(quote!(emit::template::Part::text(#fragment)));""")]),
 ("B.runtime_flush_let", ["C20", "C01", "C07"], "core/src/runtime.rs", [
   ("""    fn blocking_flush(&self, timeout: core::time::Duration) -> bool {
        self.emitter.blocking_flush(timeout)
    }""", """    fn blocking_flush(&self, timeout: core::time::Duration) -> bool {
        let flushed = self.emitter.blocking_flush(timeout);
        flushed
    }""")]),
 # ---- OTLP routing, traceparent sampling, term: equivalent spellings --------------------------------------------------
 ("B.otlp_emit_match_arms", ["C14", "C12", "C09"], "emitter/otlp/src/client.rs", [
   ("""        if let Some((ref encoder, ref sender)) = self.otlp_traces {
            if let Some(event) = encoder.encode_event(&evt) {
                return sender.send(ChannelItem {
                    max_request_size_bytes: DEFAULT_MAX_REQUEST_SIZE_BYTES,
                    event,
                });
            }
        }
""", """        if let Some((ref encoder, ref sender)) = self.otlp_traces {
            match encoder.encode_event(&evt) {
                Some(event) => {
                    let item = ChannelItem {
                        max_request_size_bytes: DEFAULT_MAX_REQUEST_SIZE_BYTES,
                        event,
                    };
                    sender.send(item);
                    return;
                }
                None => {}
            }
        }
""")]),
 ("B.otlp_flush_elapsed_local", ["C07", "C12", "C08"], "emitter/otlp/src/client.rs", [
   ("""        if let Some((_, ref sender)) = self.otlp_traces {
            if !emit_batcher::blocking_flush(sender, timeout.saturating_sub(start.elapsed())) {
                return false;
            }
        }
""", """        if let Some((_, ref sender)) = self.otlp_traces {
            let remaining = timeout.saturating_sub(start.elapsed());
            let flushed = emit_batcher::blocking_flush(sender, remaining);
            if !flushed {
                return false;
            }
        }
""")]),
 ("B.tp_sampler_nested_if", ["C18"], "traceparent/src/lib.rs", [
   ("""            if trace_flags.is_sampled() && sampler(&SpanCtxt::new(trace_id, None, Some(span_id))) {
                // Sampled
                trace_flags & TraceFlags::SAMPLED
            } else {
                // Unsampled
                trace_flags & TraceFlags::EMPTY
            }""", """            let may_sample = trace_flags.is_sampled();
            if may_sample {
                let candidate = SpanCtxt::new(trace_id, None, Some(span_id));
                if sampler(&candidate) {
                    trace_flags & TraceFlags::SAMPLED
                } else {
                    trace_flags & TraceFlags::EMPTY
                }
            } else {
                trace_flags & TraceFlags::EMPTY
            }""")]),
 ("B.tp_is_sampled_ne_zero", ["C18"], "traceparent/src/lib.rs", [
   ("        self.0 & Self::SAMPLED.0 == 1", "        (self.0 & Self::SAMPLED.0) != 0")]),
 ("B.tp_exclude_props_if_chain", ["C18", "C02"], "traceparent/src/lib.rs", [
   ("""        if !self.check {
            return self.inner.for_each(for_each);
        }

        self.inner.for_each(|key, value| match key.get() {""", """        if self.check == false {
            return self.inner.for_each(for_each);
        }

        self.inner.for_each(|key, value| match key.get() {""")]),
 # ---- core combinators and setup: equivalent spellings ------------------------------------------------------------------
 ("B.and_props_for_each_match", ["C02", "C01"], "core/src/props.rs", [
   ("""        self.left().for_each(&mut for_each)?;
        self.right().for_each(for_each)""", """        match self.left().for_each(&mut for_each) {
            ControlFlow::Continue(()) => self.right().for_each(for_each),
            ControlFlow::Break(()) => ControlFlow::Break(()),
        }""")]),
 ("B.and_props_get_match", ["C02"], "core/src/props.rs", [
   ("""        self.left().get(key).or_else(|| self.right().get(key))""", """        match self.left().get(key) {
            Some(value) => Some(value),
            None => self.right().get(key),
        }""")]),
 ("B.and_emitter_flush_inline", ["C01", "C07"], "core/src/emitter.rs", [
   ("""        let lhs = self.left().blocking_flush(timeout);
        let rhs = self.right().blocking_flush(timeout);

        lhs && rhs""", """        let left_flushed = self.left().blocking_flush(timeout);
        let right_flushed = self.right().blocking_flush(timeout);

        if !left_flushed {
            return false;
        }

        right_flushed""")]),
 ("B.try_init_slot_named_runtime", ["C20"], "src/setup.rs", [
   ("""@first:        let ambient = slot.init(
            Runtime::new()
                .with_emitter(self.emitter)
                .with_filter(self.filter)
                .with_ctxt(self.ctxt)
                .with_clock(self.clock)
                .with_rng(self.rng),
        )?;
""", """        let runtime = Runtime::new()
            .with_rng(self.rng)
            .with_clock(self.clock)
            .with_ctxt(self.ctxt)
            .with_filter(self.filter)
            .with_emitter(self.emitter);

        let ambient = match slot.init(runtime) {
            Some(ambient) => ambient,
            None => return None,
        };
""")]),
 # ---- file worker, level filter, template: equivalent spellings -----------------------------------------------------------
 ("B.file_flush_sync_if_let", ["C10", "C11", "C07"], "emitter/file/src/lib.rs", [
   ("""        file.file
            .flush()
            .map_err(|e| emit_batcher::BatchError::no_retry(e))?;
        file.file
            .sync_all()
            .map_err(|e| emit_batcher::BatchError::no_retry(e))?;
""", """        if let Err(e) = file.file.flush() {
            return Err(emit_batcher::BatchError::no_retry(e));
        }
        match file.file.sync_all() {
            Ok(()) => {}
            Err(e) => return Err(emit_batcher::BatchError::no_retry(e)),
        }
""")]),
 ("B.min_level_named_steps", ["C17"], "src/level.rs", [
   ("""        evt.to_event()
            .props()
            .pull::<L, _>(KEY_LVL)
            .as_ref()
            .or_else(|| self.default.as_ref())
            .unwrap_or(&L::default())
            >= &self.min""", """        let evt = evt.to_event();
        let own = evt.props().pull::<L, _>(KEY_LVL);
        let fallback = L::default();
        let level = own
            .as_ref()
            .or_else(|| self.default.as_ref())
            .unwrap_or(&fallback);

        level >= &self.min""")]),
 ("B.path_map_lookup_match", ["C17"], "src/level.rs", [
   ("""                let Ok(idx) = node
                    .children
                    .binary_search_by_key(&segment, |(key, _)| key.by_ref())
                else {
                    break;
                };
""", """                let idx = match node
                    .children
                    .binary_search_by_key(&segment, |(key, _)| key.by_ref())
                {
                    Ok(idx) => idx,
                    Err(_) => break,
                };
""")]),
 # ---- thread-local context: equivalent spellings ---------------------------------------------------------------------------
 ("B.tl_ctxt_id_atomic_from_one", ["C03"], "src/platform/thread_local_ctxt.rs", [
   ("""static NEXT_CTXT_ID: Mutex<usize> = Mutex::new(1);

fn ctxt_id() -> usize {
    let mut next_id = NEXT_CTXT_ID.lock().unwrap();
    let id = *next_id;
    *next_id = id.wrapping_add(1);

    id
}""", """static NEXT_CTXT_ID: std::sync::atomic::AtomicUsize = std::sync::atomic::AtomicUsize::new(1);

fn ctxt_id() -> usize {
    NEXT_CTXT_ID.fetch_add(1, std::sync::atomic::Ordering::Relaxed)
}""")]),
 ("B.tl_open_push_get_or_insert", ["C03", "C19"], "src/platform/thread_local_ctxt.rs", [
   ("""        if span.props.is_none() {
            span.props = Some(Arc::new(HashMap::new()));
        }

        let span_props = Arc::make_mut(span.props.as_mut().unwrap());
""", """        let span_props = Arc::make_mut(span.props.get_or_insert_with(|| Arc::new(HashMap::new())));
""")]),
 ("B.tl_swap_entry_match", ["C03", "C18"], "src/platform/thread_local_ctxt.rs", [
   ("""        let current = active
            .entry(id)
            .or_insert_with(|| ThreadLocalCtxtFrame { props: None });

        mem::swap(current, incoming);""", """        let current = active
            .entry(id)
            .or_insert_with(|| ThreadLocalCtxtFrame { props: None });

        let previous = mem::replace(current, ThreadLocalCtxtFrame { props: incoming.props.take() });
        *incoming = previous;""")]),
 # ---- file set membership: equivalent spellings of the delimited match ------------------------------------------------------
 ("B.membership_format_delimiters", ["C11", "C10"], "emitter/file/src/lib.rs", [
   ("""    let Some(parts) = file_name
        .strip_prefix(file_prefix)
        .and_then(|rest| rest.strip_suffix(file_ext))
        .and_then(|rest| rest.strip_prefix('.'))
        .and_then(|rest| rest.strip_suffix('.'))
    else {
        return false;
    };

    parts.split('.').count() == 3""", """    let head = format!("{}.", file_prefix);
    let tail = format!(".{}", file_ext);

    if !file_name.starts_with(&head) || !file_name.ends_with(&tail) || file_name.len() < head.len() + tail.len() {
        return false;
    }

    file_name[head.len()..file_name.len() - tail.len()].split(".").count() == 3""")]),
 ("B.membership_inline_in_read", ["C11", "C10"], "emitter/file/src/lib.rs", [
   ("            if is_file_in_set(file_name, file_prefix, file_ext) {", """            let own = file_name
                .strip_prefix(file_prefix)
                .and_then(|rest| rest.strip_suffix(file_ext))
                .and_then(|rest| rest.strip_prefix('.'))
                .and_then(|rest| rest.strip_suffix('.'))
                .map(|parts| parts.split('.').count() == 3)
                .unwrap_or(false);
            if own {""")]),
 # ---- round 5: equivalent spellings of the constructs the round-5 rules read --------------------------------------------
 ("B.hook_complete_two_lets", ["C05"], "src/macro_hooks.rs", [
   ("""        let mut completion = span::completion::Default::new(self.rt.emitter(), self.rt.ctxt())
            .with_tpl(self.tpl.by_ref());

        if let Some(lvl) = self.lvl.and_then(|lvl| lvl.capture()) {
            completion = completion.with_lvl(lvl);
        }

        if let Some(lvl) = self.panic_lvl.and_then(|lvl| lvl.capture()) {
            completion = completion.with_panic_lvl(lvl);
        }
""", """        let completion = span::completion::Default::new(self.rt.emitter(), self.rt.ctxt())
            .with_tpl(self.tpl.by_ref());

        let panic_lvl = self.panic_lvl.and_then(|lvl| lvl.capture());
        let lvl = self.lvl.and_then(|lvl| lvl.capture());

        let completion = match lvl {
            Some(lvl) => completion.with_lvl(lvl),
            None => completion,
        };

        let completion = match panic_lvl {
            Some(lvl) => completion.with_panic_lvl(lvl),
            None => completion,
        };
""")]),
 ("B.kind_from_value_early_typed", ["C14", "C15"], "src/kind.rs", [
   ("""        value
            .downcast_ref::<Kind>()
            .copied()
            .or_else(|| value.parse())""", """        if let Some(kind) = value.downcast_ref::<Kind>() {
            return Some(*kind);
        }

        value.parse()""")]),
 ("B.otlp_flush_loop", ["C07", "C08", "C12"], "emitter/otlp/src/client.rs", [
   ("""        if let Some((_, ref sender)) = self.otlp_logs {
            if !emit_batcher::blocking_flush(sender, timeout.saturating_sub(start.elapsed())) {
                return false;
            }
        }

        if let Some((_, ref sender)) = self.otlp_traces {
            if !emit_batcher::blocking_flush(sender, timeout.saturating_sub(start.elapsed())) {
                return false;
            }
        }

        if let Some((_, ref sender)) = self.otlp_metrics {
            if !emit_batcher::blocking_flush(sender, timeout.saturating_sub(start.elapsed())) {
                return false;
            }
        }

        true""", """        let logs = self.otlp_logs.as_ref().map(|(_, sender)| sender);
        let traces = self.otlp_traces.as_ref().map(|(_, sender)| sender);
        let metrics = self.otlp_metrics.as_ref().map(|(_, sender)| sender);

        for sender in [logs, traces, metrics].into_iter().flatten() {
            if !emit_batcher::blocking_flush(sender, timeout.saturating_sub(start.elapsed())) {
                return false;
            }
        }

        true""")]),
 ("B.tokio_spawn_named_runtime", ["C08"], "batcher/src/tokio.rs", [
   ("""            tokio::runtime::Builder::new_current_thread()
                .enable_all()
                .build()
                .unwrap()
                .block_on(receive);""", """            let rt = tokio::runtime::Builder::new_current_thread()
                .enable_all()
                .build()
                .unwrap();

            let _ = rt.block_on(receive);""")]),
 ("B.from_parts_after_february_local", ["C15"], "core/src/timestamp.rs", [
   ("        if is_leap && parts.months > 2 {", "        let after_february = parts.months >= 3;\n        if after_february && is_leap {")]),
 ("B.fmt_args_flags_local", ["C16"], "macros/src/fmt.rs", [
   ("""            return Ok(Args {
                flags: flags.value(),
            });""", """            let flags = flags.value();

            return Ok(Args { flags });""")]),
 ("B.eval_hooks_rename_accumulator", ["C19"], "macros/src/hook.rs", [
   ("    let mut expr = quote!(#expr);", "    let mut tokens = quote!(#expr);"),
   ("                    expr = eval(quote!(#args), expr)?;", "                    tokens = eval(quote!(#args), tokens)?;"),
   ("    Ok(quote_spanned!(expr.span()=> #(#unapplied)* #expr))", "    Ok(quote_spanned!(tokens.span()=> #(#unapplied)* #tokens))")]),
 ("B.shared_runtime_let", ["C01", "C20"], "core/src/runtime.rs", [
   ("""pub fn shared() -> &'static AmbientRuntime<'static> {
    SHARED.get()
}""", """pub fn shared() -> &'static AmbientRuntime<'static> {
    let rt = SHARED.get();
    rt
}""")]),
 # ---- round 6: equivalent spellings of the constructs the round-6 rules read --------------------------------------------
 ("B.metric_buckets_named_end", ["C13", "C14"], "emitter/otlp/src/data/metrics.rs", [
   ("""                    point.start_time_unix_nano = point_time;
                    point_time += step;
                    point.time_unix_nano = point_time;""", """                    let bucket_end = point_time + step;
                    point.start_time_unix_nano = point_time;
                    point.time_unix_nano = bucket_end;
                    point_time = bucket_end;""")]),
 ("B.watchers_drain", ["C07", "C08"], "batcher/src/lib.rs", [
   ("""        for watcher in mem::take(&mut self.on_flush) {
            let _ = panic::catch_unwind(AssertUnwindSafe(watcher));
        }""", """        for watcher in self.on_flush.drain(..) {
            let _ = panic::catch_unwind(AssertUnwindSafe(watcher));
        }""")]),
 ("B.poison_named_guard", ["C12"], "emitter/otlp/src/client/http.rs", [
   ("        self.sender.lock().unwrap().take()", "        let mut slot = self.sender.lock().unwrap();\n        let taken = slot.take();\n        taken")]),
 ("B.stdfile_len_let", ["C10", "C11"], "emitter/file/src/lib.rs", [
   ("        Ok(self.0.metadata()?.len() as usize)", "        let meta = self.0.metadata()?;\n        let len = meta.len();\n        Ok(len as usize)")]),
 ("B.encoding_match_reordered", ["C12", "C13"], "emitter/otlp/src/client.rs", [
   ("        Encoding::Proto => data::Proto::encode(&resource),\n        Encoding::Json => data::Json::encode(&resource),", "        Encoding::Json => data::Json::encode(&resource),\n        Encoding::Proto => data::Proto::encode(&resource),")]),
 ("B.spawn_inner_locals", ["C10", "C11"], "emitter/file/src/lib.rs", [
   ("            self.roll_by,\n            self.reuse_files,\n            self.max_files,\n            self.max_file_size_bytes,\n            self.separator,\n        );", "            self.roll_by,\n            self.reuse_files,\n            { let max_files = self.max_files; max_files },\n            self.max_file_size_bytes,\n            self.separator,\n        );")]),
 ("B.when_flushed_boxed_first", ["C07", "C08", "C12"], "batcher/src/lib.rs", [
   ("            state.next_batch.watchers.push_on_flush(Box::new(f));", "            let watcher: Watcher = Box::new(f);\n            state.next_batch.watchers.push_on_flush(watcher);")]),
 ("B.bounded_state_let", ["C06", "C07", "C08", "C09"], "batcher/src/lib.rs", [
   ("""        state: Mutex::new(State {
            next_batch: Batch::new(),
            is_open: true,
            is_in_batch: false,
        }),""", """        state: {
            let state = State {
                is_in_batch: false,
                is_open: true,
                next_batch: Batch::new(),
            };
            Mutex::new(state)
        },""")]),
 # ---- round 7: private helper extraction must not look like a new writer ----------------------------------------------------
 ("B.spanguard_private_helper", ["C05", "C04", "C18"], "src/span.rs", [
   ("    fn push_ctxt<C: Ctxt>(&self, ctxt: C, ctxt_props: impl Props) -> Frame<C> {",
    "    fn begin_timer(&mut self, clock: T) {\n        self.state = SpanGuardState::Started(Timer::start(clock));\n    }\n\n    fn push_ctxt<C: Ctxt>(&self, ctxt: C, ctxt_props: impl Props) -> Frame<C> {"),
   ("        self.state = SpanGuardState::Started(Timer::start(clock));\n    }\n\n    /**\n    Whether the span will call its completion.", "        self.begin_timer(clock);\n    }\n\n    /**\n    Whether the span will call its completion.")]),
]

RENAMES = [
 ("B.rename.completion_props", ["C05"], "src/span.rs", r"\bcompletion_props\b", "cprops", 1150, 1240),
 ("B.rename.tl_incoming", ["C03", "C04", "C18"], "src/platform/thread_local_ctxt.rs", r"\bincoming\b", "inc_frame", 180, 215),
 ("B.rename.span_ctxt", ["C04", "C05", "C18"], "src/span.rs", r"\bspan_ctxt\b", "child_ids", 915, 975),
 ("B.rename.level_node", ["C17"], "src/level.rs", r"\bnode\b", "cursor", 330, 390),
 ("B.rename.otlp_channel", ["C12", "C07", "C09"], "emitter/otlp/src/client.rs", r"\bchannel\b", "pending", 573, 596),
 ("B.rename.tl_active", ["C03", "C02", "C19"], "src/platform/thread_local_ctxt.rs", r"\bactive\b", "slots", 185, 215),
 ("B.rename.tl_span_props", ["C03", "C19", "C04"], "src/platform/thread_local_ctxt.rs", r"\bspan_props\b", "frame_map", 125, 160),
 ("B.rename.template_ai", ["C16"], "core/src/template.rs", r"\bai\b", "left_part", 180, 260),
 ("B.rename.tp_incoming", ["C18"], "traceparent/src/lib.rs", r"\bincoming\b", "inc", 1020, 1045),
 ("B.rename.dedup_seen", ["C02"], "core/src/props.rs", r"\bseen\b", "visited", 270, 310),
 ("B.rename.batcher_current_batch", ["C06", "C07", "C08"], "batcher/src/lib.rs", r"\bcurrent_batch\b", "cur", 340, 480),
]

MULTI += [('B.retry_saturating_add',
  ['C08', 'C06'],
  'batcher/src/lib.rs',
  [('        self.current += 1;\n        self.current <= self.max',
    '        self.current = self.current.saturating_add(1);\n        self.current <= self.max')]),
 ('B.delay_saturating',
  ['C08'],
  'batcher/src/lib.rs',
  [('        self.current = cmp::min(self.current * 2 + self.step, self.max);',
    '        self.current = cmp::min(self.current.saturating_mul(2).saturating_add(self.step), self.max);')]),
 ('B.is_sampled_ne_zero', ['C18'], 'traceparent/src/lib.rs', [('        self.0 & Self::SAMPLED.0 == 1', '        (self.0 & Self::SAMPLED.0) != 0')]),
 ('B.retry_max_ge',
  ['C08'],
  'batcher/src/lib.rs',
  [('        self.current += 1;\n        self.current <= self.max', '        self.current += 1;\n        self.max >= self.current')]),
 ('B.send_cap_cmp_flipped',
  ['C09', 'C06'],
  'batcher/src/lib.rs',
  [('        if state.next_batch.channel.len() >= self.max_capacity {', '        if self.max_capacity <= state.next_batch.channel.len() {')]),
 ('B.timer_extent_if_let',
  ['C05'],
  'src/timer.rs',
  [('        match (self.start, end) {\n            (Some(start), Some(end)) => Some(Extent::range(start..end)),\n            _ => None,\n        }',
    '        if let (Some(start), Some(end)) = (self.start, end) {\n'
    '            Some(Extent::range(start..end))\n'
    '        } else {\n'
    '            None\n'
    '        }')]),
 ('B.min_level_cmp_method',
  ['C17'],
  'src/level.rs',
  [('            .unwrap_or(&L::default())\n            >= &self.min', '            .unwrap_or(&L::default())\n            .ge(&&self.min)')]),
 ('B.file_retention_loop_form',
  ['C11'],
  'emitter/file/src/lib.rs',
  [('        while self.file_set.len() >= max_files {\n'
    '            // With `max_files` of 0 (a configured maximum of 1) the set may already be empty\n'
    '            let Some(file_name) = self.file_set.pop() else {\n'
    '                break;\n'
    '            };',
    '        loop {\n'
    '            if self.file_set.len() < max_files {\n'
    '                break;\n'
    '            }\n'
    '            // With `max_files` of 0 (a configured maximum of 1) the set may already be empty\n'
    '            let Some(file_name) = self.file_set.pop() else {\n'
    '                break;\n'
    '            };')])]

# ---- round 8: equivalent spellings around the rules added in round 8 --------------------------------------------------------------------
MULTI += [
 ("B.r8.clear_drain_full", ["C09", "C06", "C11"], "emitter/file/src/lib.rs", [
   ("        self.bufs.clear();\n        self.remaining_bytes = 0;", "        self.bufs.drain(..);\n        self.remaining_bytes = 0;")]),
 ("B.r8.clear_truncate_zero", ["C09"], "emitter/file/src/lib.rs", [
   ("        self.bufs.clear();\n        self.remaining_bytes = 0;", "        self.bufs.truncate(0);\n        self.remaining_bytes = 0;")]),
 ("B.r8.option_ctxt_as_mut", ["C03", "C04"], "core/src/ctxt.rs", [
   ("""    fn exit(&self, frame: &mut Self::Frame) {
        if let (Some(ctxt), Some(span)) = (self, frame) {
            ctxt.exit(span)
        }
    }

    fn close(&self, frame: Self::Frame) {
        if let (Some(ctxt), Some(span)) = (self, frame) {""",
    """    fn exit(&self, frame: &mut Self::Frame) {
        if let Some(ctxt) = self.as_ref() {
            if let Some(span) = frame.as_mut() {
                ctxt.exit(span)
            }
        }
    }

    fn close(&self, frame: Self::Frame) {
        if let (Some(ctxt), Some(span)) = (self, frame) {""")]),
 ("B.r8.swap_reads_len", ["C03", "C04", "C19"], "src/platform/thread_local_ctxt.rs", [
   ("""fn swap(id: usize, incoming: &mut ThreadLocalCtxtFrame) {
    ACTIVE.with(|active| {
        let mut active = active.borrow_mut();
""", """fn swap(id: usize, incoming: &mut ThreadLocalCtxtFrame) {
    ACTIVE.with(|active| {
        let mut active = active.borrow_mut();
        let _instances = active.len();
""")]),
 ("B.r8.emit_event_props_let", ["C01", "C16"], "src/macro_hooks.rs", [
   ("    let event = event.map_props(|event_props| props.and_props(event_props));",
    "    let event = event.map_props(|carried| {\n        let own = props;\n        own.and_props(carried)\n    });")]),
 ("B.r8.tp_props_for_each_let", ["C18", "C02"], "traceparent/src/lib.rs", [
   ("        self.ctxt.for_each(&mut for_each)?;\n", "        let own = self.ctxt.for_each(&mut for_each);\n        own?;\n")]),
 ("B.r8.tokio_blocking_send_arms", ["C09", "C08"], "batcher/src/tokio.rs", [
   ("        _ => sync::blocking_send(sender, msg, timeout),", "        Ok(_) => sync::blocking_send(sender, msg, timeout),\n        Err(_) => sync::blocking_send(sender, msg, timeout),")]),
 ("B.r8.retention_pop_match", ["C08", "C11", "C10"], "emitter/file/src/lib.rs", [
   ("""            let Some(file_name) = self.file_set.pop() else {
                break;
            };""", """            let file_name = match self.file_set.pop() {
                Some(file_name) => file_name,
                None => break,
            };""")]),
 ("B.r8.random_map", ["C04"], "src/span.rs", [
   ("        Some(SpanId::new(NonZeroU64::new(rng.gen_u64()?)?))", "        NonZeroU64::new(rng.gen_u64()?).map(SpanId::new)")]),
 ("B.r8.on_batch_retry_let", ["C10", "C07", "C11"], "emitter/file/src/lib.rs", [
   ("""                        path,
                        err,
                    );

                    return Err(emit_batcher::BatchError::retry(err, batch));""", """                        path,
                        err,
                    );

                    let give_back = emit_batcher::BatchError::retry(err, batch);
                    return Err(give_back);""")]),
 ("B.r8.file_emit_buf_rename", ["C10", "C13"], "emitter/file/src/lib.rs", [
   ("        let mut buf = FileBuf::new();\n", "        let fresh = FileBuf::new();\n        let mut buf = fresh;\n")]),
 ("B.r8.traces_extent_then_tuple", ["C13", "C14"], "emitter/otlp/src/data/traces.rs", [
   ("""        let (start_time_unix_nano, end_time_unix_nano) = evt
            .extent()
            .and_then(|extent| extent.as_range())
            .map(|range| {
                (
                    range.start.to_unix().as_nanos() as u64,
                    range.end.to_unix().as_nanos() as u64,
                )
            })?;""", """        let range = evt.extent().and_then(|extent| extent.as_range())?;
        let (start_time_unix_nano, end_time_unix_nano) = (
            range.start.to_unix().as_nanos() as u64,
            range.end.to_unix().as_nanos() as u64,
        );""")]),
 ("B.r8.otlp_send_first_remove", ["C07", "C12", "C14"], "emitter/otlp/src/client.rs", [
   ("                while let Some(batch) = channel.requests.last() {", "                while let Some(batch) = channel.requests.first() {"),
   ("                            channel.requests.pop();", "                            channel.requests.remove(0);")]),
]

# ---- round 10: sound variants of what the round-10 rules reject ------------------------------------------------------------------------------
MULTI += [
 ("B.r10.otlp_flush_and_all", ["C07", "C12", "C08"], "emitter/otlp/src/client.rs", [
   ("""        if let Some((_, ref sender)) = self.otlp_logs {
            if !emit_batcher::blocking_flush(sender, timeout.saturating_sub(start.elapsed())) {
                return false;
            }
        }

        if let Some((_, ref sender)) = self.otlp_traces {
            if !emit_batcher::blocking_flush(sender, timeout.saturating_sub(start.elapsed())) {
                return false;
            }
        }

        if let Some((_, ref sender)) = self.otlp_metrics {
            if !emit_batcher::blocking_flush(sender, timeout.saturating_sub(start.elapsed())) {
                return false;
            }
        }

        true""", """        let mut flushed = true;

        if let Some((_, ref sender)) = self.otlp_logs {
            flushed &= emit_batcher::blocking_flush(sender, timeout.saturating_sub(start.elapsed()));
        }

        if let Some((_, ref sender)) = self.otlp_traces {
            flushed &= emit_batcher::blocking_flush(sender, timeout.saturating_sub(start.elapsed()));
        }

        if let Some((_, ref sender)) = self.otlp_metrics {
            flushed &= emit_batcher::blocking_flush(sender, timeout.saturating_sub(start.elapsed()));
        }

        flushed""")]),
 ("B.r10.metric_source_hoist", ["C09", "C12"], "emitter/otlp/src/client.rs", [
   ("""        OtlpMetrics {
            logs_channel_metrics: self
                .inner
                .as_ref()
                .and_then(|otlp| otlp.otlp_logs.as_ref())
                .map(|(_, sender)| sender.metric_source()),
            traces_channel_metrics: self
                .inner
                .as_ref()
                .and_then(|otlp| otlp.otlp_traces.as_ref())
                .map(|(_, sender)| sender.metric_source()),
            metrics_channel_metrics: self
                .inner
                .as_ref()
                .and_then(|otlp| otlp.otlp_metrics.as_ref())
                .map(|(_, sender)| sender.metric_source()),""", """        let inner = self.inner.as_ref();

        OtlpMetrics {
            logs_channel_metrics: inner
                .and_then(|otlp| otlp.otlp_logs.as_ref())
                .map(|(_, sender)| sender.metric_source()),
            traces_channel_metrics: inner
                .and_then(|otlp| otlp.otlp_traces.as_ref())
                .map(|(_, sender)| sender.metric_source()),
            metrics_channel_metrics: inner
                .and_then(|otlp| otlp.otlp_metrics.as_ref())
                .map(|(_, sender)| sender.metric_source()),""")]),
 ("B.r10.begin_filter_lets", ["C17", "C01", "C05"], "src/macro_hooks.rs", [
   ("""        FirstDefined(self.when, self.rt.filter())
            .matches(evt.map_props(|props| props.and_props(&lvl_prop)))""", """        let effective = FirstDefined(self.when, self.rt.filter());
        let levelled = evt.map_props(|props| props.and_props(&lvl_prop));

        effective.matches(levelled)""")]),
 ("B.r10.default_complete_named_empty", ["C05", "C18"], "src/span.rs", [
   ("            emit_core::emit(&self.emitter, Empty, &self.ctxt, Empty, evt);", "            let no_filter = Empty;\n            let no_clock = Empty;\n            emit_core::emit(&self.emitter, no_filter, &self.ctxt, no_clock, evt);")]),
 ("B.r10.render_sval_match", ["C16"], "core/src/template.rs", [
   ("""impl<'k, P: Props> sval_ref::ValueRef<'k> for Render<'k, P> {
    fn stream_ref<S: sval::Stream<'k> + ?Sized>(&self, stream: &mut S) -> sval::Result {
        if let Some(v) = self.as_literal() {
            sval_ref::stream_ref(stream, v)
        } else {
            sval::stream_display(stream, self)
        }""", """impl<'k, P: Props> sval_ref::ValueRef<'k> for Render<'k, P> {
    fn stream_ref<S: sval::Stream<'k> + ?Sized>(&self, stream: &mut S) -> sval::Result {
        match self.as_literal() {
            Some(v) => sval_ref::stream_ref(stream, v),
            None => sval::stream_display(stream, self),
        }""")]),
 ("B.r10.http_request_hook_let", ["C12", "C07"], "emitter/otlp/src/client/http.rs", [
   ("""            let res = send_request(
                &self.metrics,
                &mut sender,
                &self.uri,
                self.headers.iter().map(|(k, v)| (&**k, &**v)),
                (self.request)(body)?,
            )""", """            let framed = (self.request)(body)?;

            let res = send_request(
                &self.metrics,
                &mut sender,
                &self.uri,
                self.headers.iter().map(|(k, v)| (&**k, &**v)),
                framed,
            )""")]),
 ("B.r10.capture_id_let", ["C15", "C04"], "src/macro_hooks.rs", [
   ("""impl CaptureSpanId for str {
    fn capture(&self) -> Option<Value> {
        Some(self.to_value())""", """impl CaptureSpanId for str {
    fn capture(&self) -> Option<Value> {
        let text = self.to_value();
        Some(text)""")]),
 ("B.r10.macro_attrs_iter", ["C19", "C16"], "macros/src/props.rs", [
   ("        for attr in &fv.attrs {\n            if attr.is_cfg() {", "        for attr in fv.attrs.iter() {\n            if attr.is_cfg() {")]),
]

# formerly a documented limit (round 7): the two calls before the acknowledgement extracted into one helper
MULTI += [
 ("B.file_sync_helper", ["C10", "C07", "C11"], "emitter/file/src/lib.rs", [
   ("""        file.file
            .flush()
            .map_err(|e| emit_batcher::BatchError::no_retry(e))?;
        file.file
            .sync_all()
            .map_err(|e| emit_batcher::BatchError::no_retry(e))?;
""", """        flush_and_sync(&mut file).map_err(|e| emit_batcher::BatchError::no_retry(e))?;
"""),
   ("fn is_file_in_set(file_name: &str, file_prefix: &str, file_ext: &str) -> bool {", "fn flush_and_sync(file: &mut ActiveFile) -> io::Result<()> {\n    file.file.flush()?;\n    file.file.sync_all()\n}\n\nfn is_file_in_set(file_name: &str, file_prefix: &str, file_ext: &str) -> bool {")]),
]

# helper extraction: a step of a function the rules look at is moved into a new private function.  Since round 9 such functions (not in
# rules/known_fns.json) are inlined into their callers before the rules run, so these must stay silent.
MULTI += [
 ("B.write_counted_helper", ["C10", "C11", "C07"], "emitter/file/src/lib.rs", [
   ("""            self.file_size_bytes += separator.len();
            self.file.write_all(separator)?;""", """            self.write_counted(separator)?;"""),
   ("""        self.file_size_bytes += event_buf.len();
        self.file.write_all(event_buf)?;""", """        self.write_counted(event_buf)?;"""),
   ("    fn write_event(&mut self, event_buf: &[u8], separator: &'static [u8]) -> Result<(), io::Error> {",
    "    fn write_counted(&mut self, buf: &[u8]) -> Result<(), io::Error> {\n        self.file_size_bytes += buf.len();\n        self.file.write_all(buf)\n    }\n\n    fn write_event(&mut self, event_buf: &[u8], separator: &'static [u8]) -> Result<(), io::Error> {")]),
 ("B.h.send_truncate_helper", ["C06", "C07", "C08", "C09"], "batcher/src/lib.rs", [
   ("""        if state.next_batch.channel.len() >= self.max_capacity {
            state.next_batch.channel.clear();
            self.shared.metrics.queue_full_truncated.increment();
        }

        // If the channel is closed then return without adding the message""", """        self.truncate_if_full(&mut state);

        // If the channel is closed then return without adding the message"""),
   ("    /**\n    Send an item on the channel, returning it if it's currently full.", """    fn truncate_if_full(&self, state: &mut State<T>) {
        if state.next_batch.channel.len() >= self.max_capacity {
            state.next_batch.channel.clear();
            self.shared.metrics.queue_full_truncated.increment();
        }
    }

    /**
    Send an item on the channel, returning it if it's currently full.""")]),
 ("B.h.otlp_ack_helper", ["C07", "C12", "C14"], "emitter/otlp/src/client.rs", [
   ("                            channel.requests.pop();", "                            Self::acknowledge(&mut channel);"),
   ("    pub(crate) async fn send(&self, mut channel: Channel) -> Result<(), BatchError<Channel>> {",
    "    fn acknowledge(channel: &mut Channel) {\n        channel.requests.pop();\n    }\n\n    pub(crate) async fn send(&self, mut channel: Channel) -> Result<(), BatchError<Channel>> {")]),
 ("B.h.tl_slot_helper", ["C03", "C04", "C19"], "src/platform/thread_local_ctxt.rs", [
   ("""        let current = active
            .entry(id)
            .or_insert_with(|| ThreadLocalCtxtFrame { props: None });

        mem::swap(current, incoming);""", """        let current = slot_of(&mut active, id);

        mem::swap(current, incoming);"""),
   ("fn swap(id: usize, incoming: &mut ThreadLocalCtxtFrame) {", """fn slot_of(active: &mut HashMap<usize, ThreadLocalCtxtFrame>, id: usize) -> &mut ThreadLocalCtxtFrame {
    active
        .entry(id)
        .or_insert_with(|| ThreadLocalCtxtFrame { props: None })
}

fn swap(id: usize, incoming: &mut ThreadLocalCtxtFrame) {""")]),
]

MULTI += [
 ("B.write_counted_trait", ["C10", "C11", "C07"], "emitter/file/src/lib.rs", [
   ("""            self.file_size_bytes += separator.len();
            self.file.write_all(separator)?;""", """            CountedWrite::write_counted(self, separator)?;"""),
   ("""        self.file_size_bytes += event_buf.len();
        self.file.write_all(event_buf)?;""", """        CountedWrite::write_counted(self, event_buf)?;"""),
   ("fn is_file_in_set(file_name: &str, file_prefix: &str, file_ext: &str) -> bool {",
    "trait CountedWrite {\n    fn write_counted(&mut self, buf: &[u8]) -> Result<(), io::Error>;\n}\n\nimpl CountedWrite for ActiveFile {\n    fn write_counted(&mut self, buf: &[u8]) -> Result<(), io::Error> {\n        self.file_size_bytes += buf.len();\n        self.file.write_all(buf)\n    }\n}\n\nfn is_file_in_set(file_name: &str, file_prefix: &str, file_ext: &str) -> bool {")]),
 # ---- round 11: behaviour-preserving variants aimed at the rules added in that round ----
 ("B.r11.eq_empty_fragment_len_zero", ["C16"], "core/src/template.rs", [
   ("(PartKind::Text { value: ref a }, PartKind::Hole { .. }) if a.get().is_empty() => {\n                    ai += 1;\n",
    "(PartKind::Text { value: ref a }, PartKind::Hole { .. }) if a.get().len() == 0 => {\n                    ai += 1;\n                    ati = 0;\n"),
   ("(PartKind::Hole { .. }, PartKind::Text { value: ref b }) if b.get().is_empty() => {\n                    bi += 1;\n",
    "(PartKind::Hole { .. }, PartKind::Text { value: ref b }) if b.get().len() == 0 => {\n                    bi += 1;\n                    bti = 0;\n")]),
 ("B.r11.retry_not_empty", ["C06", "C08", "C07", "C12"], "batcher/src/lib.rs", [
   ("if retryable.len() > 0 && self.retry.next() {", "if !retryable.is_empty() && self.retry.next() {")]),
 ("B.r11.retry_hoisted_flag", ["C06", "C08", "C07", "C12"], "batcher/src/lib.rs", [
   ("                                        if retryable.len() > 0 && self.retry.next() {",
    "                                        let has_more = retryable.len() != 0;\n                                        if has_more && self.retry.next() {")]),
 ("B.r11.id_display_write_macro", ["C15", "C18", "C04"], "src/span.rs", [
   ("impl fmt::Display for TraceId {\n    fn fmt(&self, f: &mut fmt::Formatter) -> fmt::Result {\n        f.write_str(str::from_utf8(&self.to_hex()).unwrap())",
    "impl fmt::Display for TraceId {\n    fn fmt(&self, f: &mut fmt::Formatter) -> fmt::Result {\n        write!(f, \"{}\", str::from_utf8(&self.to_hex()).unwrap())")]),
 ("B.r11.otlp_worker_next_loop", ["C08", "C12", "C07"], "emitter/otlp/src/client.rs", [
   ("            let _ = processors.collect::<Vec<()>>().await;", "            let mut processors = processors;\n            while processors.next().await.is_some() {}")]),
 ("B.r11.into_points_early_empty", ["C13", "C14"], "emitter/otlp/src/data/metrics.rs", [
   ("        match self.points.len() as u64 {\n            0 => None,", "        if self.points.is_empty() {\n            return None;\n        }\n\n        match self.points.len() as u64 {\n            0 => None,")]),
 ("B.r11.exclude_props_branches_swapped", ["C18", "C02"], "traceparent/src/lib.rs", [
   ("        if !self.check {\n            return self.inner.for_each(for_each);\n        }\n\n        self.inner.for_each(|key, value| match key.get() {\n            // Properties that come from the traceparent context\n            KEY_TRACE_ID | KEY_SPAN_ID | KEY_SPAN_PARENT => ControlFlow::Continue(()),\n            // Properties to pass through to the underlying context\n            _ => for_each(key, value),\n        })",
    "        if self.check {\n            return self.inner.for_each(|key, value| match key.get() {\n                // Properties that come from the traceparent context\n                KEY_TRACE_ID | KEY_SPAN_ID | KEY_SPAN_PARENT => ControlFlow::Continue(()),\n                // Properties to pass through to the underlying context\n                _ => for_each(key, value),\n            });\n        }\n\n        self.inner.for_each(for_each)")]),
 ("B.r11.level_walk_root_alias", ["C17"], "src/level.rs", [
   ("            let mut node = &self.root;\n            let mut filter = self.root.min_level.as_ref();", "            let root = &self.root;\n            let mut node = root;\n            let mut filter = root.min_level.as_ref();")]),
 ("B.r11.member_match_form", ["C11", "C10"], "emitter/file/src/lib.rs", [
   ("    let Some(parts) = file_name\n        .strip_prefix(file_prefix)\n        .and_then(|rest| rest.strip_suffix(file_ext))\n        .and_then(|rest| rest.strip_prefix('.'))\n        .and_then(|rest| rest.strip_suffix('.'))\n    else {\n        return false;\n    };",
    "    let parts = match file_name\n        .strip_prefix(file_prefix)\n        .and_then(|rest| rest.strip_suffix(file_ext))\n        .and_then(|rest| rest.strip_prefix('.'))\n        .and_then(|rest| rest.strip_suffix('.'))\n    {\n        Some(parts) => parts,\n        None => return false,\n    };")]),
 ("B.r11.hole_fmt_named_result", ["C16"], "core/src/template.rs", [
   ("    fn write_hole_fmt(&mut self, _: &str, value: Value, formatter: Formatter) -> fmt::Result {\n        formatter.fmt(value, self)",
    "    fn write_hole_fmt(&mut self, _: &str, value: Value, formatter: Formatter) -> fmt::Result {\n        let r = formatter.fmt(value, self);\n        r")]),
 ("B.r11.trigger_remaining_saturating", ["C08", "C07"], "batcher/src/sync.rs", [
   ("                    timeout = match timeout.checked_sub(now.elapsed()) {\n                        Some(timeout) => timeout,\n                        // We didn't time out, but got close enough that we should now anyways\n                        None => {\n                            return *flushed_slot;\n                        }\n                    };",
    "                    timeout = timeout.saturating_sub(now.elapsed());\n                    if timeout.is_zero() {\n                        return *flushed_slot;\n                    }")]),
 ("B.r11.sum_points_add_assign", ["C13", "C14"], "emitter/otlp/src/data/metrics.rs", [
   ("                NumberDataPointValue::AsDouble(AsDouble(current + value))", "                NumberDataPointValue::AsDouble(AsDouble({\n                    let mut total = current;\n                    total += value;\n                    total\n                }))")]),
 # ---- round 12 ----
 ("B.r12.century_selection_flattened", ["C15"], "core/src/timestamp.rs", [
   ("""                if rem >= 200 {
                    if rem >= 300 {
                        centuries = 3;
                        rem -= 300;
                    } else {
                        centuries = 2;
                        rem -= 200;
                    }
                } else if rem >= 100 {""", """                if rem >= 300 {
                    centuries = 3;
                    rem -= 300;
                } else if rem > 199 {
                    centuries = 2;
                    rem -= 200;
                } else if rem >= 100 {""")]),
 ("B.r12.traces_decline_let_else", ["C13", "C14"], "emitter/otlp/src/data/traces.rs", [
   ("""        if !emit::kind::is_span_filter().matches(evt) {
            return None;
        }
""", """        let is_span = emit::kind::is_span_filter().matches(evt);
        if is_span == false {
            return None;
        }
""")]),
 ("B.r12.span_status_ge_warn", ["C13"], "emitter/otlp/src/data/traces/span.rs", [
   ("""            let code = match level {
                emit::Level::Debug | emit::Level::Info => StatusCode::Ok,
                emit::Level::Warn | emit::Level::Error => StatusCode::Error,
            };""", """            let code = if level >= emit::Level::Warn {
                StatusCode::Error
            } else {
                StatusCode::Ok
            };""")]),
 ("B.r12.tl_enter_id_local", ["C03", "C04"], "src/platform/thread_local_ctxt.rs", [
   ("""    fn enter(&self, frame: &mut Self::Frame) {
        swap(self.id, frame);""", """    fn enter(&self, frame: &mut Self::Frame) {
        let id = self.id;
        swap(id, frame);""")]),
 ("B.r12.option_props_if_let", ["C02", "C01"], "core/src/props.rs", [
   ("""        match self {
            Some(props) => props.for_each(for_each),
            None => ControlFlow::Continue(()),
        }""", """        if let Some(props) = self {
            return props.for_each(for_each);
        }

        ControlFlow::Continue(())""")]),
 ("B.r12.member_count_flipped", ["C11"], "emitter/file/src/lib.rs", [
   ("    parts.split('.').count() == 3\n", "    let components = parts.split('.').count();\n    3 == components\n")]),
 # ---- round 13 ----
 ("B.r13.length_window_range_contains", ["C15"], "core/src/timestamp.rs", [
   ("    if fmt.len() > 30 || fmt.len() < 20 {", "    if !(20..=30).contains(&fmt.len()) {")]),
 ("B.r13.length_window_two_ifs", ["C15"], "core/src/timestamp.rs", [
   ("    if fmt.len() > 30 || fmt.len() < 20 {\n        // Invalid length\n        return Err(ParseTimestampError {});\n    }",
    "    if fmt.len() < 20 {\n        // Too short\n        return Err(ParseTimestampError {});\n    }\n\n    if 30 < fmt.len() {\n        // Too long\n        return Err(ParseTimestampError {});\n    }")]),
 ("B.r13.leap_flag_direct", ["C15"], "core/src/timestamp.rs", [
   ("                    leaps = rem / 4;\n                    rem %= 4;\n                    is_leap = rem == 0;", "                    leaps = rem / 4;\n                    is_leap = rem % 4 == 0;")]),
 ("B.r13.reuse_sync_after_len", ["C10", "C11"], "emitter/file/src/lib.rs", [
   ("        fs.sync_parent(file_path)?;\n\n        let file_size_bytes = file.len()?;", "        let file_size_bytes = file.len()?;\n\n        fs.sync_parent(file_path)?;")]),
 ("B.r13.retention_loop_form", ["C11", "C08", "C10"], "emitter/file/src/lib.rs", [
   ("        while self.file_set.len() >= max_files {\n            // With `max_files` of 0 (a configured maximum of 1) the set may already be empty\n            let Some(file_name) = self.file_set.pop() else {\n                break;\n            };",
    "        loop {\n            if self.file_set.len() < max_files {\n                break;\n            }\n\n            // With `max_files` of 0 (a configured maximum of 1) the set may already be empty\n            let Some(file_name) = self.file_set.pop() else {\n                break;\n            };")]),
 ("B.r13.grpc_header_status_named", ["C12"], "emitter/otlp/src/client.rs", [
   ("                            let mut status = res\n                                .header(\"grpc-status\")\n                                .and_then(|v| v.parse().ok())\n                                .unwrap_or(0);",
    "                            let header_status = res.header(\"grpc-status\");\n                            let mut status = match header_status.and_then(|v| v.parse().ok()) {\n                                Some(status) => status,\n                                None => 0,\n                            };")]),
 ("B.r13.hole_value_write_macro", ["C16"], "core/src/template.rs", [
   ("        // flags the caller is formatting the template with to each hole\n        self.write_fmt(format_args!(\"{}\", value))", "        // flags the caller is formatting the template with to each hole\n        write!(self, \"{}\", value)")]),
]

# Behaviour-preserving edits the checks are KNOWN to alarm on (documented limitation, DESIGN.md section 8.1): the step is moved into a
# *local closure* that is then called (an indirect call through Fn::call; the inliner splices functions and statically resolved
# methods only).  Kept so the limitation is measured, not hidden.
LIMITS = [
 ("B.write_counted_closure", ["C10", "C11", "C07"], "emitter/file/src/lib.rs", [
   ("""        if self.file_needs_recovery {
            self.file_size_bytes += separator.len();
            self.file.write_all(separator)?;""", """        let write_counted = |this: &mut Self, buf: &[u8]| -> Result<(), io::Error> {
            this.file_size_bytes += buf.len();
            this.file.write_all(buf)
        };

        if self.file_needs_recovery {
            write_counted(self, separator)?;"""),
   ("""        self.file_size_bytes += event_buf.len();
        self.file.write_all(event_buf)?;""", """        write_counted(self, event_buf)?;""")]),
]
