#!/bin/sh
# Build the fact extractor and warm the dependency build + facts cache. Offline, from files on disk.
set -e
cd "$(dirname "$0")"
export CARGO_NET_OFFLINE=true
(cd engines/mirfacts && cargo +nightly build --release --offline)
python3 rules/facts.py K1 K4
python3 -c "import sys; sys.path.insert(0, '.'); from rules import witness; r = witness.results(); print('witnesses:', len(r['tests']), 'ok' if r['ok'] else 'FAILED')"
