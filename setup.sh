#!/bin/sh
# Build the fact extractor and warm the dependency build + facts cache. Offline, from files on disk.
set -e
cd "$(dirname "$0")"
export CARGO_NET_OFFLINE=true
(cd engines/mirfacts && cargo +nightly build --release --offline)
python3 rules/facts.py K1 K4
