"""C07 — a successful flush means everything emitted before it has been processed."""
from . import batcher, common, mir
from .mir import o_str


OVERLAYS = ('K3',)


def run(chk):
    P = mir.Program("K1")
    chk.use_program(P)
    chk.explain("Rules over built MIR: R1 when_flushed fires at once iff !is_in_batch && (pending.is_empty() || !is_open) "
                "(truth table over all 8 states), otherwise the callback is attached to the pending batch under the "
                "lock; R2 the receiver sets is_in_batch with the swap and clears it with the watcher take, under one "
                "guard; R3 flush watchers are notified outside the retry loop, on every exit of it, and before exec "
                "returns; on retry the watchers travel with the remainder; nobody but the receiver replaces the pending "
                "batch or its watchers; R4 blocking/async flush wait on the notifier their callback triggers and return "
                "its result; R5 end-to-end links: the file worker returns Ok only after flush+sync_all, the OTLP "
                "transport returns Ok only when no request is left, every configured OTLP signal is flushed, And flushes "
                "both sides.")
    chk.trust("rustc nightly; Mutex/Condvar/oneshot contracts")
    chk.assume("timing (timeouts) and scheduling of the receiver thread are not decided")
    chk.exhaustive = True
    batcher.when_flushed_table(chk, P, "C07")
    batcher.receiver_flags(chk, P, "C07")
    batcher.one_critical_section(chk, P, "C07")
    batcher.watchers_after_last_attempt(chk, P, "C07")
    batcher.watcher_lists(chk, P, "C07")
    batcher.retry_remainder(chk, P, "C07")
    batcher.who_may(chk, P, "C07")
    batcher.state_stays_inside(chk, P, "C07")
    batcher.constructor_rule(chk, P, "C07")
    batcher.blocking_flush_sync(chk, P, "C07")
    batcher.tokio_wait(chk, P, "C07")
    end_to_end(chk, P)
    common.arg_agreement_rule(chk, P, "C07", [("emit_batcher", None)], 3)
    if not getattr(chk, "_overlay", None):
        common.linear_types_rule(chk, P, "C07.R4:halves-are-linear", "the channel halves cannot be copied (dropping one copy would close the channel under the other)",
                                 {"emit_batcher::Sender": "Drop for Sender closes the channel: the first copy dropped stops the receiver while the others still send, "
                                                          "their items are discarded and a flush reports success at once",
                                  "emit_batcher::Receiver": "two receivers would take batches concurrently and both clear is_in_batch"})
    # "rolling files are written": the event write itself (write_all of the whole buffer under the recovery flag)
    from . import c10
    c10.write_event_rule(chk, P, "C07.R5:write_event")
    from . import shapes
    shapes.trigger_starts_unset(chk, P, "C07.R4:trigger-starts-unset")
    from . import c01
    c01.and_flush_rule(chk, P, "C07.R6:And::blocking_flush")
    shapes.retry_when_nonempty(chk, P, "C07.R3:retry-when-nonempty")
    return chk


def otlp_flush_budget(chk, P, key):
    """OtlpInner::blocking_flush shares one timeout between its signals: the time handed to a later signal is computed from a clock reading
    taken *after* the earlier signal's flush returned (timeout - start.elapsed()), so the call as a whole stays within `timeout`."""
    def f():
        b = P.impl_method("emit_core::emitter::Emitter", "emit_otlp::client::OtlpInner", "blocking_flush")
        fl = [c for c in b.calls(normal_only=True) if c.callee.get("name") == "blocking_flush" and (c.callee.get("path") or "").startswith("emit_batcher::")]
        if len(fl) < 2 and not any(b.in_cycle(c.bb) for c in fl):
            raise mir.AnchorMissing("two or more signal flushes in OtlpInner::blocking_flush (found %d)" % len(fl))

        def readings(o, acc, d=0):
            if d > 14:
                return
            if o[0] == "call":
                if o[1].callee.get("name") in ("elapsed", "now", "duration_since", "saturating_duration_since", "checked_duration_since"):
                    acc.append(o[1])
                for a in o[1].args:
                    readings(b.origin(a), acc, d + 1)
            elif o[0] in ("field", "downcast", "index", "cast", "ref", "deref", "copy"):
                readings(o[1], acc, d + 1)
            elif o[0] == "binop":
                readings(o[2], acc, d + 1)
                readings(o[3], acc, d + 1)
            elif o[0] == "phi":
                for x in o[1]:
                    readings(x, acc, d + 1)
        for A in fl:
            after = b.reachable_from(A.bb)
            for B in fl:
                if B.bb not in after or (B is A and not b.in_cycle(A.bb)):
                    continue
                acc = []
                readings(b.origin(B.args[1]), acc)
                if not any(r.bb in after and (r.bb != A.bb or B is A) for r in acc):
                    return False, ("the flush at %s gets a timeout that does not account for the time the flush at %s took (%s): with a slow "
                                   "earlier signal the whole call outlasts its timeout" %
                                   (B.loc, A.loc, "no clock reading after it" if acc else "no clock reading at all")), [], B.loc
        return True, "", [c.loc for c in fl]
    chk.ob(key, "each OTLP signal is flushed with the time remaining after the signals flushed before it", f)


def _ob(chk, prefix, only, key, text, fn):
    if only is None or key in only:
        chk.ob("%s.%s" % (prefix, key), text, fn)


def end_to_end(chk, P, prefix="C07", only=None):
    EM = "emit_core::emitter::Emitter"

    def otlp_flush():
        b = P.impl_method(EM, "emit_otlp::client::OtlpInner", "blocking_flush")
        adt = P.adt("emit_otlp::client::OtlpInner")
        sig_fields = [f["name"] for v in adt["variants"] for f in v["fields"] if "Sender<" in f["ty"]]
        if len(sig_fields) < 3:
            return False, "expected three signal senders in OtlpInner, found %s" % sig_fields, [], adt["span"]
        fl = [c for c in b.calls(normal_only=True) if c.callee.get("name") == "blocking_flush"
              and (c.callee.get("path") or "").startswith("emit_batcher::")]
        flushed = set()
        chain_calls = set()
        for c in fl:
            o = b.origin(c.args[0])
            def walk(o, d=0, x=b):
                if d > 24:
                    return
                k = o[0]
                if k == "field":
                    r, names = mir.o_field_path(o)
                    if r[0] == "param" and r[1] == 1 and names and not x.is_closure:
                        flushed.add(names[0])
                if k in ("field", "downcast", "index", "cast", "ref", "deref", "copy"):
                    walk(o[1], d + 1, x)
                elif k == "call":
                    chain_calls.add(o[1].callee.get("name"))
                    for a in o[1].args:
                        walk(o[1].body.origin(a), d + 1, o[1].body)
                elif k == "phi":
                    for y in o[1]:
                        walk(y, d + 1, x)
                elif k == "agg":
                    for y in o[2]:
                        walk(y, d + 1, x)
                elif k == "capture":
                    par = P.bodies.get(x.parent_key)
                    if par is not None:
                        walk(P.capture_origin(x, o), d + 1, par)
            walk(o)
        missing = [f for f in sig_fields if f not in flushed]
        # when the signals are flushed from a loop over a collection of them, nothing may drop or stop short of an element
        cut = chain_calls & {"take", "skip", "step_by", "map_while", "take_while", "skip_while", "filter", "nth", "last", "find", "rev_take"}
        if any(b.in_cycle(c.bb) for c in fl) and cut:
            return False, "the signals are flushed from an iterator that goes through %s: a configured signal can be left out" % sorted(cut), [], b.span
        if missing:
            return False, ("OtlpInner::blocking_flush does not flush the signal(s) %s: flush would report success while "
                           "their requests are still queued" % missing), [], b.span
        # a configured signal is flushed unconditionally: on every true-returning path, a signal found configured (Some edge of its field)
        # has had its flush called - no time-budget or other test may skip it and still report success
        flush_of = {}
        for c in fl:
            o = b.origin(c.args[0])
            for fname in sig_fields:
                if any(fname == n for n in (mir.o_field_path(x)[1][:1] for x in [o]) for n in n) or fname in o_str(o):
                    flush_of.setdefault(fname, set()).add(c.bb)
        for rb in b.return_blocks():
            for path in b.acyclic_paths(0, rb, limit=20000):
                ps = mir.PathSummary(b, path)
                if mir.o_const_value(ps.ret()) is not True:
                    continue
                for sbb, o, vals in ps.decisions():
                    if o[0] != "discr":
                        continue
                    r_, names = mir.o_field_path(o[1])
                    if r_ is not None and r_[0] == "param" and r_[1] == 1 and names and names[0] in sig_fields and tuple(vals) in (("1",), (1,)):
                        if not (flush_of.get(names[0], set()) & set(path)):
                            return False, ("OtlpInner::blocking_flush can return true with the configured %s signal not flushed (a path through its "
                                           "Some arm skips the flush, e.g. when no time is left): success would be reported while its requests "
                                           "are unanswered" % names[0]), [], b.span
        # a failed signal flush makes the whole flush fail: every path returning true passes through all configured flushes' success edges
        for rb in b.return_blocks():
            for path in b.acyclic_paths(0, rb, limit=20000):
                ps = mir.PathSummary(b, path)
                v = mir.o_const_value(ps.ret())
                if v is True:
                    for bbx, o, vals in ps.decisions():
                        if o[0] == "call" and o[1].callee.get("name") == "blocking_flush" and mir.truthy(vals) is False:
                            pass
                    # on a true-returning path no flush result may have been false
                    for bbx, o, vals in ps.decisions():
                        so = o
                        neg = False
                        while so[0] == "unop" and so[1] == "Not":
                            so = so[2]
                            neg = not neg
                        if so[0] == "call" and so[1].callee.get("name") == "blocking_flush":
                            t = mir.truthy(vals)
                            if t is not None and (t != neg) is False:
                                return False, "flush returns true on a path where a signal's flush failed", [], b.span
        # every signal's outcome takes part in the answer: along any path, the result of each flush that ran is either tested (a decision of the
        # path) or is (part of) what the path returns - an outcome that is overwritten by the next signal's is lost
        for rb in b.return_blocks():
            for path in b.acyclic_paths(0, rb, limit=20000):
                ps = mir.PathSummary(b, path)
                on_path = [c for c in fl if c.bb in set(path)]
                if not on_path:
                    continue
                tested = set()
                for bbx, o, vals in ps.decisions():
                    for k_, v_ in common.roots(o):
                        if k_ == "callsite":
                            tested.add(v_)
                ret_roots = {v_ for k_, v_ in common.roots(ps.ret()) if k_ == "callsite"}
                # which flush outcomes does the returned value carry?  (a small interpretation of the path: an accumulator updated with `&=` / `&&`
                # keeps what it held, a plain assignment forgets it)
                env = {}
                def val(op):
                    if not isinstance(op, dict):
                        return set()
                    pl = op.get("m") or op.get("c")
                    return set(env.get(pl["l"], ())) if pl else set()
                for bbp in path:
                    for st in b.blocks[bbp]["stmts"]:
                        if st["k"] == "assign" and "p" not in st["place"]:
                            acc = set()
                            for o_ in b.rvalue_operands(st["rv"]):
                                acc |= val(o_)
                            env[st["place"]["l"]] = acc
                    t_ = b.blocks[bbp]["term"]
                    if t_["k"] == "call" and t_.get("dest") is not None and "p" not in t_["dest"]:
                        acc = set()
                        for a_ in t_["args"]:
                            acc |= val(a_)
                        if any(c.bb == bbp for c in fl):
                            acc = acc | {bbp}
                        env[t_["dest"]["l"]] = acc
                ret_roots |= set(env.get(0, ()))
                for c in on_path:
                    if c.bb not in tested and c.bb not in ret_roots:
                        return False, ("the outcome of the signal flush at %s is neither tested nor part of what OtlpInner::blocking_flush returns on a path that ran "
                                       "it (it is overwritten by a later signal's): a signal that timed out with requests unanswered does not fail the flush" % c.loc), [], c.loc
        return True, "", [c.loc for c in fl]
    _ob(chk, prefix, only, "R5:OtlpInner::blocking_flush", "every configured OTLP signal is flushed and a failed one fails the flush", otlp_flush)

    def fwd(key_ty, what):
        def f():
            b = P.impl_method(EM, key_ty, "blocking_flush")
            cs = [c for c in b.calls(normal_only=True) if c.callee.get("name") == "blocking_flush"]
            if len(cs) != 1 or b.count_on_paths({cs[0].bb}) != (1, 1):
                return False, "%s::blocking_flush must flush exactly once" % what, [], b.span
            r = b.origin(0)
            if not (r[0] == "call" and r[1].bb == cs[0].bb):
                return False, "%s::blocking_flush returns %s, not the flush result" % (what, o_str(r)), [], cs[0].loc
            if not any(common.has_root(b.origin(a), "param", 2) for a in cs[0].args):
                return False, "the caller's timeout is not passed on", [], cs[0].loc
            return True, "", [cs[0].loc]
        return f
    _ob(chk, prefix, only, "R5:FileSetInner::blocking_flush", "the file emitter's flush is the channel's blocking flush", fwd("emit_file::FileSetInner", "FileSetInner"))
    _ob(chk, prefix, only, "R5:FileSet::blocking_flush", "FileSet forwards flush", fwd("emit_file::FileSet", "FileSet"))
    _ob(chk, prefix, only, "R5:Otlp::blocking_flush", "Otlp forwards flush", fwd("emit_otlp::client::Otlp", "Otlp"))

    def worker_ok_after_sync():
        from . import c10
        return c10.sync_before_ok(P)
    _ob(chk, prefix, only, "R5:file-worker", "the file worker acknowledges a batch only after flush and sync_all", worker_ok_after_sync)

    def otlp_ok_when_drained():
        from . import c12
        return c12.ok_only_when_drained(P)
    _ob(chk, prefix, only, "R5:otlp-transport", "the OTLP transport acknowledges a batch only when no request is left", otlp_ok_when_drained)
    if only is None:
        from . import c12
        c12.send_loop_rules(chk, P, prefix + ".R5.otlp")

    def init_flush():
        out = []
        for key in ("emit::setup::Init::<TEmitter, TCtxt>::blocking_flush", "emit::setup::InitGuard::<TEmitter, TCtxt>::blocking_flush"):
            if not P.has_body(key):
                continue
            b = P.body(key)
            cs = [c for c in b.calls(normal_only=True) if c.callee.get("name") == "blocking_flush"]
            if len(cs) != 1:
                return False, "%s must flush exactly once" % key, [], b.span
            r = b.origin(0)
            if not (r[0] == "call" and r[1].bb == cs[0].bb):
                return False, "%s returns %s" % (key, o_str(r)), [], cs[0].loc
            out.append(cs[0].loc)
        if not out:
            raise mir.AnchorMissing("Init::blocking_flush")
        return True, "", out
    _ob(chk, prefix, only, "R5:Init::blocking_flush", "setup's flush forwards to the emitter and returns its result", init_flush)
