"""Decoding `format_args!` templates as the pinned nightly lowers them (`fmt::Arguments::new::<N, M>(template, args)`).

The byte encoding is documented in the toolchain's own library/core/src/fmt/mod.rs (rust-src is installed next to the
compiler this harness uses): literal pieces are length-prefixed, a placeholder is a byte with the two highest bits set
followed by optional flags (u32), width (u16), precision (u16) and arg_index (u16), a zero byte ends the template.  The
decoder fails closed (`BadTemplate`) on anything it does not recognise, so a toolchain with another encoding makes the
rules that use it report "cannot be decided" rather than pass."""
from . import mir

ZERO_PAD = 1 << 24
WIDTH = 1 << 27
PRECISION = 1 << 28
ALIGN_SHIFT = 29


class BadTemplate(Exception):
    pass


def decode(bs):
    out = []
    i = 0
    n = len(bs)
    nxt = 0
    while True:
        if i >= n:
            raise BadTemplate("template does not end with a zero byte")
        b = bs[i]
        i += 1
        if b == 0:
            if i != n:
                raise BadTemplate("bytes after the end marker")
            return out
        if b < 0x80:
            out.append(("lit", bytes(bs[i:i + b]).decode("utf-8", "replace")))
            i += b
        elif b == 0x80:
            ln = bs[i] | (bs[i + 1] << 8)
            i += 2
            out.append(("lit", bytes(bs[i:i + ln]).decode("utf-8", "replace")))
            i += ln
        elif b & 0xC0 == 0xC0:
            ph = dict(flags=None, width=None, precision=None, arg=None, width_indirect=bool(b & 0x10), precision_indirect=bool(b & 0x20))
            if b & 0x01:
                ph["flags"] = bs[i] | (bs[i + 1] << 8) | (bs[i + 2] << 16) | (bs[i + 3] << 24)
                i += 4
            if b & 0x02:
                ph["width"] = bs[i] | (bs[i + 1] << 8)
                i += 2
            if b & 0x04:
                ph["precision"] = bs[i] | (bs[i + 1] << 8)
                i += 2
            if b & 0x08:
                ph["arg"] = bs[i] | (bs[i + 1] << 8)
                i += 2
                nxt = ph["arg"] + 1
            else:
                ph["arg"] = nxt
                nxt += 1
            fl = ph["flags"] or 0
            ph["zero_pad"] = bool(fl & ZERO_PAD)
            ph["fill"] = chr(fl & 0x1FFFFF) if ph["flags"] is not None else " "
            ph["align"] = (fl >> ALIGN_SHIFT) & 3
            out.append(("ph", ph))
        else:
            raise BadTemplate("unknown template byte 0x%02x" % b)


def templates(b):
    """[(loc, decoded template, [argument operands in args-array order], [trait name per argument])] for every
    format_args! in body b."""
    out = []
    for c in b.calls(normal_only=True):
        if c.callee.get("name") != "new" or "fmt::Arguments" not in (c.callee.get("path") or c.callee.get("full") or ""):
            continue
        if len(c.args) != 2:
            continue
        t = b.origin(c.args[0], through_calls=())
        v = t[1].get("v") if t[0] == "const" and isinstance(t[1], dict) else None
        bs = v.get("bytes") if isinstance(v, dict) else None
        if bs is None:
            raise BadTemplate("template operand at %s is not a constant byte string" % c.loc)
        arr = b.origin(c.args[1])
        ops, traits = [], []
        if arr[0] == "agg":
            for a in arr[2]:
                if a[0] == "call":
                    ops.append(a[1].args[0] if a[1].args else None)
                    traits.append(a[1].callee.get("name"))
                else:
                    ops.append(None)
                    traits.append(None)
        out.append((c.loc, decode(bs), ops, traits))
    return out
