"""Rules over generated programs (configuration K4: the repository's ui test crate compiled with --tests,
type-checked and lowered to MIR, never run).  A finite sample of the 'programs' quantifier: reported as
non-exhaustive."""
import re

from . import common, mir
from .mir import o_str

MH = "emit::macro_hooks::"
LEVEL_MACROS = {"debug_span": "Debug", "info_span": "Info", "warn_span": "Warn", "error_span": "Error",
                "emit::debug_span": "Debug", "emit::info_span": "Info", "emit::warn_span": "Warn", "emit::error_span": "Error"}
WELL_KNOWN_HOOK = {"lvl": "__private_capture_as_level", "err": "__private_capture_as_error", "span_id": "__private_capture_as_span_id",
                   "span_parent": "__private_capture_as_span_id", "trace_id": "__private_capture_as_trace_id"}

_CACHE = {}


def corpus():
    if "P" not in _CACHE:
        _CACHE["P"] = mir.Program("K4")
    return _CACHE["P"]


def _macro_of(cs):
    ms = cs.term.get("macros") or []
    for m in reversed(ms):
        mm = m.rsplit("::", 1)[-1]
        if mm.endswith("span") or mm in ("emit", "evt", "props", "debug", "info", "warn", "error", "format", "tpl", "new_span"):
            return mm
    return ms[-1].rsplit("::", 1)[-1] if ms else None


def _level_of(b, op):
    """Some(&Level::X) -> 'X'; None -> None; anything else -> '?'."""
    o = b.origin(op)
    if o[0] == "agg" and o[1].get("variant") == "None":
        return None
    if o[0] == "agg" and o[1].get("variant") == "Some":
        x = o[2][0]
        d = 0
        while x[0] in ("cast",) and d < 4:
            x = x[1]
            d += 1
        if x[0] == "agg" and (x[1].get("adt") or "").endswith("level::Level"):
            return x[1].get("variant")
        if x[0] == "const":
            dd = x[1].get("def") or ""
            if x[1].get("promoted") or "promoted" in str(x[1]):
                return "?promoted"
            return "?"
        return "?"
    return "?"


def span_expansion_rules(chk, pid):
    if chk._overlay:
        return  # the corpus is compiled in one configuration only
    P = corpus()
    chk.use_program(P)
    sites = []
    for b in P.bodies.values():
        for c in b.calls(normal_only=True):
            if c.callee.get("path") == MH + "__private_begin_span":
                sites.append((b, c))
    chk.floor("expanded #[span] sites in the ui corpus (K4)", len(sites), 40)
    bad = []
    checked = 0
    lvl_checked = 0
    for b, c in sites:
        res = c.dest["l"] if c.dest and "p" not in c.dest else None
        # frame = result.1 is the receiver of Frame::call / Frame::in_future
        users = [x for x in b.calls(normal_only=True) if (x.callee.get("path") or "") in ("emit::frame::Frame::<C>::call", "emit::frame::Frame::<C>::in_future")]
        mine = []
        for u in users:
            ro = b.origin(u.args[0])
            r, names = mir.o_field_path(ro)
            if r[0] == "call" and r[1].bb == c.bb and names[-1:] == ["1"]:
                mine.append(u)
        if len(mine) != 1:
            # a `guard`-less manual form may keep the frame: only flag when the frame is dropped without running anything
            bad.append((b, c, "the frame returned by __private_begin_span is not the receiver of exactly one Frame::call / in_future (found %d)" % len(mine)))
            continue
        u = mine[0]
        clo = b.origin(u.args[1])
        if clo[0] != "agg" or clo[1].get("ak") not in ("closure", "coroutine", "coroutine_closure"):
            bad.append((b, u, "the span body is not a closure / async block literal"))
            continue
        caps = list(zip(clo[1].get("fields") or [], clo[2], clo[1].get("by_ref") or []))
        g = [(n, o, br) for n, o, br in caps if mir.o_field_path(o)[0][0] == "call" and mir.o_field_path(o)[0][1].bb == c.bb and mir.o_field_path(o)[1][-1:] == ["0"]]
        if len(g) != 1:
            bad.append((b, u, "the span guard is not captured by the body closure (so scope exit, early return, ? and unwinding would not complete it there)"))
            continue
        gname, go, gbyref = g[0]
        if gbyref is True or gbyref == "true":
            bad.append((b, u, "the span guard is captured by reference, not moved into the body"))
            continue
        cb = P.bodies.get(clo[1]["def"])
        if cb is None:
            continue
        # start() first
        gcalls = [x for x in cb.calls(normal_only=True) if x.args and
                  ((cb.origin(x.args[0])[0] == "capture" and cb.origin(x.args[0])[1] == gname) or
                   (mir.o_field_path(cb.origin(x.args[0]))[0][0] == "capture" and mir.o_field_path(cb.origin(x.args[0]))[0][1] == gname))]
        starts = [x for x in gcalls if x.callee.get("name") == "start"]
        if len(starts) != 1:
            bad.append((cb, u, "SpanGuard::start is called %d times in the expanded body" % len(starts)))
            continue
        for x in gcalls:
            if x is not starts[0] and not cb.dominates(starts[0].bb, x.bb):
                bad.append((cb, x, "the guard is used (%s) before it is started" % x.callee.get("name")))
        cw = [x for x in gcalls if x.callee.get("name") in ("complete_with", "complete")]
        if cw:
            cnt = cb.count_on_paths({x.bb for x in cw})
            if cnt and cnt[1] > 1:
                bad.append((cb, cw[0], "a path completes the span more than once"))
        for x in cb.calls(normal_only=True):
            if (x.callee.get("path") or "") in ("core::mem::forget",) or "ManuallyDrop" in (x.callee.get("full") or ""):
                if x.args and common.has_root(cb.origin(x.args[0]), "capture", gname):
                    bad.append((cb, x, "the guard is leaked (mem::forget / ManuallyDrop): the span would never complete"))
        checked += 1
        # level-named macros pass their own level to the start filter and to the default completion
        mac = _macro_of(c)
        want = LEVEL_MACROS.get(mac)
        if want:
            lv = _level_of(b, c.args[3])
            lvl_checked += 1
            if lv not in (want, "?", "?promoted"):
                bad.append((b, c, "#[%s] passes level %s to the span's start filter, expected %s" % (mac, lv, want)))
            for d in b.calls(normal_only=True):
                if d.callee.get("path") == MH + "__private_complete_span" and _macro_of(d) == mac:
                    l2 = _level_of(b, d.args[2])
                    if l2 not in (want, "?", "?promoted"):
                        bad.append((b, d, "#[%s] builds its default completion with level %s (and panic level %s), expected level %s: the "
                                          "default and panic levels are swapped or lost" % (mac, l2, _level_of(b, d.args[3]), want)))
    chk.extra["corpus_span_sites_checked"] = checked
    chk.extra["corpus_level_macro_sites_checked"] = lvl_checked
    chk.floor("level-named span macro sites in the corpus", lvl_checked, 5)
    if bad:
        seen = set()
        for b, c, msg in bad[:8]:
            k = "%s.K4.span:%s:%s" % (pid, b.key, re.sub(r"[^A-Za-z0-9]+", "_", msg)[:50])
            if k in seen:
                continue
            seen.add(k)
            chk.fail(k, "expanded #[span] call sites run the body inside the span's frame with the guard moved in and started first",
                     "%s at %s: %s" % (b.key, c.loc, msg), loc=c.loc)
    else:
        chk.ok("%s.K4.span" % pid, "expanded #[span] call sites: frame is the receiver of call/in_future, guard moved into the body, started first, "
               "completed at most once per path, level macros pass their own level (%d sites)" % checked, sites=[c.loc for b, c in sites[:8]])


def _template_of_parts(P, const_key):
    b = P.bodies.get(const_key)
    if b is None:
        return None
    out = []
    # parts are built in order by Part::text / Part::hole calls
    calls = [c for c in b.calls(normal_only=True) if (c.callee.get("path") or "").startswith("emit_core::template::Part::") and
             c.callee.get("name") in ("text", "hole", "text_ref", "hole_ref", "text_str", "hole_str")]
    calls.sort(key=lambda c: c.bb)
    for c in calls:
        v = mir.o_const_value(b.origin(c.args[0]))
        if not isinstance(v, str):
            return None
        out.append(v if c.callee["name"].startswith("text") else "{" + v + "}")
    return "".join(out)


def template_rules(chk, pid):
    if chk._overlay:
        return  # the corpus is compiled in one configuration only
    P = corpus()
    chk.use_program(P)
    n = 0
    bad = []
    for b in P.bodies.values():
        for c in b.calls(normal_only=True):
            if c.callee.get("path") != MH + "__private_begin_span":
                continue
            name = mir.o_const_value(b.origin(c.args[2]))
            if not isinstance(name, str):
                continue
            # the template constant of the same expansion: passed to __private_complete_span(rt, tpl, ..)
            tpl = None
            for d in b.calls(normal_only=True):
                if d.callee.get("path") == MH + "__private_complete_span":
                    to = b.origin(d.args[1])
                    for k, v in common.roots(to):
                        if k == "const" and isinstance(v, str) and v.endswith("__TPL_PARTS"):
                            tpl = v
                    # Template::new_ref(&__TPL_PARTS)
                    if tpl is None and to[0] == "call":
                        for a in to[1].args:
                            ao = b.origin(a)
                            if ao[0] == "const" and (ao[1].get("def") or "").endswith("__TPL_PARTS"):
                                tpl = ao[1]["def"]
            if tpl is None:
                continue
            # renamed keys make the span name (identifier) and the hole (new key) differ legitimately: skip those sites
            renamed = any(x.callee.get("path") == MH + "Key::__private_key_as" for x in b.calls(normal_only=True))
            rendered = _template_of_parts(P, tpl)
            if rendered is None or renamed:
                continue
            n += 1
            norm = lambda s: re.sub(r"\{\s*([A-Za-z_][A-Za-z0-9_]*)[^}]*\}", r"{\1}", s.replace("{{", "\x00").replace("}}", "\x01"))
            if norm(rendered) != norm(name).replace("\x00", "{").replace("\x01", "}") and norm(rendered) != norm(name):
                bad.append((b, c, "span name %r but template parts render as %r" % (name, rendered)))
    chk.floor("span sites with a recoverable template constant (K4)", n, 20)
    if bad:
        b, c, msg = bad[0]
        chk.fail("%s.K4.tpl:%s" % (pid, b.key), "macro-generated templates denote the literal they were written as", "%s at %s: %s" % (b.key, c.loc, msg), loc=c.loc)
    else:
        chk.ok("%s.K4.tpl" % pid, "for %d expanded span sites the text/hole parts of the generated template concatenate to the span's literal" % n,
               sites=["%d sites" % n])


def _elements(b, c):
    o = b.origin(c.args[0])
    if o[0] != "agg":
        return []
    return o[2]


def capture_rules(chk, pid):
    if chk._overlay:
        return  # the corpus is compiled in one configuration only
    P = corpus()
    chk.use_program(P)
    n = 0
    wk = 0
    bad = []
    for b in P.bodies.values():
        for c in b.calls(normal_only=True):
            if not (c.callee.get("name") == "from_array" and "__PrivateMacroProps" in (c.callee.get("full") or "")):
                continue
            for el in _elements(b, c):
                if el[0] != "agg" or len(el[2]) != 2:
                    continue
                ko, vo = el[2]
                key = None
                x = ko
                d = 0
                while x[0] == "call" and d < 6:
                    if x[1].callee.get("name") == "__private_key_as" and len(x[1].args) > 1:
                        v = mir.o_const_value(x[1].body.origin(x[1].args[1]))
                        if isinstance(v, str):
                            key = v
                            break
                    x = x[1].body.origin(x[1].args[0])
                    d += 1
                if key is None:
                    for k, v in common.roots(ko):
                        if k == "const" and isinstance(v, str):
                            key = v
                if key is None:
                    continue
                # the capture closure: argument of __private_optional_map_*
                hook = None
                x = vo
                d = 0
                while x[0] == "call" and d < 8:
                    nm = x[1].callee.get("name") or ""
                    if nm.startswith("__private_optional_map") and len(x[1].args) > 1:
                        clo = x[1].body.origin(x[1].args[1])
                        if clo[0] == "agg" and clo[1].get("ak") == "closure":
                            cb = P.bodies.get(clo[1]["def"])
                            if cb is not None:
                                hs = [y.callee.get("name") for y in cb.calls(normal_only=True) if (y.callee.get("name") or "").startswith("__private_capture")]
                                if len(hs) == 1:
                                    hook = hs[0]
                        break
                    x = x[1].body.origin(x[1].args[0])
                    d += 1
                if hook is None:
                    continue
                n += 1
                if key in WELL_KNOWN_HOOK:
                    wk += 1
                    if hook == "__private_capture_as_default":
                        bad.append((b, c, "the well-known key `%s` is captured with the default hook instead of %s: it would lose its "
                                          "typed form (level / id / error)" % (key, WELL_KNOWN_HOOK[key])))
                else:
                    if hook in ("__private_capture_as_level", "__private_capture_as_span_id", "__private_capture_as_trace_id") and False:
                        pass
    chk.floor("macro-built key/value elements with a recoverable key and capture hook (K4)", n, 80)
    chk.floor("well-known keys among them", wk, 10)
    if bad:
        b, c, msg = bad[0]
        chk.fail("%s.K4.capture:%s" % (pid, b.key), "well-known keys select their typed capture hook", "%s at %s: %s" % (b.key, c.loc, msg), loc=c.loc)
    else:
        chk.ok("%s.K4.capture" % pid, "in %d macro-built elements (%d with well-known keys) no well-known key falls back to the default capture" % (n, wk),
               sites=["%d elements" % n])
