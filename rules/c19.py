"""C19 — captured values keep their type and structure from call site to sink.

Only the in-repository *dispatch* is decided: which capture trait each macro hook calls, which Value constructor
each capture trait calls, which value-bag constructor each Value constructor calls, how optionals are mapped and
skipped, that Value/OwnedValue forward serialisation to the bag, and that buffering into the ambient context never
re-interprets a value.  The fidelity of value-bag / sval / serde bridging lives in dependencies and is not decided."""
import re

from . import common, mir
from .mir import o_str

HOOK = "emit::macro_hooks::__PrivateCaptureHook::"
MH = "emit::macro_hooks::"

HOOK_TRAIT = {
    "__private_capture_as_default": "CaptureWithDefault",
    "__private_capture_as_display": "CaptureAsDisplay",
    "__private_capture_anon_as_display": "CaptureAsAnonDisplay",
    "__private_capture_as_debug": "CaptureAsDebug",
    "__private_capture_anon_as_debug": "CaptureAsAnonDebug",
    "__private_capture_as_value": "CaptureAsValue",
    "__private_capture_anon_as_value": "CaptureAsAnonValue",
    "__private_capture_as_sval": "CaptureAsSval",
    "__private_capture_anon_as_sval": "CaptureAsAnonSval",
    "__private_capture_as_serde": "CaptureAsSerde",
    "__private_capture_anon_as_serde": "CaptureAsAnonSerde",
    "__private_capture_as_error": "CaptureAsError",
    "__private_capture_as_level": "CaptureLevel",
    "__private_capture_as_span_id": "CaptureSpanId",
    "__private_capture_as_trace_id": "CaptureTraceId",
}
TRAIT_CTOR = {
    "CaptureWithDefault": "capture_display",
    "CaptureAsDisplay": "capture_display",
    "CaptureAsAnonDisplay": "from_display",
    "CaptureAsDebug": "capture_debug",
    "CaptureAsAnonDebug": "from_debug",
    "CaptureAsSval": "capture_sval",
    "CaptureAsAnonSval": "from_sval",
    "CaptureAsSerde": "capture_serde",
    "CaptureAsAnonSerde": "from_serde",
    "CaptureAsError": "capture_error",
    "CaptureAsValue": "to_value",
    "CaptureAsAnonValue": "to_value",
}


OVERLAYS = ('K2b',)


def run(chk):
    P = mir.Program("K1")
    chk.use_program(P)
    chk.explain("R1 mode table read from resolved callees: every __private_capture[_anon]_as_X hook calls the capture trait of the "
                "same mode; every blanket `impl CaptureX for T` calls the Value constructor of that mode (capture_* keeps the "
                "type id, from_* is anonymous), impls for concrete types use to_value; every Value::capture_*/from_* calls the "
                "like-named value-bag constructor; R3 optional hooks are into_option().and_then(map), Capture* for Option<T> is "
                "as_ref().and_then(capture), and macro-built props *skip* a None entry and continue; R4 Value and OwnedValue "
                "forward sval/serde/Debug/Display to the bag; buffering into the thread-local ambient context only downcasts "
                "(TraceId/SpanId fast path) or to_shared()s, never parses or formats. Thorough: macro call-site corpus (K4): the "
                "hook chosen per well-known key / attribute.")
    chk.trust("rustc nightly; value-bag, sval, serde bridging (dependencies, not analysed)")
    chk.assume("everything the property says about what consumers *see* through value-bag/sval/serde is not decided")
    chk.exhaustive = True

    # ---- R1a: hooks -> traits -----------------------------------------------------------------------------------------
    n = 0
    for hook, tr in HOOK_TRAIT.items():
        def f(hook=hook, tr=tr):
            b = P.body(HOOK + hook)
            cs = [c for c in b.calls(normal_only=True) if c.callee.get("name") == "capture"]
            if len(cs) != 1 or b.count_on_paths({cs[0].bb}) != (1, 1):
                return False, "%s must call exactly one capture trait" % hook, [], b.span
            got = (cs[0].callee.get("trait") or "").rsplit("::", 1)[-1]
            if got != tr:
                return False, "%s dispatches to %s::capture; its mode is %s" % (hook, got, tr), [], cs[0].loc
            if not mir.o_is_param(b.origin(cs[0].args[0]), idx=1):
                return False, "captures %s, not self" % o_str(b.origin(cs[0].args[0])), [], cs[0].loc
            r = b.origin(0)
            if not (r[0] == "call" and r[1].bb == cs[0].bb):
                return False, "returns %s" % o_str(r), [], cs[0].loc
            return True, "", [cs[0].loc]
        if P.has_body(HOOK + hook):
            n += 1
            chk.ob("C19.R1.hook:%s" % hook, "the macro hook dispatches to the capture trait of its own mode", f)
    chk.floor("capture hooks", n, 13)

    # ---- R1b: traits -> Value constructors ------------------------------------------------------------------------------
    n = 0
    for tr, ctor in TRAIT_CTOR.items():
        impls = [b for b in P.find(trait=MH + tr, method="capture") if not b.is_closure]
        for b in impls:
            n += 1

            def f(b=b, tr=tr, ctor=ctor):
                cs = [c for c in b.calls(normal_only=True) if c.callee.get("name") not in ("deref",)]
                names = [c.callee.get("name") for c in cs]
                generic = (b.self_ty or "") == "T"
                want = ctor if generic else "to_value"
                if generic and want not in names:
                    return False, ("`impl %s for T` builds the value with %s; mode %s must use Value::%s (capture_* preserves the "
                                   "concrete type for downcasting, from_* is the anonymous form)" % (tr, names, tr, want)), [], b.span
                if not generic and "to_value" not in names and want not in names:
                    return False, "`impl %s for %s` builds the value with %s" % (tr, b.self_ty, names), [], b.span
                others = [nm for nm in names if nm and (nm.startswith("capture_") or nm.startswith("from_")) and nm != want]
                if others:
                    return False, "`impl %s for %s` also uses %s" % (tr, b.self_ty, others), [], b.span
                c0 = [c for c in cs if c.callee.get("name") in (want, "to_value")][0]
                if not common.has_root(b.origin(c0.args[0]), "param", 1):
                    return False, "the value captured is %s, not self" % o_str(b.origin(c0.args[0])), [], c0.loc
                r = b.origin(0)
                if not (r[0] == "agg" and r[1].get("variant") == "Some" and common.has_root(r, "callsite", c0.bb)):
                    return False, "capture returns %s, not Some(captured value)" % o_str(r), [], b.span
                return True, "", [c0.loc]
            chk.ob("C19.R1.impl:%s for %s" % (tr, b.self_ty), "the capture impl uses the Value constructor of its mode", f, loc=b.span)
    chk.floor("capture trait impls", n, 20)

    # ---- R1c: Value constructors -> value-bag --------------------------------------------------------------------------------
    n = 0
    for k, b in sorted(P.bodies.items()):
        m = re.match(r"^emit_core::value::Value::<'v>::((capture|from)_(display|debug|sval|serde|error|any))$", k)
        if not m:
            m2 = re.match(r"^emit_core::value::.*Value::<'v>::((capture|from)_(display|debug|sval|serde|error))$", k)
            if not m2:
                continue
            m = m2
        nm = m.group(1)
        n += 1

        def f(b=b, nm=nm):
            cs = [c for c in b.calls(normal_only=True) if "ValueBag" in (c.callee.get("full") or "") or "value_bag" in (c.callee.get("path") or "")]
            names = [c.callee.get("name") for c in cs]
            want = nm
            if nm == "from_any":
                tv = [c for c in b.calls(normal_only=True) if c.callee.get("name") == "to_value"]
                if len(tv) != 1:
                    return False, "Value::from_any must be value.to_value()", [], b.span
                return True, "", [tv[0].loc]
            # value-bag versions its framework bridges (capture_serde1, capture_sval2)
            if not any(re.fullmatch(re.escape(want) + r"\d?", a or "") for a in names):
                return False, "Value::%s builds its bag with %s, not ValueBag::%s" % (nm, names, want), [], b.span
            return True, "", [c.loc for c in cs]
        chk.ob("C19.R1.bag:Value::%s" % nm, "the Value constructor uses the like-named value-bag constructor", f, loc=b.span)
    chk.floor("Value capture constructors", n, 8)

    # ---- R3 optional --------------------------------------------------------------------------------------------------------
    for nm in ("__private_optional_map_some", "__private_optional_map_option_ref"):
        def f(nm=nm):
            ks = [k for k in P.bodies if k.endswith("__PrivateOptionalMapHook<'a>>::%s" % nm)]
            if not ks:
                raise mir.AnchorMissing(nm)
            b = P.body(ks[0])
            r = b.origin(0)
            if not (mir.o_is_call(r, name="and_then") and mir.o_is_call(b.origin(r[1].args[0]), name="into_option")
                    and mir.o_is_param(b.origin(r[1].args[1]), idx=2)):
                return False, "%s is %s, not self.into_option().and_then(map): None must stay None" % (nm, o_str(r)), [], b.span
            return True, "", [b.span]
        chk.ob("C19.R3:%s" % nm, "an optional capture maps Some through the capture and keeps None as None", f)

    n = 0
    for tr in ("CaptureSpanId", "CaptureTraceId", "CaptureLevel"):
        for b in P.find(trait=MH + tr, method="capture"):
            if b.is_closure or not (b.self_ty or "").startswith("core::option::Option<"):
                continue
            n += 1

            def f(b=b, tr=tr):
                r = b.origin(0)
                if not (mir.o_is_call(r, name="and_then")):
                    return False, "`impl %s for Option<T>` returns %s, not as_ref().and_then(capture)" % (tr, o_str(r)), [], b.span
                return True, "", [b.span]
            chk.ob("C19.R3:%s for Option<T>" % tr, "Option<T> captures as the inner capture or nothing", f)
    chk.floor("Capture* for Option<T> impls", n, 3)

    # ---- the attribute -> hook table of the proc-macro crate (macros/src/lib.rs::hooks) ------------------------------------------
    def hook_table():
        from . import quotes
        hb = P.body("emit_macros::hooks")
        ins = [c for c in hb.calls(normal_only=True) if c.callee.get("name") == "insert" and "HashMap" in (c.callee.get("path") or "")]
        rows = 0
        sites = []
        for c in ins:
            attr = mir.o_const_value(hb.origin(c.args[1]))
            clo = hb.origin(c.args[2])
            while clo[0] == "cast":
                clo = clo[1]
            if clo[0] != "agg" or clo[1].get("ak") != "closure" or not isinstance(attr, str):
                return False, "an entry of the attribute table is not (literal name, closure) (idiom not recognised)", [], c.loc
            cb = P.body(clo[1]["def"])
            ca = [x for x in cb.calls(normal_only=True) if x.callee.get("name") == "capture_as"]
            if not ca:
                continue   # fmt / key / optional: not capture modes
            if len(ca) != 1:
                return False, "the `%s` entry calls capture_as %d times" % (attr, len(ca)), [], cb.span
            x = ca[0]
            nm = mir.o_const_value(cb.origin(x.args[0]))
            if nm != attr:
                return False, "the `%s` attribute is expanded as `%s`" % (attr, nm), [], x.loc
            ids = quotes.stream_idents(cb)
            got = []
            for a in x.args[3:5]:
                sid = quotes.operand_stream(cb, a)
                got.append((ids.get(sid) or [None])[-1])
            mode = attr[len("as_"):] if attr.startswith("as_") else attr
            want = ("__private_capture_as_%s" % mode, "__private_capture_anon_as_%s" % mode)
            if mode == "error":
                want = ("__private_capture_as_error", "__private_capture_as_error")
            if tuple(got) != want:
                return False, ("#[emit::%s] expands to the capture hooks %s; the attribute's mode must select %s (inspecting, anonymous): "
                               "otherwise a value captured with this attribute is seen downstream through another mode's formatting"
                               % (attr, got, list(want))), [], x.loc
            rows += 1
            sites.append(x.loc)
        if rows < 6:
            raise mir.AnchorMissing("capture rows of emit_macros::hooks (found %d)" % rows)
        return True, "", sites
    chk.ob("C19.R2:attribute-table", "each #[emit::as_*] attribute expands to the capture hooks of its own mode (inspecting and anonymous flavour)", hook_table)

    def typed_out_of_value():
        """Typed conversions out of Value (numbers, bool, &str, String, Cow<str>) are the bag's own TryInto - the conversion that knows every
        carrier (captured, serde/sval-backed, owned, shared) - and all sibling impls agree."""
        n = 0
        for b in P.find(trait="emit_core::value::FromValue", method="from_value"):
            if b.is_closure or b.crate != "emit_core" or not b.file.endswith("value.rs"):
                continue
            st = b.self_ty or ""
            if st.startswith("emit_core::value::Value") or "dyn core::error::Error" in st:
                continue
            n += 1
            names = [c.callee.get("name") for c in b.calls(normal_only=True)]
            if names != ["try_into", "ok"]:
                return False, ("`impl FromValue for %s` converts through %s instead of the wrapped bag's try_into(): carriers other than a plain "
                               "borrowed value (serde/sval-captured strings, owned or shared copies) would no longer convert, so pull::<%s>() "
                               "disagrees with what every other consumer sees" % (st, names, st.split("::")[-1])), [], b.span
            c = b.calls(normal_only=True)[0]
            root, fp = mir.o_field_path(b.origin(c.args[0]))
            if fp != ["0"] or root is None or not mir.o_is_param(root, idx=1):
                return False, "`impl FromValue for %s` does not convert the value it was given" % st, [], c.loc
        if n < 17:
            raise mir.AnchorMissing("primitive/text FromValue impls in emit_core::value (found %d)" % n)
        return True, "", ["%d sibling impls, all value.0.try_into().ok()" % n]
    chk.ob("C19.R5:typed-out-of-Value", "every typed conversion out of a Value is the bag's own TryInto; the sibling impls agree", typed_out_of_value)

    def macro_props_skip_none():
        from . import c02
        return c02.macro_skip_none(P)
    def every_attribute_evaluated():
        """The macros split a key-value's attributes into its one `#[cfg]` and the hook attributes (`#[emit::as_debug]`, `#[emit::key]`, `#[emit::fmt]` ..)
        that `eval_hooks` then applies.  Whatever reads `fv.attrs` there visits *all* of them: no iterator adaptor that can stop before the end
        (`take_while`, `map_while`, `take`, `skip*`, `nth`, `find`, `position` ..) and no way out of a loop over them except exhaustion or the
        duplicate-cfg error - an attribute written after the `#[cfg]` would be dropped and the value captured with the default hook."""
        EARLY = ("take_while", "map_while", "take", "skip", "skip_while", "step_by", "nth", "last", "find", "position", "rposition", "find_map", "rev")
        b = P.body("emit_macros::props::Props::push")
        n = 0
        for x in [b] + P.closures_of(b):
            for c in x.calls(normal_only=True):
                if not c.args:
                    continue
                o = x.origin(c.args[0])
                names = mir.o_field_path(mir.o_root(o) if o[0] in ("ref", "deref", "copy") else o)[1] or []
                rs = [str(r_) for r_ in common.roots(o)]
                touches = "attrs" in names or any("attrs" in (mir.o_field_path(x.origin(a))[1] or []) for a in c.args)
                if touches:
                    n += 1
                if c.callee.get("name") in EARLY and "iter" in (c.callee.get("trait") or c.callee.get("path") or "").lower():
                    # does the adaptor's receiver derive from fv.attrs?
                    def from_attrs(o_, d=0):
                        if d > 10:
                            return False
                        if "attrs" in (mir.o_field_path(o_)[1] or []):
                            return True
                        if o_[0] == "call" and o_[1].args:
                            return from_attrs(o_[1].body.origin(o_[1].args[0]), d + 1)
                        if o_[0] in ("ref", "deref", "copy", "field", "downcast"):
                            return from_attrs(o_[1], d + 1)
                        return False
                    if from_attrs(o):
                        return False, ("the key-value's attributes are read through Iterator::%s at %s, which can stop before the last one: an attribute written "
                                       "after the #[cfg] (as_debug, as_sval, key, fmt ..) never reaches eval_hooks and the value is captured with the default hook"
                                       % (c.callee.get("name"), c.loc)), [], c.loc
        if n < 1:
            raise mir.AnchorMissing("reads of fv.attrs in emit_macros::props::Props::push")
        # the loop over the attributes is left only on exhaustion or by returning the duplicate-cfg error
        for h in sorted({h for s_, h in b.back_edges()}):
            body = b.loop_body(h)
            nx = [c for c in b.calls(normal_only=True) if c.bb in body and c.callee.get("name") == "next"]
            if not nx or not any("attrs" in str(common.roots(b.origin(c.args[0]))) or True for c in nx):
                continue
            for u in sorted(body):
                for v in b.succ(u):
                    if v in body or b.blocks[v].get("cleanup"):
                        continue
                    t = b.blocks[u]["term"]
                    if t["k"] == "switch":
                        so = b.switch_origin(u)
                        if so[0] == "discr" and mir.o_is_call(so[1], name="next"):
                            continue
                    # any other exit must be an error return
                    rets = [mir.PathSummary(b, [u] + p_).ret() for rb in b.return_blocks() for p_ in b.acyclic_paths(v, rb, limit=50)]
                    if not rets or not all(r_[0] == "agg" and r_[1].get("variant") == "Err" for r_ in rets):
                        return False, "the loop over a key-value's attributes can be left before the last attribute without reporting an error", [], b.span
        return True, "", [b.span]
    if not getattr(chk, "_overlay", None):
        chk.ob("C19.R2:every-attribute-evaluated", "every attribute of a key-value is seen when its cfg and hook attributes are split", every_attribute_evaluated)

    if not getattr(chk, "_overlay", None):
        from . import c02
        c02.loop_exit_rule(chk, P, "C19.R3:loop-exits")
    chk.ob("C19.R3:MacroProps-skip-None", "an optional capture of None contributes no property and does not end enumeration", macro_props_skip_none)

    def macro_props_get():
        from . import c02
        b = P.impl_method("emit_core::props::Props", "emit::macro_hooks::__PrivateMacroProps<'a, N>", "get")
        return c02.macro_get(P, b)
    if not getattr(chk, "_overlay", None):
        from . import c02 as _c02
        _c02.parked_outcome_rule(chk, P, "C19.R4:parked-outcome-kept", lambda b: b.crate in ("emit_core", "emit") and "::tests::" not in b.key)
    chk.ob("C19.R3:MacroProps-get", "lookup in a macro-built collection skips None entries exactly like enumeration (an optional None contributes no property and hides nothing)", macro_props_get)

    # ---- R4 forwarding ---------------------------------------------------------------------------------------------------------
    fw = [("sval::value::Value", "stream"), ("serde::ser::Serialize", "serialize"), ("core::fmt::Debug", "fmt"), ("core::fmt::Display", "fmt"),
          ("sval_ref::ValueRef", "stream_ref")]
    n = 0
    for ty in ("emit_core::value::Value<'v>", "emit_core::value::alloc_support::OwnedValue", "emit_core::value::Value<'a>"):
        for tr, meth in fw:
            bs = [b for b in P.find(trait=tr, method=meth) if not b.is_closure and mir._strip_lifetimes(b.self_ty or "") == mir._strip_lifetimes(ty)]
            for b in bs:
                n += 1

                def f(b=b, tr=tr, meth=meth):
                    cs = [c for c in b.calls(normal_only=True) if c.callee.get("name") in (meth, "stream", "stream_ref", "serialize", "fmt")]
                    inner = [c for c in cs if mir.o_field_path(b.origin(c.args[0], through_calls=("deref", "as_ref", "by_ref")))[1][:1] == ["0"]
                             or common.has_root(b.origin(c.args[0]), "param", 1)]
                    if len(inner) != 1 and meth == "fmt" and tr.endswith("Display"):
                        bag = [c for c in cs if "ValueBag" in (c.callee.get("full") or "")]
                        if len(bag) == 1:
                            return True, "error values display their cause chain; everything else forwards to the bag", [bag[0].loc]
                    if len(inner) != 1:
                        return False, "%s::%s for %s does not forward to the wrapped bag exactly once (%s)" % (tr, meth, b.self_ty, [c.callee.get("full") for c in cs]), [], b.span
                    r = b.origin(0)
                    if b.local_ty(0) != "()" and not common.has_root(r, "callsite", inner[0].bb):
                        return False, "the bag's result is not returned", [], inner[0].loc
                    return True, "", [inner[0].loc]
                chk.ob("C19.R4.forward:<%s as %s>::%s" % (b.self_ty, tr, meth), "Value/OwnedValue forward serialisation and formatting to the wrapped bag", f, loc=b.span)
    chk.floor("forwarding serialisation impls of Value/OwnedValue", n, 6)

    def tlv_no_reinterpretation():
        b = P.body("emit::platform::thread_local_ctxt::ThreadLocalValue::from_value")
        bodies = [b] + P.closures_of(b)
        for x in bodies:
            for c in x.calls(normal_only=True):
                nm = c.callee.get("name") or ""
                if nm in ("parse", "to_string", "to_cow_str", "to_borrowed_str", "cast", "try_from_hex", "try_from_str", "from_str") \
                        or nm.startswith("capture_") or nm.startswith("from_display") or nm.startswith("from_debug"):
                    return False, ("buffering a value into the ambient context calls %s at %s: a value must only be recognised by its "
                                   "type (downcast) or copied structurally (to_shared); parsing/formatting re-interprets numbers and "
                                   "strings that merely look like ids" % (c.callee.get("full"), c.loc)), [], c.loc
        ts = [c for x in bodies for c in x.calls(normal_only=True) if c.callee.get("name") == "to_shared"]
        if len(ts) != 1:
            return False, "the fallback must be exactly one to_shared()", [], b.span
        return True, "", [ts[0].loc]
    chk.ob("C19.R4:ambient-buffering", "values buffered in the ambient context are downcast or shared, never parsed or formatted", tlv_no_reinterpretation)
    # a value only survives buffering if it is buffered at all: the frame construction rules of the thread-local context (every pushed pair
    # is inserted, on every path, into the snapshot that becomes the frame)
    if not getattr(chk, "_overlay", None):
        from . import c03
        c03.thread_local_rules(chk, P, "C19.tl")

    def owned_conversions():
        out = []
        for k in ("emit_core::value::Value::<'v>::to_owned", "emit_core::value::Value::<'v>::to_shared"):
            ks = [x for x in P.bodies if mir._strip_lifetimes(x).endswith(mir._strip_lifetimes(k.split("::<'v>")[1])) and "value::" in x and "Value" in x]
            for kk in ks:
                b = P.body(kk)
                cs = [c for c in b.calls(normal_only=True) if c.callee.get("name") in ("to_owned", "to_shared")]
                if not cs:
                    return False, "%s does not use the bag's structural copy" % kk, [], b.span
                out.append(cs[0].loc)
        if not out:
            raise mir.AnchorMissing("Value::to_owned / to_shared")
        return True, "", out
    chk.ob("C19.R4:owned-copies", "owned/shared copies are the bag's structural to_owned/to_shared", owned_conversions)

    def eval_hooks_accumulates():
        """Stacked attributes (`#[emit::as_debug] #[emit::key("k")] x`) are applied one after another: each hook evaluator receives the
        tokens the previous one produced (a loop-carried accumulator), and what eval_hooks returns is that accumulator."""
        if not P.has_body("emit_macros::hook::eval_hooks"):
            raise mir.AnchorMissing("emit_macros::hook::eval_hooks")
        b = P.body("emit_macros::hook::eval_hooks")
        ev = [c for c in b.calls(normal_only=True) if c.callee.get("name") in ("call", "call_mut", "call_once") and b.in_cycle(c.bb)
              and mir.o_is_call(mir.o_root(b.origin(c.args[0])), name="get")]
        if len(ev) != 1:
            return False, "expected one evaluator call inside the attribute loop of eval_hooks, found %d" % len(ev), [], b.span
        c = ev[0]
        tup = b.origin(c.args[1])
        if not (tup[0] == "agg" and len(tup[2]) == 2):
            return False, "the evaluator's arguments are %s" % o_str(tup), [], c.loc
        acc = tup[2][1]

        def carried(o, d=0):
            """does the origin include (the success payload of) this very call - i.e. the previous iteration's output?"""
            if d > 12:
                return False
            if o[0] == "phi":
                return any(carried(x, d + 1) for x in o[1])
            if o[0] in ("field", "downcast", "ref", "deref", "copy"):
                return carried(o[1], d + 1)
            if o[0] == "call":
                if o[1].bb == c.bb:
                    return True
                if o[1].callee.get("name") in ("branch", "clone", "into", "from") and o[1].args:
                    return carried(b.origin(o[1].args[0]), d + 1)
            return False
        if not carried(acc):
            return False, ("each hook is evaluated on %s, not on the output of the hook before it: with two emit attributes on one "
                           "value only the last one takes effect (`#[emit::as_debug] #[emit::key(..)] x` loses the debug capture)"
                           % o_str(acc)[:160]), [], c.loc
        # the tokens returned are the accumulator
        tt = [x for x in b.calls(normal_only=True) if x.callee.get("name") == "to_tokens" and not b.in_cycle(x.bb) and carried(b.origin(x.args[0]))]
        if not tt:
            return False, "eval_hooks does not return the accumulated tokens", [], b.span
        return True, "", [c.loc, tt[0].loc]
    chk.ob("C19.R2:stacked-attributes", "stacked capture/key/optional attributes compose: each evaluator gets the previous one's output", eval_hooks_accumulates)

    def dyn_to_value():
        """A trait object captured as a value keeps its own mode: `dyn Error` stays an error (source chain), `dyn Debug` debug,
        `dyn Display` display.  The bag constructor is named after the object's trait."""
        TABLE = {"Error": "from_dyn_error", "Debug": "from_dyn_debug", "Display": "from_dyn_display"}
        ev = []
        for k, b in sorted(P.bodies.items()):
            if not (b.crate == "emit_core" and b.trait == "emit_core::value::ToValue" and b.method == "to_value"):
                continue
            m = re.match(r"^\(?dyn (?:core|std)::(?:error|fmt)::(Error|Debug|Display)\b", b.self_ty or "")
            if not m:
                continue
            cs = [c for c in b.calls(normal_only=True) if "value_bag" in (c.callee.get("path") or "") or "ValueBag" in (c.callee.get("full") or "")]
            names = [c.callee.get("name") for c in cs]
            if names != [TABLE[m.group(1)]]:
                return False, ("`impl ToValue for %s` builds its value with %s, not ValueBag::%s: the object is captured in another mode "
                               "(an erased error captured as display loses to_borrowed_error() and its source chain)"
                               % (b.self_ty, names, TABLE[m.group(1)])), [], (cs[0].loc if cs else b.span)
            ev.append("%s -> %s" % (b.self_ty, names[0]))
        if len(ev) < 3:
            raise mir.AnchorMissing("ToValue impls for dyn Error / dyn Debug / dyn Display (found %d)" % len(ev))
        return True, "", ev
    chk.ob("C19.R1:dyn-ToValue", "a trait object captured as a value uses the bag constructor of its own trait", dyn_to_value)

    def macro_arg_values():
        """Every field of a macro's parsed argument struct is the *value* of the argument (Arg::take / take_or_default / take_if_std ...
        or the literal's value), never a test of whether the argument was written: `inspect: false` must mean false."""
        n, ev = 0, []
        for k, b in sorted(P.bodies.items()):
            if not (b.crate == "emit_macros" and k.endswith("syn::parse::Parse>::parse") and not b.is_closure):
                continue
            for bb, j, st in b.statements(normal_only=True):
                rv = st.get("rv") if st["k"] == "assign" else None
                if not (rv and rv["k"] == "agg" and re.search(r"Args$", (rv.get("adt") or "").split("<")[0])):
                    continue
                for f, op in zip(rv.get("fields") or range(len(rv["ops"])), rv["ops"]):
                    n += 1
                    o = b.origin(op)
                    leaves = [o]
                    seen = 0
                    while leaves and seen < 40:
                        seen += 1
                        x = leaves.pop()
                        if x[0] == "phi":
                            leaves.extend(x[1])
                            continue
                        r = mir.o_root(x)
                        if r[0] == "call" and r[1].callee.get("name") == "branch" and r[1].args:
                            leaves.append(b.origin(r[1].args[0]))
                            continue
                        if r[0] == "call" and r[1].callee.get("name") in ("is_some", "is_none", "is_ok", "is_err", "is_empty"):
                            return False, ("%s sets `%s` from %s() at %s: the field records whether the argument was written, not its value, so "
                                           "an explicit `%s: false` turns the option on" % (k, f, r[1].callee.get("name"), r[1].loc, f)), [], r[1].loc
                        if r[0] == "const" and isinstance(mir.o_const_value(r), bool):
                            return False, "%s sets `%s` to a constant at %s:%s, ignoring the argument" % (k, f, b.file, st.get("line")), [], "%s:%s" % (b.file, st.get("line"))
                    ev.append("%s.%s" % (k.split(" as ")[0].lstrip("<"), f))
        if n < 20:
            raise mir.AnchorMissing("macro argument struct fields (found %d)" % n)
        return True, "", ["%d argument fields carry the argument's value" % n] + ev[:6]
    chk.ob("C19.R2:macro-arg-values", "macro arguments (inspect, flags, ...) take the value written, not the fact that one was written", macro_arg_values)

    common.arg_agreement_rule(chk, P, "C19", [("emit", "src/macro_hooks.rs"), ("emit_macros", "src/capture.rs"), ("emit_macros", "src/optional.rs"),
                                               ("emit_macros", "src/hook.rs"), ("emit_core", "src/value.rs")], 3)
    if True:
        from . import corpus
        corpus.capture_rules(chk, "C19")
    # "numbers keep their typed value ... via each sink": no narrowing / sign-changing cast on the way out (shared with C13)
    if not getattr(chk, "_overlay", None):
        from . import c13
        c13.lossless_casts_rule(chk, P, "C19.R5:lossless-int-casts")
    return chk
