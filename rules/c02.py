"""C02 — property lookup agrees with enumeration; the first value for a key wins.

Structural clauses decided: visitor discipline of every `impl Props::for_each` (a Break is honoured),
coherence of every `get`/`pull`/`is_unique` override with enumeration, the default `get` being
first-match, uniqueness claims only where the backing store cannot hold a key twice, first-wins
de-duplication, the erased bridge, well-known keys of views enumerated before inner props, and the
order-independence of lookup in macro-built collections."""
import re

from . import common, mir
from .mir import o_str

PROPS = "emit_core::props::Props"


_P = None


def is_visitor_call(body, cs):
    """A call of the visitor closure (param 2 of for_each, or a captured visitor in a nested closure)
    or of Props::for_each on some inner collection."""
    c = cs.callee
    if c.get("trait") == PROPS and c.get("name") in ("for_each",):
        return "for_each"
    if c.get("name") == "dispatch_for_each":
        return "for_each"
    if "indirect" in c:
        o = body.origin(c["op"])
    elif c.get("name") in ("call_mut", "call", "call_once") and cs.args:
        o = body.origin(cs.args[0])
    else:
        return None
    r, _ = mir.o_field_path(o)
    if r[0] == "param" and r[1] == 2 and not body.is_closure:
        return "visitor"
    if r[0] == "capture" and _P is not None and common.root_param(_P, body, r) == 2:
        return "visitor"   # the visitor parameter of the enclosing for_each, captured by a nested closure (by position, not by name)
    if r[0] == "param" and r[1] == 2 and body.is_closure and False:
        return None
    return None


def closure_is_const_continue(P, body, op):
    """The operand is a closure literal whose every return is ControlFlow::Continue."""
    o = body.origin(op)
    if o[0] != "agg" or o[1].get("ak") != "closure":
        return False
    cb = P.bodies.get(o[1]["def"])
    if cb is None:
        return False
    for rb in cb.return_blocks():
        for path in cb.acyclic_paths(0, rb, limit=2000):
            r = mir.PathSummary(cb, path).ret()
            if not (r[0] == "agg" and r[1].get("variant") == "Continue"):
                return False
    return True


def respects_break(P, body, cs, visitor_sites):
    """The ControlFlow returned by a visitor-ish call is either returned or `?`-propagated such that
    no further visitor call can follow a Break.  Returns (ok, detail)."""
    dest = cs.dest
    if dest is None or "p" in dest:
        return False, "result stored in a projection (idiom not recognised)"
    d = dest["l"]
    if d == 0:
        # tail call: returned directly; nothing may follow
        after = body.reachable_from(cs.term["t"]) if "t" in cs.term else set()
        later = [v for v in visitor_sites if v.bb in after]
        if later:
            return False, "its result is assigned to the return place but another visitor call follows at %s" % later[0].loc
        return True, "returned"
    al = body.value_aliases(d)
    consumers = []
    for a in al:
        for (bb, j, kind, obj) in body.uses(a):
            if kind == "call" and obj["callee"].get("name") == "branch":
                consumers.append(("branch", bb, obj))
            elif kind == "stmt" and obj["rv"]["k"] == "discr":
                consumers.append(("discr", bb, obj))
            elif kind == "stmt" and obj["rv"]["k"] == "use" and "p" not in obj["place"] and obj["place"]["l"] == 0:
                consumers.append(("ret", bb, obj))
    if 0 in al:
        consumers.append(("ret", cs.bb, None))
    if not consumers:
        return False, ("the ControlFlow it returns is ignored (never branched on, never returned): a visitor that "
                       "asks to stop is called again")
    for kind, bb, obj in consumers:
        if kind == "ret":
            continue
        if kind == "branch":
            bl = obj["dest"]["l"]
            discr_sites = [(b2, s2) for (b2, j2, k2, s2) in body.uses(bl) if k2 == "stmt" and s2["rv"]["k"] == "discr"]
        else:
            discr_sites = [(bb, obj)]
        found = False
        for b2, s2 in discr_sites:
            dl = s2["place"]["l"]
            for (b3, j3, k3, t3) in body.uses(dl):
                if k3 != "switch":
                    continue
                found = True
                brk = [n for v, n in t3["targets"] if v == "1"]
                if not brk:
                    # Break falls into otherwise
                    if any(v == "0" for v, n in t3["targets"]):
                        brk = [t3["otherwise"]]
                for n in brk:
                    region = body.reachable_from(n)
                    later = [v for v in visitor_sites if v.bb in region]
                    if later:
                        return False, "after a Break from this call the visitor can still be called at %s" % later[0].loc
        if not found:
            return False, "branch result is not matched on (idiom not recognised)"
    return True, "propagated"


OVERLAYS = ('K2b',)


def macro_get(P, b):
    """Lookup of a macro-built collection (shared with C19: an optional None contributes no property)."""
    bodies = [b] + P.closures_of(b)
    for body in bodies:
        bs = [c for c in body.calls(normal_only=True)
              if re.search(r"binary_search|partition_point", c.callee.get("name") or "")]
        if bs:
            return False, ("lookup in a macro-built collection uses %s: the array is sorted by identifier at "
                           "expansion time but #[emit::key] renames keys afterwards, so order-dependent "
                           "search misses renamed keys" % bs[0].callee.get("name")), [], bs[0].loc
    # must compare keys (Str eq) somewhere and return a value rooted in self
    eqs = [c for body in bodies for c in body.calls(normal_only=True) if c.callee.get("name") in ("eq", "ne", "cmp")]
    if not eqs:
        return False, "no key comparison found in the lookup", [], b.span
    # enumeration skips entries whose optional value is None; a boolean selector (find/position/any/filter) must
    # skip them too, or a None entry renamed onto the same key hides a later Some entry from get() while
    # for_each still shows it
    for body in bodies:
        for c in body.calls(normal_only=True):
            if c.callee.get("name") not in ("find", "rfind", "position", "rposition", "any", "filter", "skip_while", "take_while"):
                continue
            clo = body.origin(c.args[-1])
            if clo[0] != "agg" or clo[1].get("ak") != "closure":
                return False, "selector %s is not given a closure literal (idiom not recognised)" % c.callee.get("name"), [], c.loc
            cb = P.body(clo[1]["def"])
            for rb in cb.return_blocks():
                for path in cb.acyclic_paths(0, rb, limit=2000):
                    ps = mir.PathSummary(cb, path)
                    if mir.o_const_value(ps.ret()) is False:
                        continue
                    present = False
                    for sbb, o, vals in ps.decisions():
                        oo = o
                        if oo[0] == "call" and oo[1].callee.get("name") == "is_some" and tuple(vals) not in (("0",), (0,)):
                            present = True
                        if oo[0] == "call" and oo[1].callee.get("name") == "is_none" and tuple(vals) in (("0",), (0,)):
                            present = True
                        if oo[0] == "discr" and tuple(vals) in (("1",), (1,)) and "Option" in str(cb._op_ty(cb.blocks[sbb]["term"]["discr"]) or "Option"):
                            present = True
                    if not present:
                        return False, ("the lookup selects an entry by key alone (%s at %s): an #[emit::optional] entry that is None "
                                       "and shares its final key with a later entry makes get() return nothing while enumeration "
                                       "still yields the later value" % (c.callee.get("name"), c.loc)), [], c.loc
    return True, "", [c.loc for c in eqs]


def macro_skip_none(P):
    """Enumeration of a macro-built collection: an entry whose optional value is None is skipped - not passed on, not the end of the loop."""
    b = P.impl_method("emit_core::props::Props", "emit::macro_hooks::__PrivateMacroProps<'a, N>", "for_each")
    # the decision on an entry's value being None must lead back into the loop, not out of it
    found = False
    for bb, t in b.switches():
        so = b.switch_origin(bb)
        if so[0] != "discr":
            continue
        names = mir.o_field_path(so[1])[1]
        x = so[1]
        while x[0] in ("field", "downcast", "index"):
            x = x[1]
        if "1" not in names:
            continue
        if not b.in_cycle(bb):
            continue
        found = True
        none_targets = [tgt for v, tgt in t["targets"] if v == "0"] or [t["otherwise"]]
        for nt in none_targets:
            # from the None edge the loop header (the next() call) must be reachable, i.e. iteration continues
            hdrs = [h for s_, h in b.back_edges() if bb in b.loop_body(h)]
            if not hdrs or not any(h in b.reachable_from(nt) for h in hdrs):
                return False, ("when an entry's value is None (an #[emit::optional] capture of None) enumeration leaves the loop "
                               "instead of skipping the entry: every property after it disappears from for_each"), [], "%s:%s" % (b.file, t.get("line"))
            # and no visitor call on the None edge before looping
            for c in b.calls(normal_only=True):
                if c.callee.get("name") in ("call_mut", "call") and c.bb in b.reachable_from(nt) and not any(
                        c.bb in b.reachable_from(h) for h in hdrs if h in b.reachable_from(nt)):
                    return False, "a None entry is passed to the visitor", [], c.loc
    if not found:
        return False, "no per-entry test of the optional value found in the enumeration loop", [], b.span
    return True, "", [b.span]


def break_only_from_visitor_rule(chk, P, key):
    """`Break` means *the visitor asked to stop*: no `Props::for_each` impl manufactures one.  Every `ControlFlow::Break` an impl body constructs itself
    (outside `?`, which hands on the visitor's own) sits behind the Break edge of a visitor / inner-enumeration result; an impl that answers Break for an
    absent optional part, an empty collection or any other reason of its own makes every enclosing `and_props` / array stop enumerating there, while
    lookups still find the later keys."""
    def f():
        n, ev = 0, []
        for fb in P.find(trait=PROPS, method="for_each"):
            if fb.is_closure:
                continue
            n += 1
            for bb, j, st in fb.statements(normal_only=True):
                if not (st["k"] == "assign" and st["rv"]["k"] == "agg" and st["rv"].get("variant") == "Break" and (st["rv"].get("adt") or "").endswith("ControlFlow")):
                    continue
                ok = False
                for g, vals, tgt in fb.guards_of(bb):
                    so = fb.switch_origin(g)
                    x = so[1] if so[0] == "discr" else so
                    while x[0] in ("field", "downcast", "copy", "ref", "deref"):
                        x = x[1]
                    if x[0] == "call" and x[1].callee.get("name") in ("call_mut", "call", "call_once", "for_each", "branch", "is_break", "is_continue"):
                        ok = True
                if not ok:
                    return False, ("%s answers ControlFlow::Break at %s:%s on its own account (not behind a Break from the visitor or an inner enumeration): "
                                   "enumeration of every enclosing collection stops there although nothing asked it to" % (fb.key, fb.file, st.get("line"))), [], "%s:%s" % (fb.file, st.get("line"))
                ev.append("%s:%s" % (fb.file, st.get("line")))
        if n < 20 and not getattr(chk, "_overlay", None):
            raise mir.AnchorMissing("Props::for_each impls (found %d)" % n)
        return True, "", ev or ["%d impls, none constructs a Break itself" % n]
    chk.ob(key, "no Props::for_each impl answers Break unless its visitor (or an inner enumeration) did", f)


def parked_outcome_rule(chk, P, key, select):
    """Where a visitor closure handed to `for_each` parks the outcome of a fallible step in a captured slot (to report it after the enumeration), the
    first failure must stay there: the closure either stores only on the Err edge, or stops the enumeration (returns Break) when the stored outcome is
    an Err.  A closure that overwrites the slot on every entry and always continues reports the outcome of the *last* entry only - an earlier failure
    is lost and the half-written entry is reported as success."""
    def f():
        n, ev = 0, []
        for k, b in sorted(P.bodies.items()):
            if not select(b):
                continue
            for fe in [c for c in b.calls(normal_only=True) if c.callee.get("name") == "for_each" and len(c.args) >= 2]:
                cl = mir.o_root(b.origin(fe.args[1]))
                if not (cl[0] == "agg" and cl[1].get("def")):
                    continue
                cb = P.bodies.get(cl[1]["def"])
                if cb is None:
                    continue
                for bb, j, st in cb.statements(normal_only=True):
                    pl = st["place"] if st["k"] == "assign" else None
                    if not pl or pl["l"] != 1 or not pl.get("p") or st["rv"]["k"] != "use":
                        continue
                    src = st["rv"]["op"]
                    sl = cb._op_local(src)
                    ty = cb.local_ty(sl) if sl is not None else ""
                    if not re.match(r"(core::result::)?Result<", ty or ""):
                        continue
                    o = cb.origin(src)
                    if o[0] == "agg":           # `slot = Err(e)` / `slot = Some(e)` built on an inspected edge
                        continue
                    n += 1
                    guarded = any(cb.switch_origin(g)[0] == "discr" for g, vals, tgt in cb.guards_of(bb)
                                  if "Result" in o_str(cb.switch_origin(g)) or cb.switch_origin(g)[0] == "discr")
                    breaks = [1 for b2, j2, s2 in cb.statements(normal_only=True) if s2["k"] == "assign" and s2["rv"]["k"] == "agg"
                              and s2["rv"].get("variant") == "Break" and (s2["rv"].get("adt") or "").endswith("ControlFlow")]
                    passes_on = any(c2.callee.get("name") in ("branch", "from_residual") for c2 in cb.calls(normal_only=True))
                    if not guarded and not breaks and not passes_on:
                        return False, ("the visitor closure of %s stores the outcome of %s into a captured slot on every entry and always continues: a failed entry is "
                                       "overwritten by the next successful one, so the enumeration's result is that of the last entry only and a half-written "
                                       "entry is reported as success" % (b.key, o_str(o)[:80])), [], "%s:%s" % (cb.file, st.get("line"))
                    ev.append("%s:%s" % (cb.file, st.get("line")))
        return True, "", ev or ["no visitor parks a Result in a captured slot unconditionally (%d stores examined)" % n]
    chk.ob(key, "a visitor that parks a fallible step's outcome keeps the first failure (stores on Err only, or breaks)", f)


def no_truncating_adaptors_rule(chk, P, key):
    def no_truncating_adaptors():
        EARLY = ("map_while", "take_while", "take", "scan", "step_by", "nth", "last", "min", "max", "find", "position", "any", "all")
        n = 0
        for fb in P.find(trait=PROPS, method="for_each"):
            if fb.is_closure:
                continue
            n += 1
            for x in [fb] + P.closures_of(fb):
                for c in x.calls(normal_only=True):
                    if c.callee.get("name") in EARLY and "iter" in (c.callee.get("trait") or c.callee.get("path") or "").lower():
                        return False, ("%s enumerates through Iterator::%s at %s, which can end the iteration before every property was visited "
                                       "(e.g. at the first None of an optional capture): later properties would be found by get() but never "
                                       "enumerated" % (fb.key, c.callee.get("name"), c.loc)), [], c.loc
        if n < 20:
            raise mir.AnchorMissing("Props::for_each impls (found %d)" % n)
        return True, "", ["%d for_each impls" % n]
    chk.ob(key, "no enumeration goes through an iterator adaptor that can stop early on its own (only the visitor's Break ends it)", no_truncating_adaptors)


def loop_exit_rule(chk, P, key):
    """An enumeration loop is left for one of two reasons only: its iterator is exhausted, or the visitor (or an inner for_each) answered
    Break.  Any other way out of the loop - `return Continue` when an entry's optional value is None, a `break` on some property of the
    entry - silently drops every later property from enumeration while lookups still find them."""
    def f():
        n = 0
        for fb in P.find(trait=PROPS, method="for_each"):
            if fb.is_closure:
                continue
            for x in [fb] + P.closures_of(fb):
                hdrs = sorted({h for s_, h in x.back_edges()})
                for h in hdrs:
                    body = x.loop_body(h)
                    nexts = [c for c in x.calls(normal_only=True) if c.bb in body and c.callee.get("name") in ("next", "next_back")]
                    if not nexts:
                        continue  # not an iterator loop (e.g. a retry loop): not an enumeration
                    n += 1
                    for u in sorted(body):
                        blk = x.blocks[u]
                        if blk.get("cleanup"):
                            continue
                        for v in x.succ(u):
                            if v in body or x.blocks[v].get("cleanup"):
                                continue
                            # the decision that takes this exit: the nearest switch in the loop that controls the edge
                            dec = None
                            w = u
                            seen = set()
                            while w is not None and w not in seen:
                                seen.add(w)
                                if x.blocks[w]["term"]["k"] == "switch":
                                    dec = w
                                    break
                                pr = [p_ for p_ in x.preds()[w] if p_ in body]
                                w = pr[0] if len(pr) == 1 else None
                            ok = False
                            why = "an unconditional exit"
                            if dec is not None:
                                so = x.switch_origin(dec)
                                o = so[1] if so[0] == "discr" else so
                                d = 0
                                projected = False
                                while d < 8 and o[0] in ("field", "downcast", "ref", "deref", "copy"):
                                    projected = projected or o[0] in ("field", "downcast")
                                    o = o[1]
                                    d += 1
                                why = mir.o_str(so)[:120]
                                if o[0] == "call":
                                    nm = o[1].callee.get("name")
                                    if nm in ("next", "next_back") and o[1].bb in body:
                                        ok = not projected   # Some/None of the iterator's answer itself, not a property of the entry it yielded
                                    elif nm in ("branch", "is_break", "is_continue"):
                                        ok = True   # `?` / a test of a ControlFlow: the visitor discipline rules decide what it was applied to
                                    elif nm in ("call_mut", "call", "call_once", "for_each", "dispatch_for_each"):
                                        ok = True
                            if not ok:
                                return False, ("%s leaves its enumeration loop on %s (edge bb%d -> bb%d): only exhaustion of the iterator or a Break from the "
                                               "visitor may end an enumeration; an entry that is to be skipped must `continue`" % (x.key, why, u, v)), [], x.span
        if n < 4:
            raise mir.AnchorMissing("iterator loops inside Props::for_each impls (found %d)" % n)
        return True, "", ["%d enumeration loops" % n]
    chk.ob(key, "an enumeration loop ends only on exhaustion or on the visitor's Break", f)


def run(chk):
    global _P
    P = mir.Program("K1")
    _P = P
    chk.use_program(P)
    chk.explain("Rules over built MIR (configuration K1; macro call sites from K4 in the thorough tier): R1 visitor "
                "discipline for every impl of Props::for_each incl. nested closures; R2 get/pull overrides are "
                "forwarders, map lookups, first-left-then-right (And), None (Empty) or an order-independent scan "
                "(macro props); R3 the default get is first-match; R4 is_unique returns true only for stores that "
                "cannot hold a key twice, forwarders forward, everything else inherits false; R5 Dedup is first-wins "
                "with a uniqueness fast path; S2 erased bridge forwards once; S4 views enumerate their fixed keys "
                "before inner props and do not override get.")
    chk.trust("rustc nightly: type checking, trait resolution, MIR construction, const evaluation")
    chk.trust("BTreeMap/HashMap::get, entry().or_insert*, Iterator::find contracts (std)")
    chk.assume("user-implemented Props obey the trait contract; macro call sites have distinct final key names")
    chk.exhaustive = True

    fe = [b for b in P.find(trait=PROPS, method="for_each") if not b.is_closure]
    chk.floor("impl Props::for_each bodies", len(fe), 24)

    # ---- R1: visitor discipline -------------------------------------------------------------------------
    n_sites = 0
    for b in fe:
        bodies = [b] + P.closures_of(b)
        for body in bodies:
            vs = [c for c in body.calls(normal_only=True) if is_visitor_call(body, c)]
            n_sites += len(vs)
            for idx, c in enumerate(vs):
                kind = is_visitor_call(body, c)
                key = "C02.R1:%s#%s%d" % (body.key, kind, idx)

                def f(body=body, c=c, vs=vs, kind=kind):
                    if kind == "for_each" and len(c.args) > 1 and closure_is_const_continue(P, body, c.args[1]):
                        return True, "visitor passed here never breaks (constant Continue): result may be ignored", [c.loc]
                    ok, d = respects_break(P, body, c, vs)
                    if not ok:
                        return False, "in %s the %s call at %s: %s" % (body.key, kind, c.loc, d), [], c.loc
                    return True, d, [c.loc]
                chk.ob(key, "enumeration stops as soon as the visitor asks: the ControlFlow of every visitor / inner "
                            "for_each call is returned or ?-propagated", f, loc=c.loc)
    chk.floor("visitor / inner for_each call sites inside for_each impls", n_sites, 39)

    # ---- R2/R4: overrides ----------------------------------------------------------------------------------
    overrides = {}
    for m in ("get", "pull", "is_unique"):
        overrides[m] = [b for b in P.find(trait=PROPS, method=m) if not b.is_closure]
    chk.floor("get overrides", len(overrides["get"]), 10)
    chk.floor("is_unique overrides", len(overrides["is_unique"]), 10)

    MAP_TYPES = ("alloc::collections::btree::map::BTreeMap<", "std::collections::hash::map::HashMap<")
    FORWARDER_TYPES = ("emit_core::props::AsMap<P>", "emit_core::props::alloc_support::Dedup<P>")

    def self_kind(b):
        st = b.self_ty or ""
        if common.is_wrapper_self(st) or st in FORWARDER_TYPES:
            return "forward"
        if any(st.startswith(t) for t in MAP_TYPES):
            return "map"
        if st == "emit_core::empty::Empty":
            return "empty"
        if st.startswith("emit_core::and::And<"):
            return "and"
        if st.startswith("emit::macro_hooks::__PrivateMacroProps"):
            return "macro"
        if st == "emit::platform::thread_local_ctxt::ThreadLocalCtxtFrame":
            return "frame"
        if re.match(r"^\(\w+, \w+\)$", st):
            return "pair"
        return "other"

    def map_get(b):
        # a keyed lookup on a std map reached from self, with the key derived from the parameter
        cs = [c for c in b.calls(normal_only=True) if c.callee.get("name") == "get" and
              re.search(r"(BTreeMap|HashMap)(::)?<", c.callee.get("full") or "")]
        if len(cs) != 1 or b.count_on_paths({cs[0].bb}) != (1, 1):
            return False, "expected exactly one map lookup, found %d" % len(cs), [], b.span
        c = cs[0]
        ok, o = common.origin_is_self_derived(b, c.args[0])
        if not ok:
            return False, "the lookup is on %s, not on self's map" % o_str(o), [], c.loc
        if not common.has_root(b.origin(c.args[1]), "param", 2):
            return False, "the lookup key is %s, not the key parameter" % o_str(b.origin(c.args[1])), [], c.loc
        r = common.roots(b.origin(0))
        if ("callsite", c.bb) not in r:
            return False, "returns %s, not the lookup's result" % o_str(b.origin(0)), [], c.loc
        return True, "", [c.loc]


    def _const_str(body, op):
        o = body.origin(op, through_calls=("to_str", "get", "deref", "as_ref", "borrow", "as_str"))
        v = mir.o_const_value(o)
        return v if isinstance(v, str) else None

    def _nonkey_decisions(body, ps, upto_bb):
        """Decisions on a path that are about the collection's state: not key comparisons, not ?-propagation."""
        out = []
        for sbb, o, vals in ps.decisions():
            if ps.pos[sbb] >= ps.pos.get(upto_bb, 10 ** 9):
                break
            oo = o
            while oo[0] in ("discr", "unop", "field", "downcast", "cast"):
                oo = oo[1] if oo[0] != "unop" else oo[2]
            if oo[0] == "call":
                nm = oo[1].callee.get("name")
                if nm in ("eq", "ne", "branch", "cmp"):
                    continue
                out.append((nm, tuple(vals)))
            elif oo[0] in ("param", "capture"):
                out.append((o_str(o), tuple(vals)))
        return out

    def keyed_view_get(b):
        fe = [x for x in P.find(trait=PROPS, method="for_each") if not x.is_closure and x.self_ty == b.self_ty]
        if not fe:
            raise mir.AnchorMissing("for_each of %s" % b.self_ty)
        fe = fe[0]
        # enumeration: constant key -> is every yield of it conditional on the collection's state?
        yields = {}
        always = None
        inner_fe = [c for c in fe.calls(normal_only=True) if c.callee.get("trait") == PROPS and c.callee.get("name") == "for_each"]
        for rb in fe.return_blocks():
            for path in fe.acyclic_paths(0, rb, limit=3000):
                ps = mir.PathSummary(fe, path)
                # paths on which the visitor asked to stop are cut short: they say nothing about which keys exist
                broke = False
                for sbb, o, vals in ps.decisions():
                    oo = o
                    while oo[0] in ("discr",):
                        oo = oo[1]
                    if oo[0] == "call" and oo[1].callee.get("name") == "branch" and tuple(vals) in (("1",), (1,)):
                        broke = True
                if broke:
                    continue
                here = set()
                for c in ps.calls(lambda c: c.callee.get("name") in ("call_mut", "call")):
                    tup = ps.origin(c.args[1], at=ps.pos[c.bb])
                    if tup[0] != "agg" or len(tup[2]) != 2:
                        return False, "a visitor call in %s does not pass a (key, value) pair (idiom not recognised)" % fe.key, [], c.loc
                    ko = tup[2][0]
                    while ko[0] == "call" and ko[1].callee.get("name") in ("to_str", "by_ref", "new", "new_ref"):
                        ko = ps.origin(ko[1].args[0], at=ps.pos[c.bb])
                    kv = mir.o_const_value(ko)
                    if not isinstance(kv, str):
                        return False, ("%s yields a key that is not a constant (%s): lookup/enumeration agreement of this override "
                                       "cannot be decided from the shape of the code" % (fe.key, o_str(ko))), [], c.loc
                    yields.setdefault(kv, []).append(c.loc)
                    here.add(kv)
                always = here if always is None else (always & here)
        if not yields:
            return False, "enumeration of %s yields no constant keys (idiom not recognised)" % b.self_ty, [], fe.span
        conditional = set(yields) - (always or set())   # keys that some complete enumeration does not yield
        # lookup: which key constants are compared, and under which decisions a value is returned
        inner_get = [c for c in b.calls(normal_only=True) if c.callee.get("trait") == PROPS and c.callee.get("name") in ("get", "pull")]
        handled = set()
        for rb in b.return_blocks():
            for path in b.acyclic_paths(0, rb, limit=3000):
                ps = mir.PathSummary(b, path)
                r = ps.ret()
                if r[0] == "agg" and r[1].get("variant") == "None":
                    continue
                if r[0] == "call" and r[1].callee.get("trait") == PROPS:
                    continue  # falls back to the inner collection
                # the key constant this path answered for: the last key comparison taken on its true edge
                k = None
                for sbb, o, vals in ps.decisions():
                    oo = o
                    if oo[0] == "call" and oo[1].callee.get("name") == "eq" and tuple(vals) not in (("0",), (0,)):
                        for a in oo[1].args:
                            v = _const_str(b, a)
                            if v is not None:
                                k = v
                if k is None:
                    return False, ("%s returns a value on a path that compared the key with no constant (idiom not recognised): "
                                   "agreement with enumeration cannot be decided" % b.key), [], b.span
                handled.add(k)
                if k not in yields:
                    return False, "lookup answers for the key `%s`, which enumeration of %s never yields" % (k, b.self_ty), [], b.span
                if k in conditional and not _nonkey_decisions(b, ps, rb):
                    return False, ("lookup returns `%s` unconditionally, but enumeration yields that key only under a condition on the "
                                   "collection (%s): get() would return a value that for_each never shows" % (k, b.self_ty)), [], b.span
        missing = set(yields) - handled
        if missing and not inner_get:
            return False, "enumeration yields %s but the lookup override never answers for them" % sorted(missing), [], b.span
        if inner_fe and not inner_get:
            return False, "enumeration continues into an inner collection but the lookup override never asks it", [], b.span
        return True, "", [fe.span, b.span]

    no_truncating_adaptors_rule(chk, P, "C02.R1:no-truncating-adaptors")
    loop_exit_rule(chk, P, "C02.R1:loop-exits")

    for b in overrides["get"]:
        k = self_kind(b)
        key = "C02.R2.get:%s" % b.key
        if k == "forward":
            chk.ob(key, "get override forwards to the inner get exactly once with the key", lambda b=b: common.forward_check(b), loc=b.span)
        elif k == "map":
            chk.ob(key, "get override is a keyed lookup on the backing map", lambda b=b: map_get(b), loc=b.span)
        elif k == "frame":
            def f(b=b):
                # self.props.as_ref().and_then(|props| props.get(key)): a lookup on the frame's own map
                sites = []
                for body in [b] + P.closures_of(b):
                    for c in body.calls(normal_only=True):
                        if c.callee.get("name") == "get":
                            sites.append((body, c))
                if len(sites) != 1:
                    return False, "expected exactly one keyed lookup, found %d" % len(sites), [], b.span
                body, c = sites[0]
                kr = common.roots(body.origin(c.args[1]))
                if not ((("param", 2) in kr and not body.is_closure) or common.derives_from_root_param(P, body, body.origin(c.args[1]), 2)):
                    return False, "lookup key is %s, not the key parameter" % o_str(body.origin(c.args[1])), [], c.loc
                ro = b.origin(0)
                rr = common.roots(ro)
                if ("param", 1) not in rr:
                    return False, "result %s does not derive from self.props" % o_str(ro), [], b.span
                r2, names = mir.o_field_path(b.origin(ro[1].args[0], through_calls=("as_ref", "as_deref"))) if ro[0] == "call" else (None, [])
                if names != ["props"]:
                    return False, "the lookup is not on self.props (%s)" % o_str(ro), [], b.span
                return True, "", [c.loc]
            chk.ob(key, "frame lookup is a keyed get on the frame's own property map", f)
        elif k == "empty":
            def f(b=b):
                o = b.origin(0)
                if not (o[0] == "agg" and o[1].get("variant") == "None") or b.calls(normal_only=True):
                    return False, "Empty::get must return None", [], b.span
                return True, "", [b.span]
            chk.ob(key, "Empty::get returns None", f)
        elif k == "and":
            def f(b=b):
                gets = b.calls_to(trait=PROPS, name="get")
                left = [c for c in gets if mir.o_is_call(b.origin(c.args[0]), name="left")]
                right_here = [c for c in gets if mir.o_is_call(b.origin(c.args[0]), name="right")]
                if len(left) != 1 or b.count_on_paths({left[0].bb}) != (1, 1):
                    return False, "And::get must ask left() exactly once first", [], b.span
                lres = left[0]
                ret = b.origin(0)
                if mir.o_is_call(ret, name="or_else") or mir.o_is_call(ret, name="or"):
                    oe = ret[1]
                    recv = b.origin(oe.args[0])
                    if not (recv[0] == "call" and recv[1].bb == lres.bb):
                        return False, ("the value that wins is %s, not left().get(key): the first collection must "
                                       "win" % o_str(recv)), [], oe.loc
                    if ret[1].callee.get("name") == "or":
                        alt = b.origin(oe.args[1])
                        if not mir.o_is_call(alt, name="get"):
                            return False, "fallback is %s" % o_str(alt), [], oe.loc
                        return True, "", [lres.loc, oe.loc]
                    clo = b.origin(oe.args[1])
                    if clo[0] != "agg" or clo[1].get("ak") != "closure":
                        return False, "or_else fallback is not a closure", [], oe.loc
                    cb = P.body(clo[1]["def"])
                    rg = [c for c in cb.calls_to(trait=PROPS, name="get") if mir.o_is_call(cb.origin(c.args[0]), name="right")]
                    if len(rg) != 1:
                        return False, "the fallback must ask right() exactly once", [], cb.span
                    if right_here:
                        return False, "right() is also asked unconditionally at %s" % right_here[0].loc, [], right_here[0].loc
                    return True, "", [lres.loc, oe.loc, rg[0].loc]
                # match form: right asked only on the None edge of the left result
                if len(right_here) == 1:
                    g = b.guards_of(right_here[0].bb)
                    for bb, vals, n in g:
                        so = b.switch_origin(bb)
                        if so[0] == "discr" and so[1][0] == "call" and so[1][1].bb == lres.bb and list(vals) == ["0"]:
                            return True, "", [lres.loc, right_here[0].loc]
                return False, "And::get is not `left().get(k)` falling back to `right().get(k)` only when absent (returns %s)" % o_str(ret), [], b.span
            chk.ob(key, "And::get asks the left collection first and the right one only when the left has no value", f)
        elif k == "macro":
            f = lambda b=b: macro_get(P, b)
            chk.ob(key, "macro-built props: lookup makes no order assumption about the backing array (renamed keys)", f)
            chk.ob("C02.R2:MacroProps-skip-None", "macro-built props: an entry whose optional value is None is not enumerated (lookup skips it too), and does not end the enumeration",
                   lambda: macro_skip_none(P))
        else:
            # a lookup override the table above does not know: decide the part of coherence that is visible in the
            # shape of the two methods (keyed views: constant keys), fail closed otherwise
            chk.ob(key, "a keyed view's lookup returns only keys its enumeration yields, never under weaker conditions, and "
                        "covers every enumerated key", lambda b=b: keyed_view_get(b), loc=b.span)

    for b in overrides["pull"]:
        key = "C02.R2.pull:%s" % b.key
        if self_kind(b) == "forward":
            chk.ob(key, "pull override forwards to the inner pull exactly once", lambda b=b: common.forward_check(b), loc=b.span)
        else:
            def f(b=b):
                # a typed lookup on anything but a pure wrapper is `the untyped lookup, then a cast`: a value of another type under the key
                # is an answer (None), it must not make the lookup go on to a later collection's shadowed value
                inner_pulls = [c for x in [b] + P.closures_of(b) for c in x.calls(normal_only=True) if c.callee.get("trait") == PROPS and c.callee.get("name") == "pull"]
                if inner_pulls:
                    return False, ("%s answers a typed lookup by asking its parts for typed values (%d pull calls): when the first collection has "
                                   "the key with a value of another type, the lookup falls through to a later, shadowed value instead of "
                                   "returning None" % (b.key, len(inner_pulls))), [], inner_pulls[0].loc
                gets = [c for c in b.calls(normal_only=True) if c.callee.get("trait") == PROPS and c.callee.get("name") == "get"]
                if len(gets) != 1 or not common.origin_is_self_derived(b, gets[0].args[0])[0]:
                    return False, "%s is not `self.get(key)` followed by a cast" % b.key, [], b.span
                return True, "", [gets[0].loc]
            chk.ob(key, "a typed lookup is the untyped lookup followed by a cast (a failed cast is an answer, not a miss)", f, loc=b.span)

    # R3: default get / pull
    def default_get():
        b = P.body("emit_core::props::Props::get")
        fes = b.calls_to(trait=PROPS, name="for_each")
        if len(fes) != 1:
            return False, "default get must enumerate exactly once", [], b.span
        c = fes[0]
        if not mir.o_is_param(b.origin(c.args[0]), idx=1):
            return False, "enumerates %s, not self" % o_str(b.origin(c.args[0])), [], c.loc
        clo = b.origin(c.args[1])
        if clo[0] != "agg" or clo[1].get("ak") != "closure":
            return False, "visitor is not a closure literal", [], c.loc
        cb = P.body(clo[1]["def"])
        # the slot captured by the closure is what get returns
        ret = b.origin(0)
        # closure: eq(k, key): true edge assigns Some(v) to the captured slot and returns Break; false edge Continue
        eqs = [x for x in cb.calls(normal_only=True) if x.callee.get("name") == "eq"]
        if len(eqs) != 1:
            return False, "visitor must compare the key exactly once", [], cb.span
        e = eqs[0]
        rs = common.roots(cb.origin(e.args[0])) | common.roots(cb.origin(e.args[1]))
        wanted = any(common.derives_from_root_param(P, cb, cb.origin(a), 2) for a in e.args)
        if ("param", 2) not in rs or not wanted:
            return False, "the comparison is between %s and %s, not the visited key and the wanted key" % (
                o_str(cb.origin(e.args[0])), o_str(cb.origin(e.args[1]))), [], e.loc
        for rb in cb.return_blocks():
            for path in cb.acyclic_paths(0, rb):
                ps = mir.PathSummary(cb, path)
                dec = [(o, mir.truthy(v)) for _, o, v in ps.decisions() if o[0] == "call" and o[1].bb == e.bb]
                if not dec:
                    return False, "a path through the visitor does not depend on the key comparison", [], cb.span
                matched = dec[0][1]
                r = ps.ret()
                variant = r[1].get("variant") if r[0] == "agg" else None
                writes = []
                for bb in path:
                    for s in cb.blocks[bb]["stmts"]:
                        if s["k"] == "assign" and "p" in s["place"]:
                            o = cb._origin_place({"l": s["place"]["l"], "p": s["place"]["p"]}, 0, (), set())
                            rr, _ = mir.o_field_path(o)
                            if o[0] == "capture" or rr[0] == "capture":
                                writes.append(s)
                if matched and (variant != "Break" or not writes):
                    return False, ("on a key match the visitor must store the value and Break (first match wins); it "
                                   "returns %s and stores %d values" % (variant, len(writes))), [], e.loc
                if matched:
                    w = writes[-1]
                    wo = cb.origin(w["rv"]["op"]) if w["rv"]["k"] == "use" else ("unknown",)
                    if not (wo[0] == "agg" and wo[1].get("variant") == "Some" and common.has_root(wo, "param", 3)):
                        return False, "the stored value is %s, not Some(visited value)" % o_str(wo), [], e.loc
                if matched is False and (variant != "Continue" or writes):
                    return False, "on a key mismatch the visitor must Continue without storing", [], e.loc
        return True, "", [c.loc, e.loc]
    chk.ob("C02.R3:Props::get", "the default get enumerates self and keeps the first value whose key matches, then stops", default_get)

    def default_pull():
        b = P.body("emit_core::props::Props::pull")
        gs = b.calls_to(trait=PROPS, name="get")
        if len(gs) != 1 or b.count_on_paths({gs[0].bb}) != (1, 1):
            return False, "default pull must call get exactly once", [], b.span
        if not mir.o_is_param(b.origin(gs[0].args[0]), idx=1) or not common.has_root(b.origin(gs[0].args[1]), "param", 2):
            return False, "pull does not look up its key on self", [], gs[0].loc
        if ("callsite", gs[0].bb) not in common.roots(b.origin(0)):
            return False, "pull returns %s" % o_str(b.origin(0)), [], gs[0].loc
        return True, "", [gs[0].loc]
    chk.ob("C02.R3:Props::pull", "the default pull is get(key) followed by a cast", default_pull)

    def default_unique():
        b = P.body("emit_core::props::Props::is_unique")
        v = common.const_return(b)
        if v is not False:
            return False, "the default is_unique must be the conservative `false`, is %s" % v, [], b.span
        return True, "", [b.span]
    chk.ob("C02.R4:Props::is_unique.default", "collections that do not say otherwise do not claim uniqueness", default_unique)

    # R4: is_unique overrides
    for b in overrides["is_unique"]:
        k = self_kind(b)
        key = "C02.R4:%s" % b.key

        def f(b=b, k=k):
            v = common.const_return(b)
            if k == "forward" and (b.self_ty or "") != "emit_core::props::alloc_support::Dedup<P>":
                return common.forward_check(b)
            if v is False:
                return True, "claims nothing", [b.span]
            if v is True:
                if k in ("pair", "empty", "map", "macro") or (b.self_ty or "").endswith("Dedup<P>"):
                    return True, "single pair / empty / map-backed / de-duplicated / macro-checked labels", [b.span]
                if k == "frame":
                    adt = P.adt("emit::platform::thread_local_ctxt::ThreadLocalCtxtFrame")
                    tys = [f["ty"] for v in adt["variants"] for f in v["fields"]]
                    if any("HashMap<" in t or "BTreeMap<" in t for t in tys):
                        return True, "backed by a map", [b.span]
                    return False, "ThreadLocalCtxtFrame claims uniqueness but is no longer map-backed (%s)" % tys, [], b.span
            return False, ("`%s` claims uniqueness (is_unique is %s) but its backing store can enumerate a key twice; "
                           "concatenations, arrays, slices and options must inherit the default `false`"
                           % (b.self_ty, "constant true" if v is True else "computed")), [], b.span
        chk.ob(key, "a collection claims uniqueness only if it cannot enumerate a key twice", f, loc=b.span)

    # ---- R5: Dedup ------------------------------------------------------------------------------------------
    def dedup():
        b = P.impl_method(PROPS, "emit_core::props::alloc_support::Dedup<P>", "for_each")
        iu = b.calls_to(trait=PROPS, name="is_unique")
        if len(iu) != 1:
            return False, "expected one is_unique test", [], b.span
        inner = b.calls_to(trait=PROPS, name="for_each")
        fast = [c for c in inner if any(mir.o_is_call(b.switch_origin(bb)) and b.switch_origin(bb)[1].bb == iu[0].bb
                                        and mir.truthy(tuple(vals) if vals != ["otherwise"] else None) is not False
                                        for bb, vals, n in b.guards_of(c.bb))]
        # the fast path passes the caller's visitor straight through, and only when is_unique() is true
        fastp = [c for c in inner if common.has_root(b.origin(c.args[1]), "param", 2) and not
                 (b.origin(c.args[1])[0] == "agg")]
        for c in fastp:
            g = [(bb, vals) for bb, vals, n in b.guards_of(c.bb)
                 if mir.o_is_call(b.switch_origin(bb)) and b.switch_origin(bb)[1].bb == iu[0].bb]
            if not g:
                return False, "the pass-through enumeration at %s is not guarded by is_unique()" % c.loc, [], c.loc
            if any(list(vals) == ["0"] for bb, vals in g):
                return False, "the pass-through enumeration runs when is_unique() is false", [], c.loc
        slow = [c for c in inner if c not in fastp]
        if len(slow) != 1:
            return False, "expected one collecting enumeration, found %d" % len(slow), [], b.span
        clo = b.origin(slow[0].args[1])
        if clo[0] != "agg" or clo[1].get("ak") != "closure":
            return False, "collecting visitor is not a closure literal", [], slow[0].loc
        cb = P.body(clo[1]["def"])
        names = [c.callee.get("name") for c in cb.calls(normal_only=True)]
        if "insert" in names and "contains_key" not in names and "get" not in names:
            return False, "collecting pass uses insert (last value wins); de-duplication must keep the first value", [], cb.span
        if not (("entry" in names and any(n and n.startswith("or_insert") for n in names)) or
                ("insert" in names and ("contains_key" in names or "get" in names))):
            return False, "first-wins idiom not recognised in the collecting visitor (calls: %s)" % names, [], cb.span
        if "entry" in names:
            e = [c for c in cb.calls(normal_only=True) if c.callee.get("name") == "entry"][0]
            if not common.has_root(cb.origin(e.args[1]), "param", 2):
                return False, "entry() is keyed by %s, not the visited key" % o_str(cb.origin(e.args[1])), [], e.loc
            oi = [c for c in cb.calls(normal_only=True) if (c.callee.get("name") or "").startswith("or_insert")][0]
            if not common.has_root(cb.origin(oi.args[1]), "param", 3):
                return False, "or_insert stores %s, not the visited value" % o_str(cb.origin(oi.args[1])), [], oi.loc
        return True, "", [iu[0].loc, slow[0].loc]
    chk.ob("C02.R5:Dedup::for_each", "de-duplication keeps the first value per key; the pass-through fast path only under is_unique()", dedup)

    def dedup_get():
        b = P.impl_method(PROPS, "emit_core::props::alloc_support::Dedup<P>", "get")
        return common.forward_check(b)
    chk.ob("C02.R5:Dedup::get", "Dedup::get forwards (the first value is what get returns)", dedup_get)

    # ---- S2: erased bridge -----------------------------------------------------------------------------------
    n = 0
    for b in P.find(trait="emit_core::props::internal::DispatchProps"):
        if b.is_closure:
            continue
        n += 1
        chk.ob("C02.S2:%s" % b.key, "erased bridge forwards to the same-named generic method exactly once",
               lambda b=b: common.forward_check(b), loc=b.span)
    for b in fe + overrides["is_unique"]:
        if common.is_wrapper_self(b.self_ty) and b.method in ("for_each",):
            n += 1
            chk.ob("C02.S2:%s" % b.key, "wrapper forwards enumeration exactly once with the caller's visitor",
                   lambda b=b: common.forward_check(b), loc=b.span)
    chk.floor("erased/forwarding enumeration bridges", n, 7)

    # ---- S4: views --------------------------------------------------------------------------------------------
    views = ["emit::span::Span<'a, P>", "emit::metric::Metric<'a, P>", "emit_core::extent::Extent", "emit::span::SpanCtxt",
             "emit_traceparent::TraceparentCtxtProps<P>", "emit_traceparent::ExcludeTraceparentProps<P>"]
    for v in views:
        def f(v=v):
            b = P.impl_method(PROPS, v, "for_each")
            if [x for x in overrides["get"] if mir._strip_lifetimes(x.self_ty or "") == mir._strip_lifetimes(v)]:
                return True, "has its own get (checked by R2)", [b.span]
            vis = [c for c in b.calls(normal_only=True) if is_visitor_call(b, c) == "visitor"]
            inner = [c for c in b.calls(normal_only=True) if is_visitor_call(b, c) == "for_each"
                     and common.origin_is_self_derived(b, c.args[0])[0]]
            for i in inner:
                for c in vis:
                    if i.bb in b.reachable_from(0) and c.bb in b.reachable_from(i.term.get("t", i.bb)) and c.bb != i.bb:
                        return False, ("the view's own key at %s is enumerated after its inner properties (%s): an inner "
                                       "property with the same key would win" % (c.loc, i.loc)), [], c.loc
            return True, "", [c.loc for c in vis + inner]
        chk.ob("C02.S4:%s" % v, "a view enumerates its own well-known keys before the inner properties", f)

    if chk.tier == "thorough":
        thorough(chk)
    # the map views of a collection (`as_map()`: sval / serde / Debug) enumerate through for_each: each step's outcome is handed on, so a view either
    # shows every pair or fails - it never shows a map with a pair missing
    common.results_inspected_rule(
        chk, P, "C02.R1:views-propagate", "no step of a map view of a property collection (AsMap's sval / serde / fmt impls) has its Result discarded",
        lambda b: b.crate == "emit_core" and "AsMap<" in b.key and "::tests::" not in b.key, {}, 6)
    # the claim `is_unique() == true` of macro-built collections rests on the macros *rejecting* duplicate keys and malformed attributes: every
    # fallible step of the proc-macro crate hands its error on (a dropped `Err` from Props::push is a duplicate key accepted silently)
    if not getattr(chk, "_overlay", None):
        common.results_inspected_rule(
            chk, P, "C02.R4:macro-errors-propagate", "no fallible step of the proc-macro crate (duplicate-key check, attribute validation, argument parsing) has its Result discarded",
            lambda b: b.crate == "emit_macros" and "::tests::" not in b.key, {}, 100)
    parked_outcome_rule(chk, P, "C02.R1:parked-outcome-kept", lambda b: b.crate in ("emit_core", "emit") and "::tests::" not in b.key)
    break_only_from_visitor_rule(chk, P, "C02.R1:break-only-from-visitor")
    common.wrapper_family_rule(chk, P, "C02", "emit_core::props::Props", 2, forward=False, allow={
        ("alloc::boxed::Box<", "get"): "the default get enumerates the boxed collection's own for_each (coherent by construction)",
        ("alloc::boxed::Box<", "is_unique"): "the default (false) only disables a shortcut",
        ("alloc::boxed::Box<", "pull"): "the default is get + cast",
        ("alloc::sync::Arc<", "get"): "the default get enumerates the shared collection's own for_each (coherent by construction)",
        ("alloc::sync::Arc<", "is_unique"): "the default (false) only disables a shortcut",
        ("alloc::sync::Arc<", "pull"): "the default is get + cast",
        ("(dyn emit_core::props::ErasedProps", "pull"): "the default is get + cast; the erased get is forwarded"})
    return chk


def thorough(chk):
    """K4: macro call sites. The final keys of every __PrivateMacroProps::from_array literal are
    recovered from the expanded MIR; reported as coverage (lookup makes no order assumption, so no
    order obligation is needed on the call sites)."""
    try:
        P4 = mir.Program("K4")
    except SystemExit as e:
        chk.fail("C02.K4", "macro call-site corpus compiles", str(e))
        return
    chk.use_program(P4)
    sites = 0
    renamed = 0
    for b in P4.bodies.values():
        for c in b.calls(normal_only=True):
            if c.callee.get("name") == "from_array" and "__PrivateMacroProps" in (c.callee.get("full") or ""):
                sites += 1
    chk.extra["macro_from_array_sites_in_corpus"] = sites
    chk.floor("macro-built props literals in the ui corpus (K4)", sites, 100)
