"""C01 — an event is emitted iff the effective filter accepts the fully built event.

Decided here (structural clauses, not the behaviour): the order and guard of the pipeline in
`emit_core::emit`; the local contract of every Emitter / Filter / Wrapping combinator impl
(forwarders, Option, Empty, And, Or, Wrap, FromFilter, FirstDefined, Runtime), including the
type-erased bridge; that leaf emitters bypass filter, clock and context.  The behaviour for all
combinator trees follows by structural induction over the tree (paper step)."""
import itertools

from . import common, mir
from .mir import o_str

EMITTER = "emit_core::emitter::Emitter"
FILTER = "emit_core::filter::Filter"
WRAPPING = "emit_core::emitter::wrapping::Wrapping"
CTXT = "emit_core::ctxt::Ctxt"
CLOCK = "emit_core::clock::Clock"
PROPS = "emit_core::props::Props"


def recv_tag(body, cs, ps=None):
    """Which sub-component of self a call's receiver is: 'left' / 'right' / field name / None."""
    o = (ps.origin(cs.args[0]) if ps else body.origin(cs.args[0]))
    if mir.o_is_call(o, name="left"):
        return "left"
    if mir.o_is_call(o, name="right"):
        return "right"
    r, names = mir.o_field_path(o)
    if r[0] == "param" and r[1] == 1 and names:
        return names[-1] if names[-1] not in ("0",) or len(names) == 1 else names[-1]
    if r[0] == "param" and r[1] == 1:
        return "self"
    return None


def bool_table(body, method, tags, expected, order_ok, extra_atoms=None):
    """Check a boolean combinator: each path's decisions over {tag: result of tag.method()} and its
    return value agree with expected(assign) for every total assignment; and order_ok(dec, evaluated)
    holds (short-circuit discipline).  Returns (ok, detail, sites)."""
    def atom_of_origin(o):
        if o[0] == "call" and o[1].callee.get("name") == method:
            return recv_tag(body, o[1])
        if extra_atoms:
            return extra_atoms(o)
        return None

    rows = common.path_table(body, atom_of_origin)
    if not rows:
        return False, "no normal return path", []
    sites = [c.loc for c in body.calls_to(name=method)]
    for dec, ret, ps, other in rows:
        d = {}
        for a, vals in dec.items():
            t = mir.truthy(vals)
            if t is None:
                # enum discriminant decision: keep raw
                d[a] = vals
            else:
                d[a] = t
        evaluated = [recv_tag(body, c, ps) for c in ps.calls(lambda c: c.callee.get("name") == method)]
        if not order_ok(d, evaluated):
            return False, ("evaluation order: on the path with decisions %s the calls %s are made" % (d, evaluated)), \
                sites
        rc = mir.o_const_value(ret)
        ratom = atom_of_origin(ret) if rc is None else None
        if rc is None and ratom is None:
            return False, "returns %s, neither a constant nor a sub-filter result" % o_str(ret), sites
        free = [t for t in tags if t not in d]
        for vals in itertools.product([False, True], repeat=len(free)):
            assign = dict(d)
            assign.update(dict(zip(free, vals)))
            got = rc if rc is not None else assign.get(ratom)
            exp = expected(assign)
            if exp is None:
                continue
            if got != exp:
                return False, ("for %s the function returns %s, its definition says %s" % (assign, got, exp)), sites
    return True, "truth table over %s matches" % (tags,), sites


def and_flush_rule(chk, P, key):
    def and_flush():
        b = P.impl_method(EMITTER, "emit_core::and::And<T, U>", "blocking_flush")
        calls = b.calls_to(trait=EMITTER, name="blocking_flush")
        tags = {}
        for c in calls:
            tags.setdefault(recv_tag(b, c), []).append(c)
        if set(tags) != {"left", "right"}:
            return False, "And::blocking_flush must flush left() and right(); found %s" % sorted(map(str, tags)), [], b.span
        for t, cs in tags.items():
            cnt = b.count_on_paths({c.bb for c in cs})
            if cnt != (1, 1):
                return False, ("And::blocking_flush flushes %s %s times per path; both sides must be flushed "
                               "unconditionally (no short-circuit)" % (t, cnt)), [], cs[0].loc
            for c in cs:
                if not common.has_root(b.origin(c.args[1]), "param", 2):
                    return False, "timeout given to %s does not derive from the timeout parameter" % t, [], c.loc
        # the share each side gets is the timeout itself or a whole-Duration fraction of it: no detour through a coarser unit
        for c in b.calls(normal_only=True):
            if c.callee.get("name") in ("as_secs", "as_millis", "as_micros", "from_secs", "from_millis", "from_micros", "as_secs_f32", "as_secs_f64", "subsec_millis"):
                return False, ("And::blocking_flush converts the timeout with %s at %s: splitting it in a coarser unit rounds each side's share down "
                               "(1s / 2 becomes 0s), so a side that needs any time to flush reports failure under a short timeout" % (c.callee.get("name"), c.loc)), [], c.loc
        # ... and never more than the caller allowed: the timeout is only ever divided (or passed on / reduced), not multiplied or added to
        for c in b.calls(normal_only=True):
            full = (c.callee.get("full") or c.callee.get("path") or "")
            if c.callee.get("name") in ("mul", "add", "checked_mul", "checked_add", "saturating_mul", "saturating_add", "mul_f32", "mul_f64") and "Duration" in full:
                return False, ("And::blocking_flush grows the timeout with %s at %s: the two sides together may then block longer than the caller allowed"
                               % (c.callee.get("name"), c.loc)), [], c.loc
        return bool_table(b, "blocking_flush", ["left", "right"], lambda a: a["left"] and a["right"],
                          lambda d, ev: True)
    chk.ob(key, "And::blocking_flush flushes both sides unconditionally and returns their conjunction", and_flush)


def pipeline_rules(chk, P, pre):
    # ---------------- S1: pipeline ----------------------------------------------------------------
    def r1():
        b = P.body("emit_core::emit")
        wc = b.calls_to(trait=CTXT, name="with_current")
        if len(wc) != 1:
            return False, "expected exactly one Ctxt::with_current call in emit_core::emit, found %d" % len(wc), [], b.span
        o = b.origin(wc[0].args[0])
        if not mir.o_is_param(o, name="ctxt"):
            return False, "with_current is not called on the `ctxt` parameter but on %s" % o_str(o), [], wc[0].loc
        stray = [c for c in b.calls(normal_only=True) if c.callee.get("trait") in (EMITTER, FILTER, CLOCK)]
        if stray:
            return False, "emitter/filter/clock used outside the with_current closure: %s" % stray, [], stray[0].loc
        cnt = b.count_on_paths({wc[0].bb})
        if cnt != (1, 1):
            return False, "with_current is not called exactly once on every path: %s" % (cnt,), [], wc[0].loc
        return True, "", [wc[0].loc]
    chk.ob(pre + ".R1:emit_core::emit", "the whole pipeline runs inside exactly one Ctxt::with_current on the ctxt argument", r1)

    def pipeline_closure():
        b = P.body("emit_core::emit")
        wc = b.calls_to(trait=CTXT, name="with_current")[0]
        o = b.origin(wc.args[1])
        if o[0] != "agg" or o[1].get("ak") != "closure":
            raise mir.AnchorMissing("with_current's argument is not a closure literal")
        return P.body(o[1]["def"])

    def r2():
        c = pipeline_closure()
        we = c.calls_to(name="with_extent")
        if len(we) != 1:
            return False, "expected one Event::with_extent call, found %d" % len(we), [], c.span
        o = c.origin(we[0].args[1])
        if not mir.o_is_call(o, name="or_else"):
            return False, "the extent given to with_extent is %s, not `own.or_else(clock)`" % o_str(o), [], we[0].loc
        oe = o[1]
        recv = c.origin(oe.args[0], through_calls=("cloned", "copied", "clone"))
        if not mir.o_is_call(recv, name="extent"):
            return False, ("the first choice of the extent is %s, not the event's own extent "
                           "(Event::extent)" % o_str(recv)), [], oe.loc
        ev = c.origin(recv[1].args[0])
        if not (mir.o_is_call(ev, name="to_event") and common.has_root(ev, "capture", "evt")):
            return False, "own extent is read from %s, not from the event being emitted" % o_str(ev), [], oe.loc
        clo = c.origin(oe.args[1])
        if clo[0] != "agg" or clo[1].get("ak") != "closure":
            return False, "or_else fallback is not a closure", [], oe.loc
        fb = P.body(clo[1]["def"])
        now = fb.calls_to(trait=CLOCK, name="now")
        if len(now) != 1:
            return False, "the fallback closure does not read Clock::now exactly once", [], fb.span
        if not common.has_root(fb.origin(now[0].args[0]), "capture", "clock"):
            return False, "the fallback reads %s, not the `clock` argument" % o_str(fb.origin(now[0].args[0])), [], now[0].loc
        stray = [x for x in c.calls_to(trait=CLOCK, name="now")]
        if stray:
            return False, "Clock::now is read unconditionally at %s (own extent must win)" % stray[0].loc, [], stray[0].loc
        # the event given to with_extent is the event built from `evt`
        src = c.origin(we[0].args[0])
        if not common.has_root(src, "capture", "evt"):
            return False, "with_extent is applied to %s" % o_str(src), [], we[0].loc
        return True, "", [we[0].loc, oe.loc, now[0].loc]
    chk.ob(pre + ".R2:emit_core::emit", "own extent first, Clock::now only as the or_else fallback", r2)

    def r3():
        c = pipeline_closure()
        mp = c.calls_to(name="map_props")
        if len(mp) != 1:
            return False, "expected one Event::map_props call, found %d" % len(mp), [], c.span
        src = c.origin(mp[0].args[0])
        if not mir.o_is_call(src, name="with_extent"):
            return False, "map_props is applied to %s, not to the event with its extent set" % o_str(src), [], mp[0].loc
        clo = c.origin(mp[0].args[1])
        if clo[0] != "agg" or clo[1].get("ak") != "closure":
            return False, "map_props argument is not a closure", [], mp[0].loc
        fb = P.body(clo[1]["def"])
        ap = fb.calls_to(name="and_props")
        if len(ap) != 1:
            return False, "map_props closure does not call and_props exactly once", [], fb.span
        a0 = fb.origin(ap[0].args[0])
        a1 = fb.origin(ap[0].args[1])
        if not (a0[0] == "param" and a0[1] == 2):
            return False, ("and_props receiver is %s; the event's own properties must come first "
                           "(own.and_props(ambient))" % o_str(a0)), [], ap[0].loc
        # the ambient props are the with_current closure's parameter, captured
        if a1[0] != "capture":
            return False, "and_props argument is %s, not the ambient props captured from with_current" % o_str(a1), [], ap[0].loc
        capname = a1[1]
        # find which local of the pipeline closure is captured under that name: must be its parameter 2
        idx = clo[1]["fields"].index(capname) if capname in clo[1].get("fields", []) else None
        if idx is None:
            return False, "capture %s not found" % capname, [], ap[0].loc
        capo = clo[2][idx]
        if not (capo[0] == "param" and capo[1] == 2):
            return False, "the second operand of and_props is %s, not the current ambient props" % o_str(capo), [], ap[0].loc
        r = fb.origin(0)
        if not (r[0] == "call" and r[1].bb == ap[0].bb):
            return False, "map_props closure returns %s" % o_str(r), [], ap[0].loc
        return True, "", [mp[0].loc, ap[0].loc]
    chk.ob(pre + ".R3:emit_core::emit", "event props first, ambient props second: props.and_props(ctxt)", r3)

    def r4():
        c = pipeline_closure()
        ms = c.calls_to(trait=FILTER, name="matches")
        es = c.calls_to(trait=EMITTER, name="emit")
        if len(ms) != 1 or len(es) != 1:
            return False, "expected one Filter::matches and one Emitter::emit call, found %d / %d" % (len(ms), len(es)), [], c.span
        m, e = ms[0], es[0]
        if not common.has_root(c.origin(m.args[0]), "capture", "filter"):
            return False, "matches is called on %s, not the `filter` argument" % o_str(c.origin(m.args[0])), [], m.loc
        if not common.has_root(c.origin(e.args[0]), "capture", "emitter"):
            return False, "emit is called on %s, not the `emitter` argument" % o_str(c.origin(e.args[0])), [], e.loc
        if c.count_on_paths({m.bb}) != (1, 1):
            return False, "Filter::matches is not evaluated exactly once on every path", [], m.loc
        cnt = c.count_on_paths({e.bb})
        if cnt[1] > 1:
            return False, "Emitter::emit can run more than once", [], e.loc
        g = [(bb, vals) for bb, vals, n in c.guards_of(e.bb)
             if mir.o_is_call(c.switch_origin(bb)) and c.switch_origin(bb)[1].bb == m.bb]
        if not g:
            return False, "Emitter::emit is not control-dependent on the result of Filter::matches", [], e.loc
        if not all(mir.truthy(tuple(v) if v != ["otherwise"] else ("otherwise", ("0",))) is not False for _, v in g):
            pass
        # the edge taken must be the 'true' edge
        t = c.blocks[g[0][0]]["term"]
        true_targets = {n for v, n in t["targets"] if v != "0"} | ({t["otherwise"]} if any(v == "0" for v, _ in t["targets"]) else set())
        if not any(c.edge_dominates(g[0][0], n, e.bb) for n in true_targets):
            return False, "Emitter::emit runs on the edge where the filter rejected the event", [], e.loc
        em = c.origin(m.args[1])
        ee = c.origin(e.args[1])
        if not (mir.o_is_call(em, name="map_props") and mir.o_is_call(ee, name="map_props") and em[1].bb == ee[1].bb):
            return False, ("the filter sees %s but the emitter receives %s: they must be the same fully built event"
                           % (o_str(em), o_str(ee))), [], e.loc
        return True, "", [m.loc, e.loc]
    chk.ob(pre + ".R4:emit_core::emit", "emit is guarded by matches(true) on the same fully built event; matches once, emit at most once", r4)



def runtime_rules(chk, P, prefix):
    """Runtime<..>: emit passes its own components, the Emitter impl runs the pipeline, flush and accessors forward"""
    def runtime_emit():
        b = P.body("emit_core::runtime::Runtime::<TEmitter, TFilter, TCtxt, TClock, TRng>::emit")
        cs = b.calls_to(path="emit_core::emit")
        if len(cs) != 1 or b.count_on_paths({cs[0].bb}) != (1, 1):
            return False, "Runtime::emit must call emit_core::emit exactly once", [], b.span
        c = cs[0]
        want = ["emitter", "filter", "ctxt", "clock"]
        for i, w in enumerate(want):
            r, names = mir.o_field_path(b.origin(c.args[i]))
            if not (r[0] == "param" and r[1] == 1 and names == [w]):
                return False, "argument %d of emit_core::emit is %s, expected self.%s" % (i, o_str(b.origin(c.args[i])), w), [], c.loc
        if not common.has_root(b.origin(c.args[4]), "param", 2):
            return False, "event argument is %s" % o_str(b.origin(c.args[4])), [], c.loc
        return True, "", [c.loc]
    chk.ob("%s:Runtime::emit" % prefix, "Runtime::emit passes its own emitter, filter, ctxt, clock to the like-named parameters", runtime_emit)

    def runtime_emitter_impl():
        b = P.impl_method(EMITTER, "emit_core::runtime::Runtime<TEmitter, TFilter, TCtxt, TClock, TRng>", "emit")
        cs = [c for c in b.calls(normal_only=True) if c.callee.get("name") == "emit"]
        if len(cs) != 1 or b.count_on_paths({cs[0].bb}) != (1, 1):
            return False, "must forward exactly once", [], b.span
        c = cs[0]
        p = c.callee.get("path", "")
        o = b.origin(c.args[0])
        if not (p.startswith("emit_core::runtime::Runtime") and p.endswith("::emit") and mir.o_is_param(o, idx=1)):
            return False, ("`<Runtime as Emitter>::emit` forwards to %s on %s; emitting through a runtime must go "
                           "through the runtime's own pipeline (Runtime::emit: filter, clock, ctxt), not straight "
                           "to its destination" % (c.callee.get("full"), o_str(o))), [], c.loc
        if not common.has_root(b.origin(c.args[1]), "param", 2):
            return False, "event not passed", [], c.loc
        return True, "", [c.loc]
    chk.ob("%s:Emitter::emit" % prefix, "Emitter for Runtime runs the runtime's own pipeline (Runtime::emit) exactly once", runtime_emitter_impl)

    def runtime_flush():
        b = P.impl_method(EMITTER, "emit_core::runtime::Runtime<TEmitter, TFilter, TCtxt, TClock, TRng>", "blocking_flush")
        ok, d, s = common.forward_check(b)[:3]
        if not ok:
            return False, d, [], b.span
        c = b.calls_to(name="blocking_flush")[0]
        r, names = mir.o_field_path(b.origin(c.args[0]))
        if names != ["emitter"]:
            return False, "flush goes to %s" % o_str(b.origin(c.args[0])), [], c.loc
        return True, "", s
    chk.ob("%s:Emitter::blocking_flush" % prefix, "Runtime::blocking_flush forwards to its emitter", runtime_flush)

    def accessor(name):
        def f():
            b = P.body("emit_core::runtime::Runtime::<TEmitter, TFilter, TCtxt, TClock, TRng>::%s" % name)
            r, names = mir.o_field_path(b.origin(0))
            if not (r[0] == "param" and r[1] == 1 and names == [name]):
                return False, "Runtime::%s() returns %s" % (name, o_str(b.origin(0))), [], b.span
            return True, "", [b.span]
        return f
    for nm in ("emitter", "filter", "ctxt", "clock", "rng"):
        chk.ob("%s:accessor.%s" % (prefix, nm), "Runtime::%s() returns the field of that name" % nm, accessor(nm))


OVERLAYS = ('K2b',)


def run(chk):
    P = mir.Program("K1")
    chk.use_program(P)
    chk.explain("Rules over built MIR of emit_core and emit (workspace configuration K1): pipeline order and "
                "filter guard in emit_core::emit (R1-R4), per-impl contracts of every Emitter/Filter/Wrapping "
                "combinator enumerated from the impl table (S2), leaf emitters bypass filter/clock/ctxt (S3). "
                "Decides necessary structural conditions; the equivalence for all combinator trees is by "
                "structural induction given these local contracts.")
    chk.trust("rustc nightly: type checking, trait resolution, MIR construction")
    chk.assume("user-supplied leaf filters/emitters meet the trait contracts (inductive hypothesis)")
    chk.exhaustive = True

    pipeline_rules(chk, P, "C01")

    # ---------------- S2: combinator contracts ------------------------------------------------------
    classified = 0
    emitter_bodies = [b for b in P.find(trait=EMITTER) if not b.is_closure and b.method in ("emit", "blocking_flush")]
    filter_bodies = [b for b in P.find(trait=FILTER) if not b.is_closure and b.method == "matches"]
    wrapping_bodies = [b for b in P.find(trait=WRAPPING) if not b.is_closure and b.method == "wrap"]
    dispatch = [b for b in P.bodies.values() if not b.is_closure and b.trait in (
        "emit_core::emitter::internal::DispatchEmitter", "emit_core::filter::internal::DispatchFilter",
        "emit_core::emitter::wrapping::internal::DispatchWrapping")]

    def fwd(b):
        key = "C01.S2.forward:%s" % b.key
        chk.ob(key, "forwarding impl: same-named method called exactly once on the inner value, "
                    "arguments passed through, result returned", lambda: common.forward_check(b), loc=b.span)

    n_fwd = 0
    for b in emitter_bodies + filter_bodies + wrapping_bodies:
        if common.is_wrapper_self(b.self_ty):
            fwd(b)
            n_fwd += 1
    for b in dispatch:
        fwd(b)
        n_fwd += 1
    chk.floor("forwarding Emitter/Filter/Wrapping impl methods (incl. erased bridge)", n_fwd, 23)

    # Option<T>
    def option_rule(trait, method, none_const):
        def f():
            b = P.impl_method(trait, "core::option::Option<T>" if trait != FILTER else "core::option::Option<F>", method)
            calls = b.calls_to(name=method)
            inner = [c for c in calls if common.origin_is_self_derived(b, c.args[0])[0]]
            if len(inner) != 1:
                return False, "Some arm must forward `%s` to the contained value exactly once" % method, [], b.span
            g = b.guards_of(inner[0].bb)
            if not any(b.switch_origin(bb)[0] == "discr" for bb, _, _ in g):
                return False, "forwarding call is not under a match on self", [], inner[0].loc
            others = [c for c in calls if c not in inner]
            for c in others:
                if "Empty" not in (c.callee.get("self_ty") or c.callee.get("full") or ""):
                    return False, "None arm calls %s, expected the Empty impl" % c, [], c.loc
            cnt = b.count_on_paths({c.bb for c in calls}) if others else b.count_on_paths({inner[0].bb})
            if others and cnt != (1, 1):
                return False, "not exactly one `%s` per path: %s" % (method, cnt), [], b.span
            if not others:
                if cnt[1] > 1:
                    return False, "forwarded more than once", [], b.span
            # path-wise: the Some path returns the inner result, the None path the Empty constant
            for rb in b.return_blocks():
                for path in b.acyclic_paths(0, rb):
                    ps = mir.PathSummary(b, path)
                    on = [c for c in calls if c.bb in ps.pos]
                    if b.local_ty(0) == "()":
                        continue
                    ret = ps.ret()
                    if on:
                        if not (ret[0] == "call" and ret[1].bb == on[0].bb):
                            return False, "a path that consults a filter/emitter returns %s instead of its result" % o_str(ret), [], on[0].loc
                    else:
                        v = mir.o_const_value(ret)
                        if v is not none_const:
                            return False, ("the None arm returns %s; an absent %s must behave as Empty (%s)"
                                           % (o_str(ret), method, none_const)), [], b.span
            ok, d, s = common.forward_check(b, min_calls=0, max_calls=1, check_return=False)[:3]
            if not ok:
                return False, d, [], b.span
            return True, "", [c.loc for c in calls]
        return f
    chk.ob("C01.S2.option:Emitter::emit", "Option<T>: Some forwards emit, None behaves as Empty", option_rule(EMITTER, "emit", None))
    chk.ob("C01.S2.option:Emitter::blocking_flush", "Option<T>: Some forwards blocking_flush, None behaves as Empty", option_rule(EMITTER, "blocking_flush", True))
    chk.ob("C01.S2.option:Filter::matches", "Option<F>: Some forwards matches, None behaves as Empty (accepts)", option_rule(FILTER, "matches", True))

    # Empty / Always
    def const_rule(key, want):
        def f():
            b = P.body(key)
            v = common.const_return(b)
            if v is not want:
                return False, "%s must return the constant %s on every path, returns %s" % (key, want, v), [], b.span
            eff = [c for c in b.calls(normal_only=True)]
            if eff:
                return False, "%s must not call anything: %s" % (key, eff), [], eff[0].loc
            return True, "", [b.span]
        return f
    chk.ob("C01.S2.empty:Emitter::blocking_flush", "Empty::blocking_flush is constant true with no effects",
           const_rule("<emit_core::empty::Empty as emit_core::emitter::Emitter>::blocking_flush", True))
    chk.ob("C01.S2.empty:Filter::matches", "Empty::matches is constant true",
           const_rule("<emit_core::empty::Empty as emit_core::filter::Filter>::matches", True))
    chk.ob("C01.S2.always:Filter::matches", "Always::matches is constant true",
           const_rule("<emit_core::filter::Always as emit_core::filter::Filter>::matches", True))

    def empty_emit():
        b = P.body("<emit_core::empty::Empty as emit_core::emitter::Emitter>::emit")
        eff = b.calls(normal_only=True)
        if eff:
            return False, "Empty::emit must do nothing, calls %s" % eff, [], eff[0].loc
        return True, "", [b.span]
    chk.ob("C01.S2.empty:Emitter::emit", "Empty::emit has no effects", empty_emit)

    # And<Emitter>
    def and_emit():
        b = P.impl_method(EMITTER, "emit_core::and::And<T, U>", "emit")
        calls = b.calls_to(trait=EMITTER, name="emit")
        tags = {}
        for c in calls:
            tags.setdefault(recv_tag(b, c), []).append(c)
        if set(tags) != {"left", "right"}:
            return False, "And::emit must emit to left() and right(); found receivers %s" % sorted(map(str, tags)), [], b.span
        for t, cs in tags.items():
            cnt = b.count_on_paths({c.bb for c in cs})
            if cnt != (1, 1):
                return False, "And::emit delivers to %s %s times per path (expected exactly once)" % (t, cnt), [], cs[0].loc
            for c in cs:
                if not common.has_root(b.origin(c.args[1]), "param", 2):
                    return False, "And::emit passes %s to %s, not the event" % (o_str(b.origin(c.args[1])), t), [], c.loc
        return True, "", [c.loc for c in calls]
    chk.ob("C01.S2.and:Emitter::emit", "And::emit delivers the same event to both sides exactly once on every path", and_emit)

    and_flush_rule(chk, P, "C01.S2.and:Emitter::blocking_flush")

    # And / Or filters
    def and_filter():
        b = P.impl_method(FILTER, "emit_core::and::And<T, U>", "matches")
        def order(d, ev):
            if ev[:1] != ["left"]:
                return False
            if "right" in ev and d.get("left") is not True:
                return False
            return ev.count("left") == 1 and ev.count("right") <= 1
        return bool_table(b, "matches", ["left", "right"], lambda a: a["left"] and a["right"], order)
    chk.ob("C01.S2.and:Filter::matches", "And<Filter> = left && right, right evaluated only when left accepts", and_filter)

    def or_filter():
        b = P.impl_method(FILTER, "emit_core::or::Or<T, U>", "matches")
        def order(d, ev):
            if ev[:1] != ["left"]:
                return False
            if "right" in ev and d.get("left") is not False:
                return False
            return ev.count("left") == 1 and ev.count("right") <= 1
        return bool_table(b, "matches", ["left", "right"], lambda a: a["left"] or a["right"], order)
    chk.ob("C01.S2.or:Filter::matches", "Or<Filter> = left || right, right evaluated only when left rejects", or_filter)

    def same_event(b, calls):
        for c in calls:
            if not common.has_root(b.origin(c.args[1]), "param", 2):
                return False, "the event passed at %s is %s, not the event parameter" % (c.loc, o_str(b.origin(c.args[1]))), [], c.loc
        return None
    def andor_evt(ty, nm):
        def f():
            b = P.impl_method(FILTER, ty, "matches")
            r = same_event(b, b.calls_to(trait=FILTER, name="matches"))
            return r or (True, "", [b.span])
        return f
    chk.ob("C01.S2.and:Filter::matches.event", "And<Filter> shows both sides the same event", andor_evt("emit_core::and::And<T, U>", "and"))
    chk.ob("C01.S2.or:Filter::matches.event", "Or<Filter> shows both sides the same event", andor_evt("emit_core::or::Or<T, U>", "or"))

    # Wrap
    def wrap_emit():
        b = P.impl_method(EMITTER, "emit_core::emitter::Wrap<E, W>", "emit")
        ws = b.calls_to(trait=WRAPPING, name="wrap")
        if len(ws) != 1 or b.count_on_paths({ws[0].bb}) != (1, 1):
            return False, "Wrap::emit must call Wrapping::wrap exactly once", [], b.span
        w = ws[0]
        if recv_tag(b, w) != "wrapping":
            return False, "wrap is called on %s, not self.wrapping" % o_str(b.origin(w.args[0])), [], w.loc
        r, names = mir.o_field_path(b.origin(w.args[1]))
        if not (r[0] == "param" and r[1] == 1 and names == ["emitter"]):
            return False, "the output emitter given to wrap is %s, not self.emitter" % o_str(b.origin(w.args[1])), [], w.loc
        if not common.has_root(b.origin(w.args[2]), "param", 2):
            return False, "the event given to wrap is %s" % o_str(b.origin(w.args[2])), [], w.loc
        direct = b.calls_to(trait=EMITTER, name="emit")
        if direct:
            return False, "Wrap::emit also emits directly at %s, bypassing the wrapping" % direct[0].loc, [], direct[0].loc
        return True, "", [w.loc]
    chk.ob("C01.S2.wrap:Emitter::emit", "Wrap::emit = wrapping.wrap(&self.emitter, evt) exactly once, no direct emit", wrap_emit)

    def wrap_flush():
        b = P.impl_method(EMITTER, "emit_core::emitter::Wrap<E, W>", "blocking_flush")
        ok, d, s = common.forward_check(b)[:3]
        if not ok:
            return False, d, [], b.span
        c = b.calls_to(name="blocking_flush")[0]
        if recv_tag(b, c) != "emitter":
            return False, "flush goes to %s, not self.emitter" % o_str(b.origin(c.args[0])), [], c.loc
        return True, "", s
    chk.ob("C01.S2.wrap:Emitter::blocking_flush", "Wrap::blocking_flush forwards to the wrapped emitter", wrap_flush)

    # FromFilter wrapping: same shape as R4
    def from_filter():
        b = P.impl_method(WRAPPING, "emit_core::emitter::wrapping::FromFilter<F>", "wrap")
        ms = b.calls_to(trait=FILTER, name="matches")
        es = b.calls_to(trait=EMITTER, name="emit")
        if len(ms) != 1 or len(es) != 1:
            return False, "expected one matches and one emit, found %d/%d" % (len(ms), len(es)), [], b.span
        m, e = ms[0], es[0]
        if b.count_on_paths({m.bb}) != (1, 1) or b.count_on_paths({e.bb})[1] > 1:
            return False, "matches not exactly once or emit more than once", [], m.loc
        sw = [bb for bb, vals, n in b.guards_of(e.bb)
              if mir.o_is_call(b.switch_origin(bb)) and b.switch_origin(bb)[1].bb == m.bb]
        if not sw:
            return False, "emit is not guarded by the filter result", [], e.loc
        t = b.blocks[sw[0]]["term"]
        if any(v == "0" and b.edge_dominates(sw[0], n, e.bb) for v, n in t["targets"]):
            return False, "emit runs on the edge where the filter rejected", [], e.loc
        if not common.has_root(b.origin(m.args[1]), "param", 3) or not common.has_root(b.origin(e.args[1]), "param", 3):
            return False, "filter and output do not both see the event parameter", [], e.loc
        if not mir.o_is_param(b.origin(e.args[0]), idx=2):
            return False, "emits to %s, not the output parameter" % o_str(b.origin(e.args[0])), [], e.loc
        return True, "", [m.loc, e.loc]
    chk.ob("C01.S2.from_filter:Wrapping::wrap", "FromFilter::wrap emits to the output only on the accept edge, same event", from_filter)

    def one_conversion_for_filter_and_output():
        """`ToEvent::to_event` is user code and need not be pure.  Where a wrapping looks at the event twice - FromFilter::wrap asks the filter and then
        emits - both looks must be at *one* conversion: either the wrapping snapshots (`let evt = evt.to_event()`) before its first use, or
        every in-workspace caller of Wrapping::wrap hands it an already converted event (Wrap::emit passes `evt.to_event()`).  Otherwise the
        filter judges one conversion and the destination receives another."""
        b = P.impl_method(WRAPPING, "emit_core::emitter::wrapping::FromFilter<F>", "wrap")
        uses = [c for c in b.calls(normal_only=True) if (c.callee.get("trait") in (FILTER, EMITTER)) and c.callee.get("name") in ("matches", "emit")]
        raw = []
        for c in uses:
            o = b.origin(c.args[1])
            x, snap = o, False
            d = 0
            while d < 10:
                d += 1
                if x[0] in ("ref", "deref", "copy", "field"):
                    x = x[1]
                    continue
                if x[0] == "call" and x[1].callee.get("name") in ("to_event", "by_ref", "erase") and x[1].args:
                    snap = snap or x[1].callee.get("name") == "to_event"
                    x = b.origin(x[1].args[0])
                    continue
                break
            if not snap:
                raw.append(c)
        if len(raw) < 2:
            return True, "", ["FromFilter::wrap converts once itself"]
        w = P.impl_method(EMITTER, "emit_core::emitter::Wrap<E, W>", "emit")
        ws = w.calls_to(trait=WRAPPING, name="wrap")
        if len(ws) != 1:
            raise mir.AnchorMissing("Wrapping::wrap call in Wrap::emit")
        o = w.origin(ws[0].args[2])
        if not (o[0] == "call" and o[1].callee.get("name") == "to_event"):
            return False, ("Wrap::emit hands the wrapping %s, not one converted event, and FromFilter::wrap converts what it is given twice (once for the "
                           "filter at %s, once for the output at %s): with a ToEvent whose conversion is not pure the destination receives an event "
                           "its filter never saw" % (o_str(o), raw[0].loc, raw[1].loc)), [], ws[0].loc
        return True, "", [ws[0].loc, raw[0].loc, raw[1].loc]
    chk.ob("C01.S2.wrap:one-conversion", "the filter and the output of a filtering wrapping see one and the same conversion of the caller's value", one_conversion_for_filter_and_output)

    # leaf callables: fn(..) and FromFn<F> for Emitter / Filter / Wrapping
    def leaf(b, want_ret):
        def f():
            ind = [c for c in b.calls(normal_only=True)
                   if "indirect" in c.callee or c.callee.get("name") in ("call", "call_mut", "call_once")]
            if len(ind) != 1 or b.count_on_paths({ind[0].bb}) != (1, 1):
                return False, "the wrapped function must be called exactly once per path (%d sites)" % len(ind), [], b.span
            c = ind[0]
            fo = b.origin(c.callee["op"]) if "indirect" in c.callee else b.origin(c.args[0])
            r, _ = mir.o_field_path(fo)
            if not (r[0] == "param" and r[1] == 1):
                return False, "calls %s, not the function held by self" % o_str(fo), [], c.loc
            argroots = set()
            for a in c.args:
                argroots |= common.roots(b.origin(a))
            for p in range(2, b.argc + 1):
                if ("param", p) not in argroots:
                    return False, "parameter %s is not passed to the wrapped function" % (b.local_name(p) or p), [], c.loc
            # S3: bypass — a leaf never consults filter / clock / ctxt
            stray = [x for x in b.calls(normal_only=True) if x.callee.get("trait") in (FILTER, CLOCK, CTXT)
                     or (x.callee.get("trait") == EMITTER and b.trait != WRAPPING)]
            if stray:
                return False, "leaf impl consults %s" % stray, [], stray[0].loc
            if want_ret:
                ro = b.origin(0)
                if not (ro[0] == "call" and ro[1].bb == c.bb):
                    return False, "returns %s, not the wrapped function's result" % o_str(ro), [], c.loc
            return True, "", [c.loc]
        return f
    n_leaf = 0
    for b in emitter_bodies + filter_bodies + wrapping_bodies:
        st = b.self_ty or ""
        if (st.startswith("for<") or st.startswith("fn(") or "FromFn<F>" in st) and b.crate == "emit_core":
            if b.method == "blocking_flush":
                chk.ob("C01.S2.leaf:%s" % b.key, "function-backed emitter has nothing to flush: constant true",
                       const_rule(b.key, True))
            else:
                chk.ob("C01.S2.leaf:%s" % b.key, "function-backed impl calls its function exactly once with the event; "
                       "bypasses filter, clock and ctxt (S3)", leaf(b, b.trait == FILTER), loc=b.span)
            n_leaf += 1
    chk.floor("function-backed leaf impls", n_leaf, 7)

    # FirstDefined (call-site `when`)
    def first_defined():
        b = P.impl_method(FILTER, "emit::macro_hooks::FirstDefined<A, B>", "matches")
        calls = b.calls_to(trait=FILTER, name="matches")
        by = {}
        for c in calls:
            r, names = mir.o_field_path(b.origin(c.args[0]))
            if not (r[0] == "param" and r[1] == 1 and names):
                return False, "matches called on %s" % o_str(b.origin(c.args[0])), [], c.loc
            by.setdefault(names[0], []).append(c)
        if set(by) != {"0", "1"}:
            return False, "FirstDefined must consult field 0 (when) and field 1 (runtime filter), found %s" % sorted(by), [], b.span
        for rb in b.return_blocks():
            for path in b.acyclic_paths(0, rb):
                ps = mir.PathSummary(b, path)
                on = [c for c in calls if c.bb in ps.pos]
                if len(on) != 1:
                    return False, ("a path consults %d filters (%s); exactly one of `when` / runtime filter must "
                                   "decide" % (len(on), [c.loc for c in on])), [], b.span
                # which arm: decision on discriminant of self.0
                decs = [(o, vals) for _, o, vals in ps.decisions() if o[0] == "discr"]
                if not decs:
                    return False, "no match on the optional call-site filter", [], b.span
                o, vals = decs[0]
                r, names = mir.o_field_path(o[1])
                if names[:1] != ["0"]:
                    return False, "the match is on %s, not on the call-site filter" % o_str(o), [], b.span
                is_some = vals == ("1",) or (vals[0] == "otherwise" and vals[1] == ("0",))
                r2, n2 = mir.o_field_path(b.origin(on[0].args[0]))
                if is_some and n2[0] != "0":
                    return False, "when a call-site filter is given the runtime filter is consulted", [], on[0].loc
                if not is_some and n2[0] != "1":
                    return False, "without a call-site filter field %s is consulted" % n2[0], [], on[0].loc
                ret = ps.ret()
                if not (ret[0] == "call" and ret[1].bb == on[0].bb):
                    return False, "returns %s, not the deciding filter's result" % o_str(ret), [], on[0].loc
                if not common.has_root(b.origin(on[0].args[1]), "param", 2):
                    return False, "deciding filter is not shown the event", [], on[0].loc
        return True, "", [c.loc for c in calls]
    chk.ob("C01.S2.first_defined:Filter::matches", "call-site `when` overrides the runtime filter: exactly one decides, its result is returned", first_defined)

    runtime_rules(chk, P, "C01.S2.runtime")

    def ambient_runtime_is_live():
        """emit! without `rt:` goes through runtime::shared(): it must read the slot afresh on every call (exactly SHARED.get()), so an
        event emitted after initialisation uses the installed runtime even if something looked at the runtime before."""
        RT = "emit_core::runtime::"
        out = []
        for fn, static in (("shared", "SHARED"), ("internal", "INTERNAL")):
            if not P.has_body(RT + fn):
                if chk._overlay:
                    continue
                raise mir.AnchorMissing(RT + fn)
            b = P.body(RT + fn)
            stat = {str(v) for k, v in common.roots(b.origin(0)) if k == "const"}
            g = [c for c in [x for y in [b] + P.closures_of(b) for x in y.calls(normal_only=True)]]
            if len(g) != 1 or g[0].callee.get("name") != "get" or not any(x.endswith("runtime::" + static) for x in stat):
                return False, ("runtime::%s() is not exactly %s.get() (calls: %s): a cached or otherwise indirect read can keep handing out the "
                               "empty runtime after the slot has been initialised" % (fn, static, [c.callee.get("name") for c in g])), [], b.span
            out.append(b.span)
        return True, "", out
    chk.ob("C01.S2.runtime:ambient-is-live", "the ambient runtime accessor reads its slot on every call", ambient_runtime_is_live)

    # macro entry points
    def private_emit(key):
        def f():
            b = P.body(key)
            cs = b.calls_to(path="emit_core::emit")
            if len(cs) != 1 or b.count_on_paths({cs[0].bb}) != (1, 1):
                return False, "must call emit_core::emit exactly once per path", [], b.span
            c = cs[0]
            for i, w in enumerate(["emitter", None, "ctxt", "clock"]):
                if w is None:
                    continue
                o = b.origin(c.args[i])
                if not (mir.o_is_call(o, name=w) and mir.o_is_param(b.origin(o[1].args[0]), name="rt")):
                    return False, "argument %d is %s, expected rt.%s()" % (i, o_str(o), w), [], c.loc
            fo = b.origin(c.args[1])
            if not (fo[0] == "agg" and (fo[1].get("adt") or "").endswith("FirstDefined")):
                return False, "the filter passed is %s, not FirstDefined(when, rt.filter())" % o_str(fo), [], c.loc
            if not mir.o_is_param(fo[2][0], name="when"):
                return False, "FirstDefined.0 is %s, not the call-site `when`" % o_str(fo[2][0]), [], c.loc
            f1 = fo[2][1]
            if not (mir.o_is_call(f1, name="filter") and mir.o_is_param(b.origin(f1[1].args[0]), name="rt")):
                return False, "FirstDefined.1 is %s, not rt.filter()" % o_str(f1), [], c.loc
            return True, "", [c.loc]
        return f
    chk.ob("C01.S2.macro:__private_emit", "__private_emit passes FirstDefined(when, rt.filter()) and the runtime's emitter/ctxt/clock",
           private_emit("emit::macro_hooks::__private_emit"))
    chk.ob("C01.S2.macro:__private_emit_event", "__private_emit_event passes FirstDefined(when, rt.filter()) and the runtime's emitter/ctxt/clock",
           private_emit("emit::macro_hooks::__private_emit_event"))

    def emit_event_keeps_extent():
        """`emit!(evt: e)`: the event handed to the pipeline is the caller's event - optionally re-templated, its props extended - with its
        extent untouched: the pipeline (emit_core::emit) is what decides own-extent-else-clock.  The hook itself never sets an extent or
        reads the clock."""
        b = P.body("emit::macro_hooks::__private_emit_event")
        cs = b.calls_to(path="emit_core::emit")
        if len(cs) != 1:
            raise mir.AnchorMissing("the emit_core::emit call of __private_emit_event")
        names, seen = [], set()

        def chain(o, d=0):
            if d > 30 or id(o) in seen:
                return
            seen.add(id(o))
            if o[0] == "call":
                names.append(o[1].callee.get("name"))
                if o[1].args:
                    chain(b.origin(o[1].args[0]), d + 1)
            elif o[0] == "phi":
                for x in o[1]:
                    chain(x, d + 1)
            elif o[0] in ("field", "downcast", "ref", "deref", "copy"):
                chain(o[1], d + 1)
        chain(b.origin(cs[0].args[4]))
        if "to_event" not in names:
            return False, "the event passed on does not derive from the caller's event (%s)" % names, [], cs[0].loc
        bad = [n for n in names if n in ("with_extent", "with_ts", "with_mdl", "new")]
        if bad:
            return False, ("__private_emit_event rebuilds the event with %s before emitting it: an event that carries its own point or range extent "
                           "is emitted with another one (the pipeline alone applies own-extent-else-clock)" % bad[0]), [], cs[0].loc
        clk = [c for c in b.calls(normal_only=True) if c.callee.get("name") == "now"]
        if clk:
            return False, "__private_emit_event reads the clock itself at %s" % clk[0].loc, [], clk[0].loc
        return True, "", [cs[0].loc, "event chain: %s" % " <- ".join(n for n in names if n)]
    chk.ob("C01.S2.macro:emit_event-keeps-extent", "emit!(evt: ..) passes the caller's event on with its own extent", emit_event_keeps_extent)

    def call_site_props_first():
        """`emit!(evt: e, k: v)` and `evt!(props: base, k: v)`: a chained list answers a lookup with its first match, so the property written at
        the call site (including the macro's own `lvl`) has to be the *receiver* of and_props and the carried-in list its argument.  Decided by
        position in the hook's signature: the receiver roots in the hook's last parameter (`props`), the argument in the event / base list."""
        out = []
        # __private_emit_event: inside the map_props closure, captured `props` . and_props(closure parameter)
        b = P.body("emit::macro_hooks::__private_emit_event")
        aps = [(x, c) for x in [b] + P.closures_of(b) for c in x.calls(normal_only=True) if c.callee.get("name") == "and_props"]
        if len(aps) != 1:
            return False, "__private_emit_event must join the call site's props and the event's props with exactly one and_props, found %d" % len(aps), [], b.span
        x, c = aps[0]
        recv = common.root_param(P, x, x.origin(c.args[0], through_calls=("deref", "borrow", "by_ref")))
        arg = x.origin(c.args[1])
        if recv != 5:
            return False, ("__private_emit_event joins the props as %s.and_props(..): the call site's props (hook parameter 5) must be the receiver so "
                           "that they win over the carried-in event's on a duplicate key" % o_str(x.origin(c.args[0]))), [], c.loc
        if not (x.is_closure and arg[0] == "param"):
            return False, "the argument of and_props is %s, not the carried-in event's props (the map_props closure's parameter)" % o_str(arg), [], c.loc
        out.append(c.loc)
        # __private_evt: props.and_props(base_props)
        b = P.body("emit::macro_hooks::__private_evt")
        aps = [c for c in b.calls(normal_only=True) if c.callee.get("name") == "and_props"]
        if len(aps) != 1:
            return False, "__private_evt must join props and base props with exactly one and_props, found %d" % len(aps), [], b.span
        c = aps[0]
        recv = common.root_param(P, b, b.origin(c.args[0]))
        arg = common.root_param(P, b, b.origin(c.args[1]))
        if (recv, arg) != (5, 4):
            return False, ("__private_evt joins the props as (parameter %s).and_props(parameter %s): the call site's props (5) must come before "
                           "the base props (4)" % (recv, arg)), [], c.loc
        out.append(c.loc)
        return True, "", out
    from . import c17
    c17.span_filter_sees_level(chk, P, "C01.S2.macro:span-filter-sees-level")
    chk.ob("C01.S2.macro:call-site-props-first", "props written at the call site precede (win over) the carried-in event's / base props", call_site_props_first)

    # unclassified impls: generic discipline only (no alarm for shape)
    def when_absent_is_none():
        """The tokens interpolated at a hook's `when` position come from an `Option<TokenStream>` turned into tokens by
        ToOptionTokens (absent argument -> `None`, so the runtime's filter applies) - never from a bare token stream, which that
        helper renders as `Some(..)` (a call-site filter that always overrides the runtime's)."""
        from . import quotes
        n = 0
        for mb in P.by_crate["emit_macros"]:
            for hook, args, loc, lits in quotes.hook_calls(mb):
                pn = quotes.hook_params(P, hook)
                if not pn or "when" not in pn or pn[:1] == ["self"]:
                    continue
                i = pn.index("when")
                if i >= len(args):
                    continue
                for op in args[i]:
                    o = mb.origin(op)
                    if o[0] == "param":
                        continue   # built by the caller (checked where it is built)
                    n += 1
                    if not (o[0] == "call" and o[1].callee.get("name") == "to_option_tokens"
                            and (o[1].callee.get("self_ty") or "").startswith("core::option::Option<")):
                        return False, ("the generated call of %s at %s gets its `when` argument from %s: it must be an Option turned into tokens "
                                       "(absent -> None); a bare token stream becomes Some(..) and every such call site would bypass the "
                                       "runtime's filter" % (hook, loc, o_str(o))), [], loc
                    recv = mb.origin(o[1].args[0])
        if n < 4:
            raise mir.AnchorMissing("`when` positions of generated hook calls (found %d)" % n)
        return True, "", ["%d generated calls" % n]
    chk.ob("C01.S2.macro:when-absent-is-none", "without a `when` argument the expansion passes None, so the runtime's filter decides", when_absent_is_none)

    # macro/runtime boundary: what the expansion passes at each named hook parameter (read off emit_macros' quote! templates)
    from . import quotes
    quotes.boundary_rule(chk, P, "C01", {"__private_emit", "__private_emit_event", "__private_evt"}, 4)
    # the event the pipeline hands on is rebuilt by builder steps (with_extent, map_props, ...): none may drop or cross-wire a field
    common.builder_rules(chk, P, "C01", lambda b: b.key.startswith("emit_core::event::Event::<") or (b.self_ty or "").startswith("emit_core::event::Event<"), 6)
    if chk.tier == "thorough":
        # the no_std / no-alloc build of emit_core has its own copy of the pipeline
        try:
            P2 = mir.Program("K2a")
            chk.use_program(P2)
            pipeline_rules(chk, P2, "C01.K2a")
            for key, want in (("<emit_core::empty::Empty as emit_core::emitter::Emitter>::blocking_flush", True),
                              ("<emit_core::empty::Empty as emit_core::filter::Filter>::matches", True)):
                def f(key=key, want=want):
                    b = P2.body(key)
                    v = common.const_return(b)
                    if v is not want:
                        return False, "%s returns %s in the no_std build" % (key, v), [], b.span
                    return True, "", [b.span]
                chk.ob("C01.K2a.S2.empty:%s" % key, "Empty is inert in the no_std build too", f)
        except SystemExit as e:
            chk.fail("C01.K2a", "emit_core --no-default-features compiles", str(e))
    uncl = []
    for b in emitter_bodies + filter_bodies + wrapping_bodies:
        if b.crate in ("emit_core",) or "FirstDefined" in (b.self_ty or ""):
            continue
        uncl.append(b.key)
    chk.extra["unclassified_impls_generic_rule_only"] = sorted(uncl)
    if not getattr(chk, "_overlay", None):
        common.pull_overrides_rule(chk, P, "C01.S2.props:pull-overrides")
        from . import c20
        c20.every_runtime_whole_rule(chk, P, "C01.S2.runtime:every-runtime-whole")
    common.wrapper_family_rule(chk, P, "C01", "emit_core::emitter::Emitter", 5, forward=False)
    common.wrapper_family_rule(chk, P, "C01", "emit_core::filter::Filter", 5, forward=False)
    return chk
