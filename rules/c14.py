"""C14 — each event goes to exactly one OTLP signal, chosen by kind, logs as fallback."""
import re

from . import common, mir
from .mir import o_str

EM = "emit_core::emitter::Emitter"
FILTER = "emit_core::filter::Filter"


def field_of_self(b, o):
    """first field name of self an origin is read from (through Some payloads / tuple fields)."""
    while o[0] in ("field", "downcast", "index", "cast"):
        r, names = mir.o_field_path(o)
        if r[0] == "param" and r[1] == 1 and names:
            return names[0], names
        o = o[1]
    if o[0] == "call" and o[1].args:
        return field_of_self(b, b.origin(o[1].args[0]))
    return None, []


def kind_table_agreement(chk, P, key):
    """Display and FromStr of `Kind` are two tables over the same variants: Display writes one constant text per variant, and in FromStr the
    accepting edge of the comparison with that text returns `Ok` of *that* variant, directly.  Shared with C15 (format-then-parse returns the
    original kind)."""
    def f():
        d = P.impl_method("core::fmt::Display", "emit::kind::Kind", "fmt")
        fs = P.impl_method("core::str::traits::FromStr", "emit::kind::Kind", "from_str")
        adt = P.adt("emit::kind::Kind")
        names = {str(v.get("discr", i)): v["name"] for i, v in enumerate(adt["variants"])}
        shown = {}
        for bb, t in d.switches():
            so = d.switch_origin(bb)
            if so[0] != "discr":
                continue
            for v, tgt in t["targets"] + [["otherwise", t["otherwise"]]]:
                txt = set()
                for x in range(len(d.blocks)):
                    if d.blocks[x].get("cleanup") or not (x == tgt or d.edge_dominates(bb, tgt, x)):
                        continue
                    for st in d.blocks[x]["stmts"]:
                        if st["k"] == "assign":
                            for o in d.rvalue_operands(st["rv"]):
                                cv = mir.o_const_value(d.origin(o)) if isinstance(o, dict) else None
                                if isinstance(cv, str) and cv:
                                    txt.add(cv)
                    tm = d.blocks[x]["term"]
                    if tm["k"] == "call":
                        for a in tm["args"]:
                            cv = mir.o_const_value(d.origin(a))
                            if isinstance(cv, str) and cv:
                                txt.add(cv)
                if txt:
                    shown[str(v)] = txt
        disp = {}
        for v, txt in shown.items():
            if v in names and len(txt) == 1:
                disp[names[v]] = list(txt)[0]
        if len(disp) < len(names) - (1 if "otherwise" in shown else 0) or len(disp) < 2:
            rest = [n for n in names.values() if n not in disp]
            if len(rest) == 1 and "otherwise" in shown and len(shown["otherwise"]) == 1:
                disp[rest[0]] = list(shown["otherwise"])[0]
        if len(disp) != len(names):
            raise mir.AnchorMissing("one constant text per Kind variant in Display (found %s)" % disp)
        parsed = {}
        for bb, t in fs.switches():
            so, pos = mir.norm_bool(fs.switch_origin(bb))
            if so[0] != "call" or so[1].callee.get("name") not in ("eq_ignore_ascii_case", "eq", "ne"):
                continue
            ks = [mir.o_const_value(fs.origin(a)) for a in so[1].args]
            ks = [k for k in ks if isinstance(k, str)]
            if len(ks) != 1:
                continue
            if so[1].callee.get("name") == "ne":
                pos = not pos
            for v, tgt in [(v, n) for v, n in t["targets"]] + [("otherwise", t["otherwise"])]:
                if ((str(v) != "0") == pos):
                    outs = set()
                    for rb in fs.return_blocks():
                        for path in fs.acyclic_paths(tgt, rb, limit=200):
                            # only paths that take no further decision: the accepting edge answers at once
                            if any(fs.blocks[x]["term"]["k"] == "switch" for x in path):
                                outs.add("<falls through to further tests>")
                                continue
                            r = mir.PathSummary(fs, [bb] + path).ret()
                            if r[0] == "agg" and r[1].get("variant") == "Ok" and r[2] and r[2][0][0] == "agg":
                                outs.add(r[2][0][1].get("variant"))
                            else:
                                outs.add(mir.o_str(r))
                    parsed[ks[0]] = outs
        for var, txt in sorted(disp.items()):
            got = parsed.get(txt) or next((o for k, o in parsed.items() if k.lower() == txt.lower()), None)
            if got != {var}:
                return False, ("Kind::%s is displayed as `%s`, but parsing `%s` yields %s: the text form does not come back as the kind it was written from"
                               % (var, txt, txt, sorted(got) if got else "no acceptance")), [], fs.span
        return True, "", ["%s <-> `%s`" % kv for kv in sorted(disp.items())]
    chk.ob(key, "each kind's text parses back to that kind (Display and FromStr tables agree, variant by variant)", f)


def run(chk):
    P = mir.Program("K1")
    chk.use_program(P)
    chk.explain("Rules over built MIR of emit_otlp and emit::kind: R1 on every path through OtlpInner::emit exactly one of "
                "{Sender::send x3, event_discarded.increment} happens; encoders are tried in the order metrics, traces, "
                "logs and each send uses the sender bound in the same tuple as the encoder that produced the payload; R2 "
                "the traces encoder yields a payload only under is_span_filter().matches and a range extent, the metrics "
                "encoder only under is_metric_filter().matches, a present metric value and points_from_value succeeding "
                "(its stream result is ?-checked; text/bool/null are errors), the logs encoder never declines; R3 "
                "is_span_filter/is_metric_filter build KindFilter(Span/Metric) and KindFilter::matches compares "
                "pull::<Kind>(evt_kind) with its own kind; R4 FromValue for Kind is downcast-then-Value::parse.")
    chk.trust("rustc nightly; sval::Stream contract (an Err from a stream method aborts streaming)")
    chk.assume("which runtime values sval reports for a given Rust value is not decided")
    chk.exhaustive = True

    ORDER = ["otlp_metrics", "otlp_traces", "otlp_logs"]

    def r1():
        b = P.impl_method(EM, "emit_otlp::client::OtlpInner", "emit")
        sends = [c for c in b.calls(normal_only=True) if (c.callee.get("path") or "").startswith("emit_batcher::Sender::<") and c.callee.get("name") == "send"]
        incs = [c for c in b.calls(normal_only=True) if c.callee.get("name") in ("increment", "increment_by")
                and mir.o_field_path(b.origin(c.args[0], through_calls=("deref",)))[1][-1:] == ["event_discarded"]]
        encs = [c for c in b.calls(normal_only=True) if c.callee.get("name") == "encode_event"]
        if len(sends) != 3 or len(incs) != 1 or len(encs) != 3:
            return False, "expected 3 sends, 3 encode_event calls and 1 discard increment, found %d/%d/%d" % (len(sends), len(encs), len(incs)), [], b.span
        enc_field = {}
        for c in encs:
            f, names = field_of_self(b, b.origin(c.args[0]))
            enc_field[c.bb] = f
        if sorted(enc_field.values()) != sorted(ORDER):
            return False, "encoders consulted: %s" % sorted(map(str, enc_field.values())), [], b.span
        for rb in b.return_blocks():
            for path in b.acyclic_paths(0, rb):
                ps = mir.PathSummary(b, path)
                s_on = [c for c in sends if c.bb in ps.pos]
                i_on = [c for c in incs if c.bb in ps.pos]
                e_on = [c for c in encs if c.bb in ps.pos]
                if len(s_on) + len(i_on) != 1:
                    return False, ("on a path through emit() the event is sent %d time(s) and discarded %d time(s); exactly "
                                   "one of the two must happen (sites: %s)" % (len(s_on), len(i_on), [c.loc for c in s_on + i_on])), [], (s_on + i_on + [encs[0]])[0].loc
                seq = [enc_field[c.bb] for c in e_on]
                if seq != [f for f in ORDER if f in seq]:
                    return False, "signals are tried in the order %s; metrics, then traces, then logs (fallback) is required" % seq, [], e_on[0].loc
                if s_on:
                    s = s_on[0]
                    sf, snames = field_of_self(b, b.origin(s.args[0]))
                    last = e_on[-1]
                    if sf != enc_field[last.bb]:
                        return False, ("a payload produced by the %s encoder is sent through the %s sender" % (enc_field[last.bb], sf)), [], s.loc
                    # the payload sent is the Some payload of that encode_event
                    pl = b.origin(s.args[1])
                    if not common.has_root(pl, "callsite", last.bb):
                        return False, "the item sent does not carry the payload of the encoder that accepted the event", [], s.loc
                    # and the decision on it was Some
                    dec = [vals for bbx, o, vals in ps.decisions() if o[0] == "discr" and o[1][0] == "call" and o[1][1].bb == last.bb]
                    if not dec or dec[-1] != ("1",):
                        return False, "send happens without the encoder having produced a payload", [], s.loc
                    # earlier encoders on the path declined
                    for c in e_on[:-1]:
                        d = [vals for bbx, o, vals in ps.decisions() if o[0] == "discr" and o[1][0] == "call" and o[1][1].bb == c.bb]
                        if d and d[-1] == ("1",):
                            return False, "an event accepted by the %s encoder falls through to %s" % (enc_field[c.bb], enc_field[last.bb]), [], c.loc
        return True, "", [c.loc for c in sends + incs]
    chk.ob("C14.R1:OtlpInner::emit", "exactly one of {send to metrics/traces/logs, count a discard} on every path; order metrics, traces, logs; encoder and sender from the same signal", r1)

    def filt_guard(b, target_bb, filt_fn):
        """target_bb is reached only on the accept edge of <filt_fn>().matches(..)"""
        ms = [c for c in b.calls(normal_only=True) if c.callee.get("name") == "matches" and (c.callee.get("trait") == FILTER or c.callee.get("impl_trait") == FILTER)]
        for m in ms:
            ro = b.origin(m.args[0])
            if not mir.o_is_call(ro, path="emit::kind::%s" % filt_fn):
                continue
            for gbb, vals, n in b.guards_of(target_bb):
                so, pos_ = mir.norm_bool(b.switch_origin(gbb))
                neg = not pos_
                if so[0] == "call" and so[1].bb == m.bb:
                    taken = list(vals) != ["0"]
                    if taken != neg:
                        return True, m
            return False, m
        return None, None

    def some_returns(b):
        return [(bb, s) for bb, j, s in b.statements(normal_only=True) if s["k"] == "assign" and s["place"]["l"] == 0 and "p" not in s["place"]
                and s["rv"]["k"] == "agg" and s["rv"].get("variant") == "Some"]

    def traces():
        b = P.impl_method("emit_otlp::data::EventEncoder", "emit_otlp::data::traces::TracesEventEncoder", "encode_event")
        somes = some_returns(b)
        if not somes:
            return False, "the traces encoder never produces a payload", [], b.span
        for bb, s in somes:
            ok, m = filt_guard(b, bb, "is_span_filter")
            if ok is None:
                return False, "the traces encoder does not consult is_span_filter()", [], b.span
            if not ok:
                return False, "a trace payload is produced for an event the span filter rejected", [], m.loc
            # the range extent: `?` on extent().and_then(as_range).map(..)
            okr = False
            for gbb, vals, n in b.guards_of(bb):
                so = b.switch_origin(gbb)
                if so[0] == "discr" and mir.o_is_call(so[1], name="branch") and list(vals) == ["0"]:
                    chain = b.origin(so[1][1].args[0])
                    names = []
                    x = chain
                    d = 0
                    while x[0] == "call" and d < 8:
                        names.append(x[1].callee.get("name"))
                        x = b.origin(x[1].args[0])
                        d += 1
                    if "extent" in names and ("and_then" in names or "as_range" in names):
                        okr = True
            if not okr:
                return False, "a trace payload is produced without requiring a range extent", [], "%s:%s" % (b.file, s.get("line"))
        ar = [c for x in [b] + P.closures_of(b) for c in x.calls(normal_only=True) if c.callee.get("name") == "as_range"]
        if not ar:
            return False, "the traces encoder accepts extents that are not ranges (no as_range)", [], b.span
        return True, "", [ar[0].loc]
    chk.ob("C14.R2:traces-encoder", "the traces signal takes an event only if it is span-kinded and has a range extent", traces)

    def traces_decline_reasons():
        """The traces encoder declines only for a non-span kind or an extent that is not a range: the Option chain whose `?` declines is
        extent() -> and_then(as_range) -> value-preserving map(s), with no further predicate (filter / take_if / a test on the range)."""
        b = P.impl_method("emit_otlp::data::EventEncoder", "emit_otlp::data::traces::TracesEventEncoder", "encode_event")
        br = [c for c in b.calls(normal_only=True) if c.callee.get("name") == "branch" and "Option" in (c.callee.get("self_ty") or c.callee.get("full") or "")]
        if not br:
            raise mir.AnchorMissing("the `?` on the extent chain of TracesEventEncoder::encode_event")
        for c in br:
            x = b.origin(c.args[0])
            d = 0
            names = []
            while x[0] == "call" and d < 10:
                d += 1
                nm = x[1].callee.get("name")
                names.append(nm)
                if nm in ("filter", "take_if", "xor", "zip", "or", "or_else", "filter_map"):
                    return False, ("the traces encoder narrows its extent with Option::%s at %s before the `?`: a span whose extent is a range "
                                   "(e.g. an empty range start..start) would be declined and exported as a log" % (nm, x[1].loc)), [], x[1].loc
                if nm == "and_then":
                    clo = b.origin(x[1].args[1])
                    if clo[0] == "agg" and clo[1].get("ak") == "closure":
                        cb = P.body(clo[1]["def"])
                        inner = [cc.callee.get("name") for cc in cb.calls(normal_only=True)]
                        if inner != ["as_range"] or list(cb.switches()):
                            return False, "the extent is tested by %s, not just as_range()" % inner, [], cb.span
                if nm == "map":
                    clo = b.origin(x[1].args[1])
                    if clo[0] == "agg" and clo[1].get("ak") == "closure" and list(P.body(clo[1]["def"]).switches()):
                        return False, "the value-preserving map of the extent chain branches", [], x[1].loc
                if not x[1].args:
                    break
                x = b.origin(x[1].args[0])
            if "extent" not in names:
                continue
        # and no other declining path
        for rb in b.return_blocks():
            for path in b.acyclic_paths(0, rb, limit=5000):
                ps = mir.PathSummary(b, path)
                r = ps.ret()
                if r[0] == "agg" and r[1].get("variant") == "None":
                    for sbb, o, v in ps.decisions():
                        o = mir.norm_bool(o)[0]
                        ok = (o[0] == "call" and o[1].callee.get("name") == "matches")
                        if not ok:
                            return False, "the traces encoder declines on a decision other than the span-kind filter (%s)" % o_str(o), [], b.span
        return True, "", [c.loc for c in br]
    chk.ob("C14.R2:traces-decline-reasons", "the traces encoder declines only for a non-span kind or an extent that is not a range", traces_decline_reasons)

    def metrics():
        b = P.impl_method("emit_otlp::data::EventEncoder", "emit_otlp::data::metrics::MetricsEventEncoder", "encode_event")
        somes = some_returns(b)
        if not somes:
            return False, "the metrics encoder never produces a payload", [], b.span
        pfv = [c for c in b.calls(normal_only=True) if c.callee.get("name") == "points_from_value"]
        if not pfv:
            return False, "the metrics encoder does not extract points from the metric value", [], b.span
        for c in pfv:
            if not common.result_checked(b, c):
                return False, "the result of points_from_value at %s is ignored: an unusable value would still be exported as a metric" % c.loc, [], c.loc
        for bb, s in somes:
            ok, m = filt_guard(b, bb, "is_metric_filter")
            if ok is None:
                return False, "the metrics encoder does not consult is_metric_filter()", [], b.span
            if not ok:
                return False, "a metric payload is produced for an event the metric filter rejected", [], m.loc
            # value present
            gv = False
            for gbb, vals, n in b.guards_of(bb):
                so = b.switch_origin(gbb)
                if so[0] == "discr":
                    x = so[1]
                    while x[0] in ("field", "downcast", "index"):
                        x = x[1]
                    if x[0] == "call" and x[1].callee.get("name") == "get" and mir.o_const_value(b.origin(x[1].args[1])) == "metric_value" and list(vals) == ["1"]:
                        gv = True
                    if x[0] == "agg":
                        for y in x[2]:
                            if y[0] == "call" and y[1].callee.get("name") == "get" and mir.o_const_value(b.origin(y[1].args[1])) == "metric_value" and list(vals) == ["1"]:
                                gv = True
            if not gv:
                return False, "a metric payload is produced without a metric_value being present", [], "%s:%s" % (b.file, s.get("line"))
        return True, "", [c.loc for c in pfv]
    chk.ob("C14.R2:metrics-encoder", "the metrics signal takes an event only if it is metric-kinded, has a value and points can be extracted from it", metrics)

    def metrics_decline_reasons():
        b = P.impl_method("emit_otlp::data::EventEncoder", "emit_otlp::data::metrics::MetricsEventEncoder", "encode_event")
        seen = 0
        for rb in b.return_blocks():
            for path in b.acyclic_paths(0, rb, limit=20000):
                ps = mir.PathSummary(b, path)
                r = ps.ret()
                if not (r[0] == "agg" and r[1].get("variant") == "None"):
                    continue
                seen += 1
                for sbb, o, vals in ps.decisions():
                    x = o
                    while x[0] in ("discr", "field", "downcast", "index"):
                        x = x[1]
                    if x[0] == "call" and x[1].callee.get("name") == "get" and len(x[1].args) > 1:
                        key = mir.o_const_value(ps.origin(x[1].args[1], at=ps.pos[sbb]))
                        absent = tuple(vals) in (("0",), (0,)) or (vals and vals[0] == "otherwise" and "1" in [str(v) for v in vals[1]])
                        if absent and key != "metric_value":
                            return False, ("the metrics encoder declines an event because the property `%s` is absent (decision at %s:%s): a "
                                           "metric-kinded event with a numeric value but no `%s` must still go through the metrics signal "
                                           "(as a gauge), not fall through to logs" % (key, b.file, b.blocks[sbb]["term"].get("line"), key)), [], "%s:%s" % (b.file, b.blocks[sbb]["term"].get("line"))
        if not seen:
            raise mir.AnchorMissing("declining paths of MetricsEventEncoder::encode_event")
        return True, "", ["%d declining paths" % seen]
    chk.ob("C14.R2:metrics-decline-reasons", "the metrics encoder declines only for a non-metric kind or a missing/unusable metric_value, never for another absent property", metrics_decline_reasons)

    def pfv_default():
        b = P.body("emit_otlp::data::metrics::DataPointBuilder::points_from_value")
        st = [c for c in b.calls(normal_only=True) if c.callee.get("name") == "stream" and "Value" in (c.callee.get("full") or c.callee.get("trait") or "")]
        if len(st) != 1:
            return False, "expected one Value::stream in points_from_value", [], b.span
        if not common.result_checked(b, st[0]):
            return False, ("the result of streaming the metric value at %s is ignored: text, bool, null or a partly numeric "
                           "sequence would not make the encoder decline and the event would be exported as a metric" % st[0].loc), [], st[0].loc
        # the check must lead to None: the branch's Break edge returns
        return True, "", [st[0].loc]
    chk.ob("C14.R2:points_from_value", "a value that cannot be streamed as numbers makes the metrics encoder decline (stream result is ?-checked)", pfv_default)

    def extract_rejects():
        meths = {}
        for b in P.by_crate["emit_otlp"]:
            if b.trait == "sval::stream::Stream" and "Extract<A>" in (b.self_ty or "") and not b.is_closure:
                meths[b.method] = b
        need = ["null", "bool", "text_begin", "text_fragment_computed", "text_end"]
        for n in need:
            if n not in meths:
                return False, "Extract does not override sval::Stream::%s (the default would accept it)" % n, [], None
            b = meths[n]
            r = b.origin(0)
            if not (mir.o_is_call(r, name="error") and not [c for c in b.calls(normal_only=True) if c.callee.get("name") != "error"]):
                return False, "Extract::%s returns %s; non-numeric values must be an error so the event falls back to logs" % (n, o_str(r)), [], b.span
        # nested sequences are rejected
        sb = meths.get("seq_begin")
        if sb is None:
            return False, "Extract lacks seq_begin", [], None
        return True, "", [meths[n].span for n in need]
    chk.ob("C14.R2:Extract-stream", "text, bool and null metric values are stream errors (the event then goes to logs)", extract_rejects)

    def logs():
        b = P.impl_method("emit_otlp::data::EventEncoder", "emit_otlp::data::logs::LogsEventEncoder", "encode_event")
        for rb in b.return_blocks():
            for path in b.acyclic_paths(0, rb, limit=5000):
                r = mir.PathSummary(b, path).ret()
                if r[0] == "agg" and r[1].get("variant") == "None":
                    return False, "the logs encoder declines an event on some path: the fallback signal must take everything", [], b.span
        if [c for c in b.calls(normal_only=True) if c.callee.get("name") == "branch"]:
            return False, "the logs encoder can return early with `?`", [], b.span
        return True, "", [b.span]
    chk.ob("C14.R2:logs-encoder", "the logs signal never declines an event", logs)

    def kind_filter(fn, variant):
        def f():
            b = P.body("emit::kind::%s" % fn)
            r = b.origin(0)
            x = r
            if mir.o_is_call(r, name="new"):
                x = b.origin(r[1].args[0])
            elif r[0] == "agg" and (r[1].get("adt") or "").endswith("KindFilter"):
                x = r[2][0]
            if not (x[0] == "agg" and x[1].get("adt") == "emit::kind::Kind" and x[1].get("variant") == variant):
                return False, "%s() filters on %s, not Kind::%s" % (fn, o_str(x), variant), [], b.span
            return True, "", [b.span]
        return f
    chk.ob("C14.R3:is_span_filter", "is_span_filter matches Kind::Span", kind_filter("is_span_filter", "Span"))
    chk.ob("C14.R3:is_metric_filter", "is_metric_filter matches Kind::Metric", kind_filter("is_metric_filter", "Metric"))

    def kf_matches():
        b = P.impl_method(FILTER, "emit::kind::KindFilter", "matches")
        pl = [c for c in b.calls(normal_only=True) if c.callee.get("name") == "pull" and "emit::kind::Kind" in (c.callee.get("full") or "")]
        if len(pl) != 1 or mir.o_const_value(b.origin(pl[0].args[1])) != "evt_kind":
            return False, "KindFilter::matches must pull::<Kind>(\"evt_kind\")", [], b.span
        r = b.origin(0)
        if not (r[0] == "call" and r[1].callee.get("name") in ("eq",)):
            return False, "KindFilter::matches returns %s, not an equality test" % o_str(r), [], b.span
        sides = [b.origin(a) for a in r[1].args]
        ok_pull = any(common.has_root(s, "callsite", pl[0].bb) for s in sides)
        ok_self = any(("param", 1) in common.roots(s) for s in sides)
        if not (ok_pull and ok_self):
            return False, "the comparison is not between the event's kind and the filter's kind", [], r[1].loc
        return True, "", [pl[0].loc]
    chk.ob("C14.R3:KindFilter::matches", "a kind filter accepts exactly the events whose evt_kind equals its kind", kf_matches)

    common.fromvalue_rule(chk, P, "C14", ["emit::kind::Kind"])
    # "a dropped event raises the discard counter by one": the counter cell is bumped with one atomic read-modify-write
    from . import batcher
    batcher.metrics_accounting(chk, P, "C14.metrics", ("emit_otlp",))

    def kind_display_parse():
        # Display constants and FromStr comparisons agree
        d = P.impl_method("core::fmt::Display", "emit::kind::Kind", "fmt")
        f = P.impl_method("core::str::traits::FromStr", "emit::kind::Kind", "from_str")
        def strs(b):
            out = set()
            for x in [b] + P.closures_of(b):
                for bb, j, s in x.statements(normal_only=True):
                    if s["k"] == "assign":
                        for o in x.rvalue_operands(s["rv"]):
                            v = mir.o_const_value(x.origin(o)) if isinstance(o, dict) else None
                            if isinstance(v, str) and v:
                                out.add(v)
                for c in x.calls(normal_only=True):
                    for a in c.args:
                        v = mir.o_const_value(x.origin(a))
                        if isinstance(v, str) and v:
                            out.add(v)
            return out
        ds, fs = strs(d), strs(f)
        if not ds:
            return False, "no Display constants found", [], d.span
        missing = [s for s in ds if s not in fs and not any(s.lower() == t.lower() for t in fs)]
        if missing:
            return False, "Kind displays as %s but FromStr compares with %s" % (sorted(ds), sorted(fs)), [], f.span
        return True, "", sorted(ds)
    chk.ob("C14.R3:Kind-text", "the kind's text form is what its parser recognises", kind_display_parse)
    kind_table_agreement(chk, P, "C14.R3:Kind-table")

    common.arg_agreement_rule(chk, P, "C14", [("emit_otlp", "src/client.rs"), ("emit_otlp", "src/data/metrics.rs"),
                                               ("emit_otlp", "src/data/traces.rs"), ("emit_otlp", "src/data/logs.rs"), ("emit", "src/kind.rs")], 5)
    common.builder_rules(chk, P, "C14", lambda b: b.key.startswith("emit_otlp::client::OtlpBuilder::") or b.key.startswith("emit::metric::Metric::<"), 8)
    # "no event is exported twice": an acknowledged request is removed before the next one is sent / before a retry (shared with C12)
    from . import c12
    c12.send_loop_rules(chk, P, "C14.send")
    from . import c13
    c13.tag_overrides_rule(chk, P, "C14.R2:tag-overrides")
    c13.points_declined_rule(chk, P, "C14.R2:declined-only-when-empty")
    c13.decline_conditions_rule(chk, P, "C14.R2:decline-conditions")
    c13.metric_seq_flag_rule(chk, P, "C14.R2:metric-seq-flag")
    return chk
