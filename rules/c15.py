"""C15 — text forms round-trip and every parser is total.

Decided: (R1) the never-panic regions of every parser entry point: each panic-capable site is discharged by
a structural / interval argument or by an allow row with a reason; range-indexing a str and sign-accepting
integer parsers are forbidden there; (R2) the hex codec tables (compile-time evaluated constants) are mutual
inverses with 0xff exactly for non-hex bytes; Level/Kind text constants agree between Display and FromStr;
(R3) the automaton extracted from is_valid_path sits between the strict and the loose path grammar; (R4) the
traceparent parser's constant offsets equal the layout its Display produces; FromValue casts are
downcast-then-Value::parse.  Not decided: timestamp format/parse identity, calendar conversion, ordering."""
import re

from . import common, mir, panics, pathdfa
from .mir import o_str

ENTRY_RE = re.compile(
    r"(as core::str::traits::FromStr>::from_str$|::try_from_str$|::try_from_hex$|::try_from_hex_slice$|"
    r"emit_core::timestamp::Timestamp::parse$|emit_core::value::Value::<'v>::parse$|"
    r"as emit_core::value::FromValue<'[a-z]+>>::from_value$|is_valid_path$|::is_child_of$|"
    r"Path::<'a>::new$|Path::<'a>::new_ref$|Path::<'a>::new_str$|Path::<'a>::segments$|parse_rfc3339|"
    r"Timestamp::from_parts$|emit::level::parse$|emit_traceparent::TraceFlags::|emit_traceparent::Tracestate|"
    r"emit::span::Buffer::<N>::|emit_core::buf::Buffer::<N>::|<emit::span::Buffer<N> as core::fmt::Write>|<emit_core::buf::Buffer<N> as core::fmt::Write>)")

ALLOW = {
    (r"ErasedCtxt \+ 'a\) as emit_core::ctxt::Ctxt>::with_current", "call:expect"):
        (1, "the erased with_current callback is taken exactly once (Option used to move an FnOnce through &mut dyn FnMut)"),
    (r"^emit::level::parse$", "index:slice"):
        (2, "callers (Level::from_str) only call parse after matching the first byte of a non-empty input, and pass a non-empty literal"),
    (r"^emit::span::Buffer::<N>::buffer$", "index:slice"):
        (1, "idx <= N is the buffer invariant maintained by write_str's guard (checked there)"),
    (r"^emit_core::buf::Buffer::<N>::buffer$", "index:slice"):
        (1, "idx <= N is the buffer invariant maintained by write_str's guard (checked there)"),
    (r"^emit_core::buf::Buffer::<N>::", "index:slice"):
        (1, "same invariant"),
    (r"^emit_core::timestamp::parse_rfc3339$", "assert:overflow:Sub"):
        (1, "9 - subsecond.len(): the fraction has between 1 and 9 digits by the length checks (20 < len <= 30)"),
    (r"^emit_core::timestamp::parse_rfc3339$", "assert:overflow:Mul"):
        (1, "at most 9 digits times 10^(9-digits) < 10^9 fits u32"),
    (r"^emit_core::timestamp::parse_rfc3339::digits$", "assert:overflow:Mul"):
        (1, "at most 9 decimal digits fit u32"),
    (r"^emit_core::timestamp::parse_rfc3339::digits$", "assert:overflow:Sub"):
        (1, "b - b'0' under is_ascii_digit(b)"),
    (r"^emit_core::timestamp::parse_rfc3339::digits$", "assert:overflow:Add"):
        (1, "at most 9 decimal digits fit u32"),
    # calendar arithmetic over bounded parts (u16 years, u8 others): declared not decided; counts frozen on the repaired tree
    (r"^<emit(_core)?::(span|buf)::Buffer<N> as core::fmt::Write>::write_str$", "assert:overflow:Add"):
        (1, "idx <= N (invariant) plus the length of an in-memory str cannot overflow usize"),
    (r"^emit_core::timestamp::Timestamp::from_parts$", "assert:overflow:Add"): (12, "calendar arithmetic over bounded parts (not decided)"),
    (r"^emit_core::timestamp::Timestamp::from_parts$", "assert:overflow:Mul"): (8, "calendar arithmetic over bounded parts (not decided)"),
    (r"^emit_core::timestamp::Timestamp::from_parts$", "assert:overflow:Sub"): (3, "calendar arithmetic over bounded parts (not decided)"),
}


OVERLAYS = ('K2b', 'K2a')


def id_hex_rules(chk, P, prefix, span_only=False):
    """Hex codec of trace/span ids (and trace flags): compiler-evaluated tables are mutual inverses, both cases accepted, 0xff exactly
    for non-hex bytes, and the decoders test the sentinel.  Shared with C04 (incoming ids given as hex strings)."""
    def table(path):
        c = P.consts.get(path)
        if c is None or "v" not in c or "bytes" not in c["v"]:
            raise mir.AnchorMissing("evaluated constant table %s" % path)
        return c["v"]["bytes"]

    def hex_tables(enc_p, dec_p, shl_p=None):
        def f():
            enc, dec = table(enc_p), table(dec_p)
            if len(enc) != 16 or len(dec) != 256:
                return False, "unexpected table sizes %d/%d" % (len(enc), len(dec)), [], None
            for i in range(16):
                if dec[enc[i]] != i:
                    return False, "decode[encode[%d]] = %d: the hex tables are not inverse" % (i, dec[enc[i]]), [], None
            if bytes(enc) != b"0123456789abcdef":
                return False, "encode table is %r, not lower-case hex" % bytes(enc), [], None
            for cch in range(256):
                ch = chr(cch)
                want = int(ch, 16) if ch in "0123456789abcdefABCDEF" else 0xff
                if dec[cch] != want:
                    return False, "decode[%r] = %d, expected %d (0xff exactly for non-hex bytes, both cases accepted)" % (ch, dec[cch], want), [], None
            if shl_p:
                shl = table(shl_p)
                for i in range(16):
                    if shl[i] != (i << 4):
                        return False, "SHL4[%d] = %d, expected %d" % (i, shl[i], i << 4), [], None
            return True, "", [enc_p, dec_p]
        return f
    chk.ob("%s.R2:hex-tables:emit::span" % prefix, "trace/span id hex tables: decode inverts encode, 0xff exactly for non-hex, nibble shift table exact",
           hex_tables("emit::span::HEX_ENCODE_TABLE", "emit::span::HEX_DECODE_TABLE", "emit::span::SHL4_TABLE"))
    if not span_only:
      chk.ob("%s.R2:hex-tables:TraceFlags" % prefix, "trace flags hex tables: decode inverts encode, 0xff exactly for non-hex",
             hex_tables("emit_traceparent::TraceFlags::to_hex::HEX_ENCODE_TABLE", "emit_traceparent::TraceFlags::try_from_hex_slice::HEX_DECODE_TABLE"))

    def hex_use(key, n):
        def f():
            b = P.body(key)
            # the sentinel test: (h1 | h2) == 0xff -> Err
            ok = False
            for bb, t in b.switches():
                so = b.switch_origin(bb)
                if so[0] == "binop" and so[1] == "Eq" and mir.o_const_value(so[3]) == 0xff and so[2][0] == "binop" and so[2][1] == "BitOr":
                    ok = True
            if not ok:
                return False, "the 0xff sentinel of the decode table is not checked (an invalid hex digit would be accepted)", [], b.span
            return True, "", [b.span]
        return f
    chk.ob("%s.R2:sentinel:TraceId" % prefix, "an invalid hex digit is rejected through the 0xff sentinel", hex_use("emit::span::TraceId::try_from_hex_slice", 16))
    chk.ob("%s.R2:sentinel:SpanId" % prefix, "an invalid hex digit is rejected through the 0xff sentinel", hex_use("emit::span::SpanId::try_from_hex_slice", 8))
    if not span_only:
      chk.ob("%s.R2:sentinel:TraceFlags" % prefix, "an invalid hex digit is rejected through the 0xff sentinel", hex_use("emit_traceparent::TraceFlags::try_from_hex_slice", 1))


def run(chk):
    P = mir.Program("K1")
    chk.use_program(P)
    chk.explain("R1 panic-site inventory over the workspace call-graph closure of every parser entry point (FromStr impls, "
                "try_from_str/hex, Value::parse, FromValue casts, Path constructors/is_valid_path/is_child_of, parse_rfc3339, "
                "from_parts, the id text buffers) with interval-lite discharges (constants, type ranges, dominating length and "
                "comparison guards, x % len, u8-indexed 256-tables, guarded ranges, get(0)-guarded [1..], is_char_boundary-"
                "guarded split_at) and an allow table; str range indexing and sign-accepting integer parsers are forbidden; R2 "
                "hex tables evaluated by the compiler are checked as data; R3 path-grammar automaton extraction; R4 "
                "traceparent layout constants; FromValue sibling agreement.")
    chk.trust("rustc nightly incl. const evaluation; unicode_ident predicates modelled as class membership")
    chk.assume("format-then-parse identity for timestamps, calendar conversion 1970-9999 and lexicographic order are arithmetic over "
               "runtime values and are not decided; acceptance of every well-formed level text is not decided")
    chk.exhaustive = False

    entries = [b for k, b in P.bodies.items() if ENTRY_RE.search(k) and b.crate in ("emit", "emit_core", "emit_traceparent")]
    chk.floor("parser entry points", len(entries), 60)
    seen, pred = P.reachable(entries, follow=("direct", "closure", "fanout"))
    region = [P.bodies[k] for k in sorted(seen) if P.bodies[k].crate in ("emit", "emit_core", "emit_traceparent")]
    # to_parts is formatting, not parsing
    region = [b for b in region if not b.key.endswith("Timestamp::to_parts") and "fmt_rfc3339" not in b.key
              and not b.kind.startswith(("Const", "Static", "AssocConst", "InlineConst"))]
    chk.floor("bodies in the never-panic regions", len(region), 250)

    # ---- R1 -------------------------------------------------------------------------------------------------
    n, u = panics.inventory_rule(chk, "C15.R1.panic", P, region, ALLOW,
                                 "parsing code has no unaccounted panic-capable site (any input returns a value or an error)")
    chk.floor("panic-capable sites inventoried in the parser regions", n, 80)

    # a failure reported by a callee must not be dropped: the text that follows it is not what was asked for
    IGNORED_OK = {("emit_core::value::Value::<'v>::parse", "visit"): "the visitor's slot stays None when the visit fails; the slot is the result"}

    def results_inspected():
        bad, n = [], 0
        for b in region:
            for c in b.calls(normal_only=True):
                if c.dest is None or "p" in c.dest:
                    continue
                if not re.match(r"(core::result::)?Result<", b.local_ty(c.dest["l"])):
                    continue
                n += 1
                if (b.key, c.callee.get("name")) in IGNORED_OK:
                    continue
                if not common.result_checked(b, c):
                    bad.append((b, c))
        if n < 80 and not getattr(chk, "_overlay", None):
            return False, "only %d Result-returning call sites found in the parser regions (expected >= 80)" % n, [], None
        if bad:
            b, c = bad[0]
            return False, ("%s discards the Result of %s at %s: a failed step (text that does not fit, a refused write) goes on "
                           "to be parsed or returned as if it had succeeded" % (b.key, c.callee.get("name"), c.loc)), [], c.loc
        return True, "", ["%d Result-returning call sites in the parser regions, each inspected (?, match, is_ok, returned, passed on); "
                          "%d allow-listed with a reason" % (n, len(IGNORED_OK))]
    chk.ob("C15.R1:results-inspected", "no Result produced inside a parser (text buffering included) is discarded", results_inspected)

    def forbidden():
        bad = []
        nsite = 0
        for b in region:
            for s in panics.sites(b):
                if s["kind"] == "index:str-range":
                    bad.append((b, s["loc"], "range-indexes a str (panics when an offset is not on a char boundary)"))
            for c in b.calls(normal_only=True):
                nsite += 1
                p = c.callee.get("path") or ""
                if c.callee.get("name") == "from_str_radix" or re.search(r"core::num::<impl core::str::traits::FromStr for [iu]", c.callee.get("resolved") or p):
                    # integer parsers accept a leading sign: not for fixed-layout digit fields
                    if re.search(r"timestamp|traceparent|span::(TraceId|SpanId)|TraceFlags", b.key):
                        bad.append((b, c.loc, "uses a sign-accepting integer parser (%s) on a fixed-layout digit field" % (c.callee.get("name"))))
        if bad:
            b, loc, why = bad[0]
            return False, "%s %s at %s" % (b.key, why, loc), [], loc
        return True, "", ["%d call sites scanned" % nsite]
    chk.ob("C15.R1:forbidden-constructs", "no str range indexing and no sign-accepting integer parser in fixed-layout parsers", forbidden)

    # ---- R2 ---------------------------------------------------------------------------------------------------
    id_hex_rules(chk, P, "C15")

    def level_text():
        d = P.impl_method("core::fmt::Display", "emit::level::Level", "fmt")
        f = P.impl_method("core::str::traits::FromStr", "emit::level::Level", "from_str")
        def consts_of(b):
            out = set()
            for x in [b] + P.closures_of(b):
                for c in x.calls(normal_only=True):
                    for a in c.args:
                        v = mir.o_const_value(x.origin(a))
                        if isinstance(v, str) and v:
                            out.add(v)
                        if isinstance(v, bytes) and v:
                            out.add(v.decode("latin1"))
                for bb, j, s in x.statements(normal_only=True):
                    if s["k"] == "assign":
                        for o in x.rvalue_operands(s["rv"]):
                            v = mir.o_const_value(x.origin(o))
                            if isinstance(v, str) and v:
                                out.add(v)
                            if isinstance(v, bytes) and v:
                                out.add(v.decode("latin1"))
            return out
        ds, fs = consts_of(d), consts_of(f)
        if len(ds) < 4:
            return False, "expected four level names in Display, found %s" % sorted(ds), [], d.span
        for s in ds:
            if not any(w.upper().startswith(s.upper()) for w in fs):
                return False, "Level displays as %r, which is not a prefix of any word from_str matches (%s)" % (s, sorted(fs)), [], f.span
        return True, "", sorted(ds)
    chk.ob("C15.R2:Level-text", "each level's Display text is an accepted prefix of the word its parser matches", level_text)

    # ---- R3 -----------------------------------------------------------------------------------------------------
    chk.ob("C15.R3:path-grammar", "the automaton extracted from is_valid_path accepts every ident(::ident)* and nothing outside seg(::seg)*",
           lambda: pathdfa.check(P))

    # every way a Path comes into existence from a runtime string goes through the grammar check
    RAW_ALLOW = {
        "append": "the concatenation `a::b` + `::` + `c::d` of two valid paths is a valid path",
    }

    def unvalidated_paths():
        PATH = "emit_core::path::Path"
        ev, bad, n = [], [], 0
        for b in P.bodies.values():
            if b.crate not in ("emit", "emit_core", "emit_traceparent") or b.kind.startswith(("Const", "Static", "AssocConst", "InlineConst")):
                continue
            fn = b.key.rsplit("::", 1)[-1]
            own = mir._strip_lifetimes(b.self_ty or "").split("<")[0] == PATH or "impl emit_core::path::Path<" in b.key
            for bb, j, st in b.statements(normal_only=True):
                rv = st.get("rv") if st["k"] == "assign" else None
                if not rv or rv["k"] != "agg" or (rv.get("adt") or "").split("<")[0] != PATH:
                    continue
                n += 1
                o = b.origin(rv["ops"][0]) if rv.get("ops") else ("unknown",)
                if own and fn.endswith("_raw"):
                    ev.append("%s: the documented unchecked constructor" % b.key)
                    continue
                # a copy of an existing path's text
                if derives_self_text(b, o):
                    ev.append("%s: re-wraps the text of an existing Path" % b.key)
                    continue
                g = common.guarded_true(b, bb, lambda c: c.callee.get("name") == "is_valid_path" and c.args and
                                        common.derives_from_root_param(P, b, b.origin(c.args[0]), 1, through=("get", "as_ref", "deref", "as_str", "borrow")))
                if g is not None and mir.o_is_param(o, idx=1):
                    ev.append("%s: constructed on the true edge of is_valid_path(<the same text>) at %s" % (b.key, g.loc))
                    continue
                bad.append((b, st.get("loc") or b.span, "constructs a Path from %s without the grammar check" % mir.o_str(o)))
            for c in b.calls(normal_only=True):
                nm = c.callee.get("name") or ""
                if not (nm.endswith("_raw") and "emit_core::path::Path" in (c.callee.get("path") or "")):
                    continue
                n += 1
                if own and fn.endswith("_raw"):
                    ev.append("%s -> %s: unchecked wrapper of the unchecked constructor" % (b.key, nm))
                    continue
                if own and fn in RAW_ALLOW:
                    ev.append("%s -> %s: %s" % (b.key, nm, RAW_ALLOW[fn]))
                    continue
                rs = common.roots(b.origin(c.args[0])) if c.args else set()
                if rs and all(r[0] == "const" for r in rs):
                    ev.append("%s -> %s: constant text" % (b.key, nm))
                    continue
                bad.append((b, c.loc, "passes runtime text to the unchecked constructor %s" % nm))
        if n < 10 and not getattr(chk, "_overlay", None):
            return False, "only %d Path construction sites found (expected >= 10)" % n, [], None
        if bad:
            b, loc, why = bad[0]
            return False, "%s %s at %s: a malformed path (empty segment, leading/trailing `::`) is accepted instead of rejected" % (b.key, why, loc), [], loc
        return True, "", ev

    def derives_self_text(b, o):
        d = 0
        while d < 10:
            d += 1
            if o[0] == "call" and o[1].callee.get("name") in ("by_ref", "to_owned", "clone", "to_cow", "deref", "borrow") and o[1].args:
                o = b.origin(o[1].args[0])
                continue
            if o[0] == "field" and str(o[2]) == "0" and (mir.o_is_param(o[1], idx=1) or (o[1][0] == "deref" and mir.o_is_param(o[1][1], idx=1))):
                return True
            if o[0] in ("ref", "deref", "copy"):
                o = o[1]
                continue
            return False
        return False
    chk.ob("C15.R3:unvalidated-paths", "a Path is only built from runtime text on the accepting edge of is_valid_path; the unchecked "
           "constructors are called with constant text or from the allow table", unvalidated_paths)

    def is_child_of():
        b = P.body("emit_core::path::Path::<'a>::is_child_of")
        sa = [c for c in b.calls(normal_only=True) if c.callee.get("name") == "split_at"]
        sw = [c for c in b.calls(normal_only=True) if c.callee.get("name") == "starts_with"]
        if len(sa) != 1 or len(sw) != 1:
            return False, "is_child_of must split at the parent's length and test the '::' boundary", [], b.span
        v = mir.o_const_value(b.origin(sw[0].args[1]))
        if v != "::":
            return False, "the boundary tested is %r, not '::'" % (v,), [], sw[0].loc
        return True, "", [sa[0].loc, sw[0].loc]
    chk.ob("C15.R3:is_child_of", "ancestry is decided at a '::' boundary after a char-boundary-checked split", is_child_of)

    # ---- R4 ------------------------------------------------------------------------------------------------------
    def traceparent_layout():
        b = P.body("emit_traceparent::Traceparent::try_from_str")
        # total length
        tots = []
        for bb, t in b.switches():
            so = b.switch_origin(bb)
            if so[0] == "binop" and so[1] in ("Ne", "Eq") and so[2][0] == "call" and so[2][1].callee.get("name") == "len":
                src = b.origin(so[2][1].args[0], through_calls=("as_bytes", "deref"))
                if mir.o_is_param(src, idx=1):
                    tots.append(mir.o_const_value(so[3]))
        if tots != [55]:
            return False, "the header length required is %s, not 55" % tots, [], b.span
        seps = sorted({mir.o_const_value(b.origin(t["msg"]["index"])) for i, t in b.terminators("assert") if t["msg"]["k"] == "bounds"
                       and isinstance(mir.o_const_value(b.origin(t["msg"]["index"])), int)})
        if seps != [2, 35, 52]:
            return False, "separators are checked at offsets %s, the layout 00-<32 hex>-<16 hex>-<2 hex> puts them at [2, 35, 52]" % seps, [], b.span
        ranges = []
        for c in b.calls(normal_only=True):
            if c.callee.get("name") == "index" and len(c.args) > 1:
                ro = b.origin(c.args[1])
                if ro[0] == "agg" and (ro[1].get("adt") or "").endswith("range::Range"):
                    f = dict(zip(ro[1]["fields"], ro[2]))
                    ranges.append((mir.o_const_value(f["start"]), mir.o_const_value(f["end"])))
        if sorted(ranges) != [(0, 2), (3, 35), (36, 52), (53, 55)]:
            return False, "fields are read from %s, expected version 0..2, trace id 3..35, span id 36..52, flags 53..55" % sorted(ranges), [], b.span
        # every separator compared with '-'
        dashes = 0
        for bb, t in b.switches():
            so = b.switch_origin(bb)
            if so[0] == "binop" and so[1] in ("Ne", "Eq") and mir.o_const_value(so[3]) == 45:
                dashes += 1
        if dashes != 3:
            return False, "expected three comparisons with '-' (found %d)" % dashes, [], b.span
        # Display side: "00-" then ids then flags: lengths from the const-generic to_hex sizes
        th = {"TraceId": 32, "SpanId": 16}
        for ty, n in th.items():
            k = "emit::span::%s::to_hex" % ty
            sig = P.fns.get(k, {}).get("sig", "")
            if "[u8; %d]" % n not in sig:
                return False, "%s::to_hex returns %s, the parser reads %d bytes" % (ty, sig, n), [], None
        return True, "", [b.span]
    chk.ob("C15.R4:traceparent-layout", "the parser's constant offsets equal the 55-byte layout 00-<32>-<16>-<2> its formatter writes", traceparent_layout)

    def traceparent_fields_examined():
        """No accepting path of the traceparent parser skips a field: each of version, trace id, span id and flags is compared or decoded
        (a use of the slice read from its offsets) on every path that returns Ok."""
        b = P.body("emit_traceparent::Traceparent::try_from_str")
        fields = {}
        for c in b.calls(normal_only=True):
            if c.callee.get("name") == "index" and len(c.args) > 1:
                ro = b.origin(c.args[1])
                if ro[0] == "agg" and (ro[1].get("adt") or "").endswith("range::Range"):
                    f = dict(zip(ro[1]["fields"], ro[2]))
                    fields[(mir.o_const_value(f["start"]), mir.o_const_value(f["end"]))] = c
        if len(fields) < 4:
            raise mir.AnchorMissing("the four field slices of the traceparent parser (found %d)" % len(fields))
        oks = [bb for bb, j, st in b.statements(normal_only=True) if st["k"] == "assign" and st["place"]["l"] == 0 and "p" not in st["place"]
               and st["rv"]["k"] == "agg" and st["rv"].get("variant") == "Ok"]
        if not oks:
            raise mir.AnchorMissing("an Ok return in the traceparent parser")
        ev = []
        for rng, ic in sorted(fields.items()):
            # blocks that examine the slice: a call (eq / ne / try_from_hex_slice / ..) or comparison taking a value derived from it
            users = set()
            for c in b.calls(normal_only=True):
                if c is ic:
                    continue
                for a in c.args:
                    r = mir.o_root(b.origin(a))
                    if r[0] == "call" and r[1].bb == ic.bb:
                        users.add(c.bb)
            def from_slice(o, d=0):
                if d > 10:
                    return False
                if o[0] == "call":
                    return o[1].bb == ic.bb
                if o[0] in ("field", "downcast", "index", "cast", "ref", "deref", "copy", "discr"):
                    return from_slice(o[1], d + 1)
                if o[0] == "unop":
                    return from_slice(o[2], d + 1)
                if o[0] == "binop":
                    return from_slice(o[2], d + 1) or from_slice(o[3], d + 1)
                return False
            for sbb, t in b.switches():
                so = b.switch_origin(sbb)
                # a pattern match on the slice's bytes (not merely on its length)
                if from_slice(so) and not (so[0] == "binop" and "PtrMetadata" in mir.o_str(so)):
                    users.add(sbb)
            if not users:
                return False, "the bytes %d..%d of the header are sliced but never examined" % rng, [], ic.loc
            for ok in oks:
                if not b.must_pass(list(users), ends=[ok]):
                    return False, ("the traceparent parser can accept (Ok at block %d) without examining bytes %d..%d of the header: text that is "
                                   "malformed in that field is accepted instead of rejected" % (ok, rng[0], rng[1])), [], ic.loc
            ev.append("bytes %d..%d examined on every accepting path (%d use sites)" % (rng[0], rng[1], len(users)))
        return True, "", ev
    chk.ob("C15.R4:traceparent-fields-examined", "every accepting path of the traceparent parser has examined all four fields", traceparent_fields_examined)

    def traceparent_writer():
        bs = [b for b in P.find(trait="core::fmt::Display", method="fmt") if not b.is_closure and (b.self_ty or "") == "emit_traceparent::Traceparent"]
        if not bs:
            raise mir.AnchorMissing("Display for Traceparent")
        b = bs[0]
        pb = P.body("emit_traceparent::Traceparent::try_from_str")
        # the parser's all-zero sentinels (an absent id)
        sent = []
        for c in pb.calls(normal_only=True):
            if c.callee.get("name") in ("eq", "ne"):
                for a in c.args:
                    o = pb.origin(a)
                    v = o[1].get("v") if o[0] == "const" and isinstance(o[1], dict) else None
                    if isinstance(v, dict) and v.get("bytes") and set(v["bytes"]) == {48}:
                        sent.append(len(v["bytes"]))
        if sorted(sent) != [16, 32]:
            return False, "the parser's absent-id sentinels are all-zero strings of lengths %s, expected 32 and 16" % sorted(sent), [], pb.span
        n_paths = 0
        for rb in b.return_blocks():
            for path in b.acyclic_paths(0, rb, limit=2000):
                ps = mir.PathSummary(b, path)
                if any(o[0] == "call" and o[1].callee.get("name") == "branch" and tuple(v) in (("1",), (1,)) for sbb, o, v in
                       [(x, (y[1] if y[0] == "discr" else y), z) for x, y, z in ps.decisions()]):
                    continue   # an early return with the writer's error
                n_paths += 1
                seq = []
                for c in ps.calls():
                    nm = c.callee.get("name")
                    if nm == "write_str":
                        seq.append(("str", mir.o_const_value(b.origin(c.args[1]))))
                    elif nm == "write_char":
                        o = b.origin(c.args[1])
                        seq.append(("str", (o[1].get("v") or {}).get("char") if o[0] == "const" else None))
                    elif nm == "fmt" and c.callee.get("trait") == "core::fmt::Display":
                        names = [n for n in mir.o_field_path(b.origin(c.args[0], through_calls=("deref",)))[1] if not str(n).isdigit()]
                        seq.append(("field", names[0] if names else None))
                # normalise: concatenate constant text, keep id fields
                norm, buf = [], ""
                for k, v in seq:
                    if k == "str":
                        if v is None:
                            return False, "the formatter writes a non-constant separator", [], b.span
                        buf += v
                    else:
                        norm.append(buf)
                        norm.append(("F", v))
                        buf = ""
                norm.append(buf)
                flat = [x for x in norm if x != ""]
                # expected: "00-" (+ zeros32 "-")? ... with fields in order trace_id, span_id, trace_flags
                text = "".join(x if isinstance(x, str) else "<%s>" % x[1] for x in flat)
                want = []
                for tid in ("<trace_id>-", "0" * 32 + "-"):
                    for sid in ("<span_id>-", "0" * 16 + "-"):
                        want.append("00-" + tid + sid + "<trace_flags>")
                if text not in want:
                    return False, ("Display for Traceparent writes `%s` on some path; the parser expects 00-<32 hex>-<16 hex>-<2 hex> with all-zero "
                                   "ids (32 / 16 zeros) standing for absent ones" % text), [], b.span
        if n_paths != 4:
            return False, "expected the four present/absent combinations of trace id and span id, found %d complete paths" % n_paths, [], b.span
        return True, "", [b.span, pb.span]
    def flags_neutral():
        """A fixed-layout text form is the same text under every formatter: `format!("{:>40}", id)` or `{:.8}` must not pad or truncate it, because
        composite forms (the traceparent header) hand their own formatter on to their parts and parsers expect exact widths.  Structural part: the
        Display impls of the fixed-layout types write through write_str / write_char / write_fmt (whose placeholders carry their own, default
        flags), or delegate to another type of the same set - never through Formatter::pad* and never by handing the formatter to a Display impl
        outside the set (str's Display pads)."""
        SET = {"emit::span::TraceId", "emit::span::SpanId", "emit_traceparent::TraceFlags", "emit_traceparent::Traceparent",
               "emit_core::timestamp::Timestamp", "emit::level::Level", "emit::kind::Kind"}
        ev = []
        found = set()
        for b in P.find(trait="core::fmt::Display", method="fmt"):
            st = mir._strip_lifetimes(b.self_ty or "")
            if b.is_closure or st not in SET:
                continue
            found.add(st)
            todo, seen = [b], set()
            while todo:
                x = todo.pop()
                if x.key in seen:
                    continue
                seen.add(x.key)
                for c in x.calls(normal_only=True):
                    nm = c.callee.get("name") or ""
                    full = c.callee.get("path") or c.callee.get("full") or ""
                    if nm.startswith("pad") and "Formatter" in full:
                        return False, ("Display for %s writes through Formatter::%s at %s: width / precision flags pad or truncate a fixed-layout text form "
                                       "(a traceparent header formatted with flags would no longer be 55 bytes and would not parse back)" % (st, nm, c.loc)), [], c.loc
                    if nm == "fmt" and (c.callee.get("trait") or "").startswith("core::fmt::"):
                        tgt = mir._strip_lifetimes(c.callee.get("self_ty") or "")
                        tgt = tgt.lstrip("&").strip()
                        if tgt not in SET:
                            return False, ("Display for %s hands its formatter to %s's %s at %s: the caller's flags then apply to that part alone"
                                           % (st, tgt or "another type", c.callee.get("trait"), c.loc)), [], c.loc
                    t = c.target
                    if t and P.has_body(t) and P.body(t).crate in ("emit", "emit_core", "emit_traceparent") and any("Formatter" in (x.local_ty(i) or "") for i in range(1, P.body(t).argc + 1)) \
                            and not (nm == "fmt" and (c.callee.get("trait") or "").startswith("core::fmt::")):
                        todo.append(P.body(t))
            ev.append(b.span)
        want = SET if any(bb.crate == "emit_traceparent" for bb in P.bodies.values()) else {x for x in SET if not x.startswith("emit_traceparent")}
        if P.config != "K1":
            want = found
        if want - found:
            raise mir.AnchorMissing("Display impls of %s" % sorted(want - found))
        return True, "", ev
    _FIXED = ("emit::span::TraceId", "emit::span::SpanId", "emit_traceparent::TraceFlags", "emit_traceparent::Traceparent", "emit_traceparent::Tracestate",
              "emit_core::timestamp::Timestamp", "emit::level::Level", "emit::kind::Kind", "emit_core::path::Path<'a>", "emit_core::extent::Extent")
    common.results_inspected_rule(
        chk, P, "C15.R4:writers-propagate", "every write of a text form's Display impl hands its outcome on: a failed write ends the formatting with that error "
        "instead of producing the rest of the text around a hole",
        lambda b: (b.trait or "").startswith("core::fmt::") and (b.self_ty or "") in _FIXED and not b.is_closure or b.key.endswith("timestamp::fmt_rfc3339"),
        {}, 8)

    chk.ob("C15.R4:flags-neutral", "fixed-layout text forms (ids, flags, traceparent, timestamp, level, kind) ignore the caller's width / precision flags", flags_neutral)

    chk.ob("C15.R4:traceparent-writer", "the traceparent formatter writes version, ids (or the parser's all-zero sentinels) and flags in the parser's order with the parser's separators", traceparent_writer)

    def rfc3339_layout():
        b = P.body("emit_core::timestamp::parse_rfc3339")
        seps = {}
        for c in b.calls_to(path="emit_core::timestamp::parse_rfc3339::separator"):
            at = mir.o_const_value(b.origin(c.args[1]))
            ch = mir.o_const_value(b.origin(c.args[2]))
            if isinstance(at, int):
                seps[at] = chr(ch) if isinstance(ch, int) else ch
        want = {4: "-", 7: "-", 10: "T", 13: ":", 16: ":", 19: "."}
        for k, v in want.items():
            if seps.get(k) != v:
                return False, "separator at offset %d is checked as %r, RFC 3339 has %r there" % (k, seps.get(k), v), [], b.span
        # every `?` on a separator check
        for c in b.calls_to(path="emit_core::timestamp::parse_rfc3339::separator"):
            if not common.result_checked(b, c):
                return False, "a separator check's result is ignored at %s" % c.loc, [], c.loc
        # the zone: one more separator check, for `Z`, at an offset computed from the length (the last byte)
        zone = [c for c in b.calls_to(path="emit_core::timestamp::parse_rfc3339::separator")
                if mir.o_const_value(b.origin(c.args[2])) == ord("Z") and mir.o_const_value(b.origin(c.args[1])) is None
                and any(r_[0] == "callsite" or r_[0] == "param" for r_ in common.roots(b.origin(c.args[1])))]
        fp = [c for c in b.calls(normal_only=True) if c.callee.get("name") == "from_parts"]
        if not fp:
            raise mir.AnchorMissing("Timestamp::from_parts in parse_rfc3339")
        if len(zone) != 1 or not all(b.dominates(zone[0].bb, c.bb) for c in fp):
            return False, "the zone designator is not checked to be `Z` at the last byte on every accepting path: `2024-01-01T00:00:00+` or a local time would parse as UTC", [], b.span
        # the separator helper itself fails on a mismatch
        sp = P.body("emit_core::timestamp::parse_rfc3339::separator")
        tests = [(bb_, t_) for bb_, t_ in sp.switches() if mir.norm_bool(sp.switch_origin(bb_))[0][0] == "call"
                 and mir.norm_bool(sp.switch_origin(bb_))[0][1].callee.get("name") in ("ne", "eq")]
        if len(tests) != 1:
            raise mir.AnchorMissing("the comparison in parse_rfc3339::separator")
        sbb, st_ = tests[0]
        so_, pos_ = mir.norm_bool(sp.switch_origin(sbb))
        is_ne = so_[1].callee.get("name") == "ne"
        for v_, tgt_ in [(v_, n_) for v_, n_ in st_["targets"]] + [("otherwise", st_["otherwise"])]:
            truth = (str(v_) != "0") == pos_
            differ = truth if is_ne else not truth
            if differ:
                for rb_ in sp.return_blocks():
                    for path_ in sp.acyclic_paths(tgt_, rb_, limit=50):
                        r_ = mir.PathSummary(sp, [sbb] + path_).ret()
                        if not (r_[0] == "agg" and r_[1].get("variant") == "Err"):
                            return False, "separator() accepts a byte that differs from the expected one (its mismatch edge returns %s)" % mir.o_str(r_), [], sp.span
        # the fraction, when there is one, has at least one digit: `....00.Z` is not a timestamp
        emp = [(bb_, t_) for bb_, t_ in b.switches() if mir.norm_bool(b.switch_origin(bb_))[0][0] == "call"
               and mir.norm_bool(b.switch_origin(bb_))[0][1].callee.get("name") == "is_empty"]
        okf = False
        for bb_, t_ in emp:
            so_, pos_ = mir.norm_bool(b.switch_origin(bb_))
            for v_, tgt_ in [(v_, n_) for v_, n_ in t_["targets"]] + [("otherwise", t_["otherwise"])]:
                if ((str(v_) != "0") == pos_):
                    rets = [mir.PathSummary(b, [bb_] + path_).ret() for rb_ in b.return_blocks() for path_ in b.acyclic_paths(tgt_, rb_, limit=50)]
                    if rets and all(r_[0] == "agg" and r_[1].get("variant") == "Err" or (r_[0] == "call" and r_[1].callee.get("name") == "from_residual") for r_ in rets) \
                            and not any(c.bb in b.reachable_from(tgt_) for c in b.calls_to(path="emit_core::timestamp::parse_rfc3339::digits")):
                        okf = True
        if not okf:
            return False, "an empty fraction (`.` directly followed by `Z`) is not rejected before its digits are read", [], b.span
        dg = b.calls_to(path="emit_core::timestamp::parse_rfc3339::digits")
        if len(dg) != 7:
            return False, "expected 7 digit fields, found %d" % len(dg), [], b.span
        for c in dg:
            if not common.result_checked(b, c):
                return False, "a digit field's parse result is ignored at %s" % c.loc, [], c.loc
        return True, "", [b.span]
    chk.ob("C15.R4:rfc3339-layout", "every separator of the RFC 3339 layout is checked at its offset and every digit field is ?-checked", rfc3339_layout)

    # ---- the calendar shortcut: a leap rule without century terms is only right below 2100 -----------------------
    def year_offset(o):
        """(B) when `o` is parts.years - B (through casts / overflow-checked subtraction), else None"""
        d = 0
        while d < 10:
            d += 1
            if o[0] == "cast":
                o = o[1]
                continue
            if o[0] == "field" and o[1][0] == "binop":
                o = o[1]
                continue
            if o[0] == "binop" and o[1] in ("Sub", "SubWithOverflow"):
                base, k = o[2], mir.o_const_value(o[3])
                while base[0] == "cast":
                    base = base[1]
                if isinstance(k, int) and base[0] == "field" and base[2] == "years" and mir.o_is_param(base[1], idx=1):
                    return k
                return None
            if o[0] == "field" and o[2] == "years" and mir.o_is_param(o[1], idx=1):
                return 0
            return None
        return None

    def four_year_shortcut():
        bs = [x for k, x in P.bodies.items() if k.endswith("timestamp::Timestamp::from_parts")]
        if not bs:
            raise mir.AnchorMissing("Timestamp::from_parts")
        b = bs[0]

        def century_terms(blocks):
            for bb in blocks:
                for st in b.blocks[bb]["stmts"]:
                    rv = st.get("rv") if st.get("k") == "assign" else None
                    if rv and rv["k"] == "binop" and rv["op"] in ("Rem", "Div"):
                        v = mir.o_const_value(b.origin(rv["b"]))
                        if v in (100, 400):
                            return True
            return False

        def four_year_terms(blocks):
            for bb in blocks:
                for st in b.blocks[bb]["stmts"]:
                    rv = st.get("rv") if st.get("k") == "assign" else None
                    if rv and rv["k"] == "binop":
                        v = mir.o_const_value(b.origin(rv["b"]))
                        if (rv["op"] in ("Shr", "ShrUnchecked") and v == 2) or (rv["op"] == "BitAnd" and v == 3) or (rv["op"] in ("Rem", "Div") and v == 4):
                            return True
                t = b.blocks[bb]["term"]
                if t["k"] == "call" and mir.CallSite(b, bb, t).callee.get("name") == "trailing_zeros":
                    return True
            return False
        ev, n = [], 0
        for i, t in b.switches():
            c = mir.norm_cmp(b.switch_origin(i), lambda o: year_offset(o) is not None)
            if c is None:
                continue
            op, l, r = c
            k = mir.o_const_value(r)
            if not isinstance(k, int) or op not in ("Le", "Lt", "Gt", "Ge"):
                continue
            base = year_offset(l)
            # blocks reached only when the comparison holds / does not hold
            tg = [(v, nn) for v, nn in t["targets"]] + [("otherwise", t["otherwise"])]
            false_t = [nn for v, nn in tg if v == "0"]
            true_t = [nn for v, nn in tg if v != "0"]
            if len(false_t) != 1 or len(true_t) != 1:
                continue
            below_t = true_t[0] if op in ("Le", "Lt") else false_t[0]
            hi = base + (k if op in ("Le", "Gt") else k - 1)   # the greatest year sent to `below_t`
            region = [bb for bb in range(len(b.blocks)) if b.edge_dominates(i, below_t, bb)]
            # every block a century term dominates is outside the shortcut
            if not four_year_terms(region) or century_terms(region):
                continue
            n += 1
            if hi > 2099:
                return False, ("Timestamp::from_parts takes its every-fourth-year shortcut (no /100, /400 terms) for years up to %d: %d "
                               "is divisible by 100 and not by 400, so dates after February of that year convert one day late"
                               % (hi, 2100)), [], b.blocks[i]["term"].get("loc") or b.span
            ev.append("the every-fourth-year shortcut is guarded to years <= %d (< 2100)" % hi)
        return True, "", ev or ["from_parts has no century-free leap-year shortcut"]
    def leap_day_after_february():
        """The extra day of a leap year is counted for dates from March on: the month compared is one-based `parts.months` against 2
        (`> 2` / `>= 3`), or its zero-based form (after `checked_sub(1)`) against 1 - never a mix of the two."""
        bs = [x for k, x in P.bodies.items() if k.endswith("timestamp::Timestamp::from_parts")]
        if not bs:
            raise mir.AnchorMissing("Timestamp::from_parts")
        b = bs[0]

        def month_base(o, d=0):
            """1 if `o` is parts.months, 0 if it is parts.months - 1 (checked_sub(1)? / wrapping), else None"""
            if d > 10:
                return None
            if o[0] in ("cast", "copy", "ref", "deref"):
                return month_base(o[1], d + 1)
            if o[0] == "field" and o[2] == "months" and mir.o_is_param(o[1], idx=1):
                return 1
            if o[0] in ("field", "downcast"):
                return month_base(o[1], d + 1)
            if o[0] == "call" and o[1].callee.get("name") == "branch" and o[1].args:
                return month_base(b.origin(o[1].args[0]), d + 1)
            if o[0] == "call" and o[1].callee.get("name") in ("checked_sub", "wrapping_sub", "saturating_sub") and len(o[1].args) == 2:
                k = mir.o_const_value(b.origin(o[1].args[1]))
                inner = month_base(b.origin(o[1].args[0]), d + 1)
                if isinstance(k, int) and inner is not None:
                    return inner - k
            if o[0] == "binop" and o[1] in ("Sub", "SubWithOverflow"):
                k = mir.o_const_value(o[3])
                inner = month_base(o[2], d + 1)
                if isinstance(k, int) and inner is not None:
                    return inner - k
            return None
        ev = []
        for i, t in b.switches():
            c = mir.norm_cmp(b.switch_origin(i), lambda o: month_base(o) is not None)
            if c is None:
                continue
            op, l, r = c
            k = mir.o_const_value(r)
            if not isinstance(k, int) or op not in ("Gt", "Ge", "Lt", "Le"):
                continue
            base = month_base(l)          # value compared = one-based month - (1 - base)
            off = 1 - base
            first = {"Gt": k + off + 1, "Ge": k + off, "Lt": k + off, "Le": k + off + 1}[op]   # first one-based month on the "later" side
            if first != 3:
                names = ["", "January", "February", "March", "April", "May", "June", "July", "August", "September", "October", "November", "December"]
                return False, ("Timestamp::from_parts counts the leap day from month %d (%s) on, not from March: the comparison `%s %s %d` is applied "
                               "to the %s month number" % (first, names[first] if 0 < first < 13 else "?", "month", op, k,
                                                           "one-based" if base == 1 else "zero-based")), [], b.blocks[i]["term"].get("loc") or b.span
            ev.append("leap day counted from March on (%s-based month %s %d)" % ("one" if base == 1 else "zero", op, k))
        return True, "", ev or ["no month comparison in from_parts (nothing to decide)"]
    chk.ob("C15.R5:leap-day-after-february", "the leap day is added for dates from March on (month base and constant agree)", leap_day_after_february)

    def adjusted_before_use():
        """In the calendar conversions a quotient that is conditionally corrected (`let mut q = a / b; if q == K { q -= 1 }`) is only read after
        the correction: any other read of it sits behind the correcting branch, never in front of it (the remainder taken from the
        uncorrected quotient is a day count of the wrong period - 29 Feb becomes 1 Mar of the year before)."""
        CMP = ("Eq", "Ne", "Lt", "Le", "Gt", "Ge")
        n, ev = 0, []

        def reads(b, op, l, d=0):
            x = mir.Body._op_local(op)
            if x is None or d > 3:
                return False
            if x == l:
                return True
            ds = [q for q in b.defs().get(x, ()) if q[2] == "assign"]
            return len(ds) == 1 and ds[0][3]["k"] in ("use", "cast") and reads(b, ds[0][3]["op"], l, d + 1)
        for b in [x for k, x in P.bodies.items() if re.search(r"timestamp::Timestamp::(to_parts|from_parts)$", k)]:
            for l, dsl in b.defs().items():
                ds = [q for q in dsl if q[2] == "assign"]
                if len(ds) != 2 or not b.local_name(l):
                    continue
                # the guard: a switch whose discriminant is `L <cmp> const`, computed in the switch's own block
                G = cmp_j = None
                for gi, t in b.switches():
                    lo = mir.Body._op_local(t["discr"])
                    for jx, st in enumerate(b.blocks[gi]["stmts"]):
                        if st.get("k") == "assign" and "p" not in st["place"] and st["place"]["l"] == lo and st["rv"]["k"] == "binop" and st["rv"]["op"] in CMP \
                                and reads(b, st["rv"]["a"], l) and isinstance(mir.o_const_value(b.origin(st["rv"]["b"])), int):
                            G, cmp_j = gi, jx
                if G is None:
                    continue
                corr = [q for q in ds if q[0] != G and any(g[0] == G for g in b.guards_of(q[0]))]
                init = [q for q in ds if q not in corr]
                if len(corr) != 1 or len(init) != 1 or not (init[0][0] == G or b.dominates(init[0][0], G)):
                    continue
                arm_target = [g[2] for g in b.guards_of(corr[0][0]) if g[0] == G][0]
                n += 1
                for (ubb, uj, kind, obj) in b.uses(l):
                    if b.edge_dominates(G, arm_target, ubb):
                        continue                                    # inside the correcting arm
                    if ubb == G:
                        if kind == "stmt" and uj <= cmp_j and obj["rv"]["k"] in ("use", "binop", "cast") and (obj["rv"]["k"] != "binop" or obj["rv"]["op"] in CMP):
                            continue                                # the comparison itself (and the copy feeding it)
                        line = obj.get("line") if kind == "stmt" else None
                        return False, ("%s reads `%s` at %s:%s before the branch that corrects it (`if %s == .. { %s -= 1 }`): the value used is the "
                                       "uncorrected quotient" % (b.key, b.local_name(l), b.file, line, b.local_name(l), b.local_name(l))), [], "%s:%s" % (b.file, line)
                    if not b.dominates(G, ubb):
                        return False, "%s reads `%s` on a path that has not been through the branch that corrects it" % (b.key, b.local_name(l)), [], b.span
                ev.append("%s: `%s` is read only after its correction" % (b.key.rsplit("::", 1)[-1], b.local_name(l)))
        if n < 3:
            raise mir.AnchorMissing("conditionally corrected quotients in the calendar conversions (found %d)" % n)
        return True, "", ev
    chk.ob("C15.R5:adjusted-before-use", "a conditionally corrected quotient of the calendar conversion is never read before its correction", adjusted_before_use)

    def century_years_not_leap():
        """Gregorian rule in the general (non-shortcut) branch of from_parts: the every-fourth-year test may only be applied to a remainder of years
        within a century that is known to be non-zero - a remainder of 0 there is a century year (2100, 2200, 2300, 2500 ..), which is *not* a leap
        year and has its own arm.  Structural part: every `x % 4` / `x / 4` whose x derives from a % 400 or % 100 reduction is dominated by the
        non-zero edge of a test `x == 0` of the same variable with no write to x in between."""
        bs = [x for k, x in P.bodies.items() if k.endswith("timestamp::Timestamp::from_parts")]
        if not bs:
            raise mir.AnchorMissing("Timestamp::from_parts")
        b = bs[0]

        def derives_from_century(o, d=0):
            if d > 10 or not isinstance(o, tuple):
                return False
            if o[0] == "binop":
                if o[1] in ("Rem",) and mir.o_const_value(o[3]) in (100, 400):
                    return True
                return derives_from_century(o[2], d + 1) or derives_from_century(o[3], d + 1)
            if o[0] == "phi":
                return any(derives_from_century(x, d + 1) for x in o[1])
            if o[0] in ("field", "cast", "copy"):
                return derives_from_century(o[1], d + 1)
            return False
        ev = []
        for bb, j, st in b.statements(normal_only=True):
            rv = st.get("rv") if st.get("k") == "assign" else None
            if not (rv and rv["k"] == "binop" and rv["op"] in ("Rem", "Div") and mir.o_const_value(b.origin(rv["b"])) == 4):
                continue
            x = panics._raw_local(b, rv["a"], bb)
            if x is None or not derives_from_century(b.origin(rv["a"])):
                continue
            ok = False
            for gbb, vals, tgt in b.guards_of(bb):
                t = b.blocks[gbb]["term"]
                dl = b._op_local(t["discr"]) if isinstance(t.get("discr"), dict) else None
                ds = [d for d in b.defs().get(dl, ()) if d[2] != "partial"] if dl is not None else []
                if len(ds) != 1 or ds[0][2] != "assign" or ds[0][3]["k"] != "binop" or ds[0][3]["op"] not in ("Eq", "Ne"):
                    continue
                g = ds[0][3]
                sides = [(g["a"], g["b"]), (g["b"], g["a"])]
                if not any(panics._raw_local(b, a_, gbb) == x and mir.o_const_value(b.origin(z_)) == 0 for a_, z_ in sides):
                    continue
                nonzero_edge = ([str(v) for v in vals] == ["0"]) if g["op"] == "Eq" else ("0" not in [str(v) for v in vals])
                if not nonzero_edge:
                    continue
                fwd = b.reachable_from(tgt, removed_blocks=(gbb,))
                between = {n for n in fwd if n == bb or bb in b.reachable_from(n, removed_blocks=(gbb,))}
                wr = [d for d in b.defs().get(x, ()) if d[0] in between and not (d[0] == bb and (d[1] == "term" or d[1] >= j))]
                if not wr:
                    ok = True
                    break
            if not ok:
                return False, ("Timestamp::from_parts applies the every-fourth-year rule (`%s 4` at %s:%s) to a within-century remainder that may be 0: "
                               "century years that are not multiples of 400 (2100, 2200, 2300, 2500 ..) would count as leap years and every date in their "
                               "January / February shifts by a day" % ("%" if rv["op"] == "Rem" else "/", b.file, st.get("line"))), [], "%s:%s" % (b.file, st.get("line"))
            ev.append("%s:%s" % (b.file, st.get("line")))
        if not ev:
            raise mir.AnchorMissing("a `% 4` / `/ 4` step on a century remainder in Timestamp::from_parts")
        return True, "", ev
    def century_remainder_bounded():
        """Forward interval analysis (abstract interpretation over one integer variable, no paths, no solver) of the years-within-cycle remainder in the
        general branch of from_parts: from `(year - 100) % 400` through the `< 0` correction and the century selection (`>= 300 / 200 / 100`, each
        followed by the matching subtraction) the variable must arrive at the every-fourth-year step with a value in [0, 99] - the years within one
        century.  An off-by-one in a century boundary (`> 300`) lets 100 through: the year x300 is then counted in the wrong century and treated as a
        leap year."""
        bs = [x for k, x in P.bodies.items() if k.endswith("timestamp::Timestamp::from_parts")]
        if not bs:
            raise mir.AnchorMissing("Timestamp::from_parts")
        b = bs[0]
        # the variable: the local that receives `.. % 400`
        var = None
        start = None
        for bb, j, st in b.statements(normal_only=True):
            rv = st.get("rv") if st["k"] == "assign" else None
            if rv and rv["k"] == "binop" and rv["op"] == "Rem" and mir.o_const_value(b.origin(rv["b"])) == 400 and "p" not in st["place"]:
                var, start = st["place"]["l"], (bb, j)
        if var is None:
            raise mir.AnchorMissing("the `% 400` step of from_parts")
        INF = 10 ** 30

        def const_of(op):
            v = mir.o_const_value(b.origin(op))
            return v if isinstance(v, int) and not isinstance(v, bool) else None

        def ev(op, x, depth=0):
            """interval of an operand given interval x of `var` (None = unknown)"""
            if depth > 6:
                return None
            k = op.get("k") if "k" in op and isinstance(op.get("k"), dict) else None
            c = const_of(op) if ("k" in op and not ("c" in op or "m" in op)) else None
            if c is not None:
                return (c, c)
            pl = op.get("c") or op.get("m")
            if not pl:
                return None
            if pl["l"] == var and "p" not in pl:
                return x
            ds = [d for d in b.defs().get(pl["l"], ()) if d[2] == "assign"]
            if len(ds) != 1:
                return None
            rv = ds[0][3]
            if "p" in pl and pl["p"] == [{"f": 0}] and rv["k"] == "binop" and rv["op"] in ("AddWithOverflow", "SubWithOverflow"):
                a_, c_ = ev(rv["a"], x, depth + 1), ev(rv["b"], x, depth + 1)
                if a_ is None or c_ is None:
                    return None
                return (a_[0] + c_[0], a_[1] + c_[1]) if rv["op"].startswith("Add") else (a_[0] - c_[1], a_[1] - c_[0])
            if "p" in pl:
                return None
            if rv["k"] == "use":
                return ev(rv["op"], x, depth + 1)
            return None

        state = {}           # block -> interval at block entry
        def join(a_, c_):
            return c_ if a_ is None else (a_ if c_ is None else (min(a_[0], c_[0]), max(a_[1], c_[1])))
        work = [(start[0], "start")]
        entry = {start[0]: None}
        seen_sites = []
        order = [start[0]]
        visited = set()
        out_edges = {}
        # topological-ish worklist (the region has no loop); cap the iterations
        pending = {start[0]: ("init",)}
        iters = 0
        todo = [start[0]]
        inst = {start[0]: "INIT"}
        while todo and iters < 2000:
            iters += 1
            bb = todo.pop(0)
            x = state.get(bb)
            first = 0
            if bb == start[0] and inst.get(bb) == "INIT":
                x = None
            stmts = b.blocks[bb]["stmts"]
            for j, st in enumerate(stmts):
                if st["k"] != "assign":
                    continue
                rv = st["rv"]
                # sites: x / 4, x % 4 reading var
                if rv["k"] == "binop" and rv["op"] in ("Div", "Rem") and const_of(rv["b"]) == 4:
                    ax = ev(rv["a"], x)
                    if ax is not None or (rv["a"].get("c") or rv["a"].get("m") or {}).get("l") == var:
                        seen_sites.append((bb, st.get("line"), ax, rv["op"]))
                if "p" in st["place"] or st["place"]["l"] != var:
                    continue
                if rv["k"] == "binop" and rv["op"] == "Rem":
                    m = const_of(rv["b"])
                    a_ = ev(rv["a"], x)
                    if m and m > 0:
                        if a_ is not None and a_[0] >= 0:
                            x = (0, min(a_[1], m - 1))
                        else:
                            x = (-(m - 1), m - 1)
                    else:
                        x = None
                elif rv["k"] == "use":
                    x = ev(rv["op"], x)
                else:
                    x = None
            t = b.blocks[bb]["term"]
            succs = []
            if t["k"] == "switch":
                dl = b._op_local(t["discr"])
                ds = [d for d in b.defs().get(dl, ()) if d[2] == "assign"]
                cmp_ = ds[0][3] if len(ds) == 1 and ds[0][3]["k"] == "binop" else None
                for v, n in [(str(v), n) for v, n in t["targets"]] + [("otherwise", t["otherwise"])]:
                    xe = x
                    if cmp_ and x is not None and cmp_["op"] in ("Lt", "Le", "Gt", "Ge", "Eq", "Ne"):
                        la, lb = ev(cmp_["a"], ("VAR",)), ev(cmp_["b"], ("VAR",))
                        kk = const_of(cmp_["b"]) if la == ("VAR",) else (const_of(cmp_["a"]) if lb == ("VAR",) else None)
                        if kk is not None:
                            op = cmp_["op"] if la == ("VAR",) else {"Lt": "Gt", "Le": "Ge", "Gt": "Lt", "Ge": "Le", "Eq": "Eq", "Ne": "Ne"}[cmp_["op"]]
                            truth = (v != "0")
                            if not truth:
                                op = {"Lt": "Ge", "Ge": "Lt", "Gt": "Le", "Le": "Gt", "Eq": "Ne", "Ne": "Eq"}[op]
                            lo, hi = x
                            if op == "Lt":
                                hi = min(hi, kk - 1)
                            elif op == "Le":
                                hi = min(hi, kk)
                            elif op == "Gt":
                                lo = max(lo, kk + 1)
                            elif op == "Ge":
                                lo = max(lo, kk)
                            elif op == "Eq":
                                lo, hi = max(lo, kk), min(hi, kk)
                            elif op == "Ne":
                                if lo == kk:
                                    lo += 1
                                if hi == kk:
                                    hi -= 1
                            if lo > hi:
                                continue      # infeasible edge
                            xe = (lo, hi)
                    succs.append((n, xe))
            else:
                for n in b.succ(bb):
                    succs.append((n, x))
            for n, xe in succs:
                if b.blocks[n].get("cleanup"):
                    continue
                old_ = state.get(n, "unset")
                new_ = xe if old_ == "unset" else (None if (old_ is None or xe is None) else join(old_, xe))
                if old_ == "unset" or new_ != old_:
                    state[n] = new_
                    if n not in todo:
                        todo.append(n)
            inst[bb] = "DONE"
        sites = [(bb, ln, ax, op) for bb, ln, ax, op in seen_sites]
        if not sites:
            raise mir.AnchorMissing("an every-fourth-year step reading the century remainder")
        # keep the last visit of each site (the joined state)
        last = {}
        for bb, ln, ax, op in sites:
            last[(bb, ln, op)] = ax
        ev_ = []
        for (bb, ln, op), ax in sorted(last.items(), key=lambda z: str(z)):
            if ax is None:
                return False, "the interval of the within-century remainder at %s:%s could not be computed (code shape not modelled)" % (b.file, ln), [], "%s:%s" % (b.file, ln)
            if op == "Div" or True:
                if ax[0] < 0 or ax[1] > 99:
                    if op == "Rem" and ax[0] >= 0 and ax[1] <= 99:
                        continue
                    return False, ("Timestamp::from_parts reaches its every-fourth-year step (%s:%s) with a years-within-century remainder in [%d, %d], not within "
                                   "[0, 99]: a century boundary is off by one, so a year like 2300 is counted in the wrong century and comes out as a leap year"
                                   % (b.file, ln, ax[0], ax[1])), [], "%s:%s" % (b.file, ln)
            ev_.append("%s:%s in [%d, %d]" % (b.file, ln, ax[0], ax[1]))
        return True, "", ev_
    def rfc3339_length_window():
        """The formatter's template is `0000-00-00T00:00:00Z` (20 bytes) through `0000-00-00T00:00:00.000000000Z` (30 bytes): the parser's length test
        rejects exactly the lengths outside [template length without fraction, with nine fraction digits] - an off-by-one there refuses every
        whole-second timestamp the formatter writes (or admits a 31-byte one).  The bounds are computed from the formatter's own template constant."""
        b = P.body("emit_core::timestamp::parse_rfc3339")
        tpl = None
        for k, v in P.consts.items():
            if k.startswith("emit_core::timestamp::fmt_rfc3339::") and isinstance(v.get("v"), dict) and "bytes" in v["v"]:
                tpl = v["v"]["bytes"]
        if not tpl:
            raise mir.AnchorMissing("the formatter's template constant")
        hi = len(tpl)
        lo = len(tpl) - 10          # without `.` and nine digits
        cons = []
        for bb, t in b.switches():
            is_len = lambda o: o[0] == "unop" and o[1] == "PtrMetadata" or (o[0] == "call" and o[1].callee.get("name") == "len") or "PtrMetadata" in o_str(o)
            so_, pos_ = mir.norm_bool(b.switch_origin(bb))
            if so_[0] == "call" and so_[1].callee.get("name") == "contains" and len(so_[1].args) == 2 and not b.in_cycle(bb):
                rng = panics.range_consts(b, so_[1])
                if rng and is_len(b.origin(so_[1].args[1], through_calls=("deref",))):
                    for v, n in [(str(v), n) for v, n in t["targets"]] + [("otherwise", t["otherwise"])]:
                        cons.append((bb, "In", rng, (v != "0") == pos_, n))
                continue
            c = mir.norm_cmp(b.switch_origin(bb), is_len)
            if c is None:
                continue
            op, l, r = c
            k = mir.o_const_value(r)
            if not isinstance(k, int) or b.in_cycle(bb):
                continue
            # which edge leads (directly) to the invalid-length error?
            for v, n in [(str(v), n) for v, n in t["targets"]] + [("otherwise", t["otherwise"])]:
                cons.append((bb, op, k, v != "0", n))
        if not cons:
            raise mir.AnchorMissing("the length test of parse_rfc3339")
        # evaluate: a length L is rejected if some test's taken edge for L reaches only Err returns without further length tests
        def rejected(L):
            for bb, op, k, truth, n in cons:
                holds = (k[0] <= L <= k[1]) if op == "In" else {"Lt": L < k, "Le": L <= k, "Gt": L > k, "Ge": L >= k, "Eq": L == k, "Ne": L != k}[op]
                if holds == truth:
                    rs = []
                    for rb in b.return_blocks():
                        if rb in b.reachable_from(n):
                            for path in b.acyclic_paths(n, rb, limit=50):
                                rs.append(mir.PathSummary(b, path).ret())
                            if len(rs) > 60:
                                break
                    if rs and all(r_[0] == "agg" and r_[1].get("variant") == "Err" for r_ in rs) and len(rs) <= 3:
                        return True
            return False
        bad = [L for L in range(0, 64) if rejected(L) != (L < lo or L > hi)]
        if bad:
            return False, ("the RFC 3339 parser's length test %s input of length %s; the formatter writes texts of %d (whole seconds) to %d bytes, and exactly "
                           "those lengths may go on to be parsed" % ("rejects" if rejected(bad[0]) else "lets through", bad[:4], lo, hi)), [], b.span
        return True, "", ["lengths %d..=%d" % (lo, hi)]
    chk.ob("C15.R4:rfc3339-length-window", "the parser admits exactly the lengths the formatter's template can produce", rfc3339_length_window)

    def month_table():
        """from_parts adds the seconds of the months before the given one from a 12-entry table: the cumulative day counts of a non-leap year
        (0, 31, 59, 90, 120, 151, 181, 212, 243, 273, 304, 334) times 86 400.  The table is data - calendar facts - and is compared entry by entry."""
        bs = [x for k, x in P.bodies.items() if k.endswith("timestamp::Timestamp::from_parts")]
        if not bs:
            raise mir.AnchorMissing("Timestamp::from_parts")
        b = bs[0]
        days = [0, 31, 59, 90, 120, 151, 181, 212, 243, 273, 304, 334]
        found = None
        for bb, j, st in b.statements(normal_only=True):
            rv = st.get("rv") if st["k"] == "assign" else None
            if rv and rv["k"] == "agg" and rv.get("ak") == "array" and len(rv.get("ops") or []) == 12:
                def fold(o, d=0):
                    v = mir.o_const_value(o)
                    if isinstance(v, int) and not isinstance(v, bool):
                        return v
                    if d > 6:
                        return None
                    if o[0] in ("field", "cast", "copy"):
                        return fold(o[1], d + 1)
                    if o[0] == "binop":
                        a_, c_ = fold(o[2], d + 1), fold(o[3], d + 1)
                        if a_ is None or c_ is None:
                            return None
                        op = o[1].replace("WithOverflow", "").replace("Unchecked", "")
                        try:
                            return {"Mul": a_ * c_, "Add": a_ + c_, "Sub": a_ - c_, "Div": a_ // c_ if c_ else None, "Rem": a_ % c_ if c_ else None}.get(op)
                        except Exception:
                            return None
                    return None
                found = [fold(b.origin(o)) for o in rv["ops"]]
        if found is None:
            for k, v in P.consts.items():
                if "from_parts" in k and isinstance(v.get("v"), dict) and isinstance(v["v"].get("array"), list) and len(v["v"]["array"]) == 12:
                    found = v["v"]["array"]
        if found is None:
            raise mir.AnchorMissing("the 12-entry month table of from_parts")
        want = [d * 86400 for d in days]
        if found != want:
            i = [i for i in range(12) if found[i] != want[i]][0]
            return False, ("the month table of from_parts has %s at month %d where %d days x 86400 = %d belong: every date from that month on is off"
                           % (found[i], i + 1, days[i], want[i])), [], b.span
        return True, "", ["12 entries"]
    chk.ob("C15.R5:month-table", "the month offsets of from_parts are the cumulative day counts of a common year, in seconds", month_table)

    def leap_flag_table():
        """The leap flag of from_parts, arm by arm (Gregorian rule): in the shortcut branch it is set exactly on the `trailing_zeros() >= 2` edge (year
        divisible by four); in the general branch it is true for a multiple of 400 (`% 400` remainder zero), false for any other century year (the
        within-century remainder zero) and otherwise `remainder % 4 == 0`.  Each constant assignment of the flag is matched with the innermost of those
        tests that guards it."""
        bs = [x for k, x in P.bodies.items() if k.endswith("timestamp::Timestamp::from_parts")]
        if not bs:
            raise mir.AnchorMissing("Timestamp::from_parts")
        b = bs[0]
        # the flag: the bool converted with i64::from in the leap-day count
        L = None
        for c in b.calls(normal_only=True):
            if c.callee.get("name") == "from" and "bool" in (c.callee.get("full") or "") and c.args:
                L = panics._raw_local(b, c.args[0], c.bb)
        if L is None:
            raise mir.AnchorMissing("the leap flag (the bool converted with i64::from) in from_parts")
        var = None
        for bb, j, st in b.statements(normal_only=True):
            rv = st.get("rv") if st["k"] == "assign" else None
            if rv and rv["k"] == "binop" and rv["op"] == "Rem" and mir.o_const_value(b.origin(rv["b"])) == 400 and "p" not in st["place"]:
                var = st["place"]["l"]
        century_blocks = set()
        for bb, j, st in b.statements(normal_only=True):
            rv = st.get("rv") if st["k"] == "assign" else None
            if rv and rv["k"] == "binop" and rv["op"].startswith("Sub") and mir.o_const_value(b.origin(rv["b"])) in (100, 200, 300) \
                    and panics._raw_local(b, rv["a"], bb) == var:
                century_blocks.add(bb)
        n = 0
        for bb, j, st in b.statements(normal_only=True):
            if st["k"] != "assign" or "p" in st["place"] or st["place"]["l"] != L:
                continue
            rv = st["rv"]
            val = mir.o_const_value(b.origin(rv["op"])) if rv["k"] == "use" else None
            if rv["k"] == "binop":
                n += 1
                if not (rv["op"] == "Eq" and mir.o_const_value(b.origin(rv["b"])) == 0):
                    return False, ("the leap flag is computed as `remainder %s %s` at %s:%s; a year inside a century is a leap year exactly when its remainder "
                                   "modulo four is zero" % (rv["op"], o_str(b.origin(rv["b"])), b.file, st.get("line"))), [], "%s:%s" % (b.file, st.get("line"))
                continue
            if val not in (True, False):
                continue
            n += 1
            # innermost guarding test
            best = None
            for g, vals, tgt in b.guards_of(bb):
                so, pos = mir.norm_bool(b.switch_origin(g))
                taken = ("0" not in [str(v) for v in vals]) == pos
                kind = None
                if so[0] == "binop" and so[1] in ("Ge", "Gt", "Lt", "Le") and "trailing_zeros" in o_str(so):
                    c = mir.norm_cmp(so, lambda o: "trailing_zeros" in o_str(o))
                    if c and mir.o_const_value(c[2]) is not None:
                        k = mir.o_const_value(c[2])
                        div4 = {"Ge": k == 2, "Gt": k == 1}.get(c[0])
                        if div4 is None and c[0] in ("Lt", "Le"):
                            div4 = {"Lt": k == 2, "Le": k == 1}.get(c[0])
                            taken = not taken if div4 else taken
                        if div4:
                            kind = ("div4", taken)
                elif so[0] == "binop" and so[1] in ("Eq", "Ne") and var is not None:
                    dl = b._op_local(b.blocks[g]["term"]["discr"])
                    ds = [d for d in b.defs().get(dl, ()) if d[2] == "assign"]
                    if len(ds) == 1 and ds[0][3]["k"] == "binop" and panics._raw_local(b, ds[0][3]["a"], g) == var and mir.o_const_value(b.origin(ds[0][3]["b"])) == 0:
                        zero = taken if so[1] == "Eq" else not taken
                        after_century = any(g in b.reachable_from(cb) for cb in century_blocks)
                        kind = ("century-zero" if after_century else "cycle-zero", zero)
                if kind and (best is None or b.dominates(best[0], g)):
                    best = (g, kind)
            if best is None:
                return False, "the leap flag is set to %s at %s:%s outside any of the tests that decide it" % (val, b.file, st.get("line")), [], "%s:%s" % (b.file, st.get("line"))
            (what, holds) = best[1]
            want = {("div4", True): True, ("div4", False): False, ("cycle-zero", True): True, ("century-zero", True): False}.get((what, holds))
            if want is None:
                continue
            if val is not want:
                return False, ("the leap flag is set to %s at %s:%s on the edge where %s: the Gregorian rule makes that year %s"
                               % (val, b.file, st.get("line"),
                                  {"div4": "the year is%s divisible by four" % ("" if holds else " not"), "cycle-zero": "the year is a multiple of 400",
                                   "century-zero": "the year is a century year that is not a multiple of 400"}[what],
                                  "a leap year" if want else "a common year")), [], "%s:%s" % (b.file, st.get("line"))
        if n < 5:
            raise mir.AnchorMissing("the leap flag's assignments in from_parts (found %d)" % n)
        return True, "", ["%d assignments" % n]
    chk.ob("C15.R5:leap-flag-table", "the leap flag of from_parts follows the Gregorian rule arm by arm", leap_flag_table)

    chk.ob("C15.R5:century-remainder-bounded", "interval analysis: the years-within-century remainder reaches the every-fourth-year step within [0, 99]", century_remainder_bounded)

    chk.ob("C15.R5:century-years-not-leap", "the every-fourth-year rule is only applied to a non-zero within-century remainder", century_years_not_leap)

    chk.ob("C15.R5:four-year-shortcut", "a leap-year computation without century terms is only reachable for years below 2100",
           four_year_shortcut)

    def digits_fn():
        b = P.body("emit_core::timestamp::parse_rfc3339::digits")
        g = [c for c in b.calls(normal_only=True) if c.callee.get("name") == "is_ascii_digit"]
        if len(g) != 1:
            return False, "digits() must test is_ascii_digit on each byte", [], b.span
        # the accumulating statement is dominated by the accept edge
        muls = [i for i, t in b.terminators("assert") if t["msg"]["k"] == "overflow"]
        for i in muls:
            ok = any(b.switch_origin(gbb)[0] in ("call", "unop") and (b.switch_origin(gbb)[1].bb == g[0].bb if b.switch_origin(gbb)[0] == "call" else
                     (b.switch_origin(gbb)[2][0] == "call" and b.switch_origin(gbb)[2][1].bb == g[0].bb)) for gbb, vals, n in b.guards_of(i))
            if not ok:
                return False, "a byte is accumulated without having been checked to be an ASCII digit", [], b.span
        # what is returned is the accumulated value: value = value * 10 + (byte - b'0') inside the loop, Ok(value) after it
        r = b.origin(0)
        acc = None
        for x in (r[1] if r[0] == "phi" else [r]):
            if x[0] == "agg" and x[1].get("variant") == "Ok" and x[2]:
                acc = x[2][0]
        def has(o, pred, d=0):
            if d > 14:
                return False
            if pred(o):
                return True
            if o[0] == "phi":
                return any(has(y, pred, d + 1) for y in o[1])
            if o[0] in ("field", "cast", "copy", "downcast"):
                return has(o[1], pred, d + 1)
            if o[0] == "binop":
                return has(o[2], pred, d + 1) or has(o[3], pred, d + 1)
            if o[0] == "call" and o[1].callee.get("name") in ("from", "into", "try_from", "try_into", "unwrap"):
                return any(has(b.origin(a_), pred, d + 1) for a_ in o[1].args)
            return False
        if acc is None or not has(acc, lambda o: o[0] == "binop" and o[1] in ("Mul", "MulWithOverflow") and mir.o_const_value(o[3]) == 10) \
                or not has(acc, lambda o: o[0] == "binop" and o[1] in ("Sub", "SubWithOverflow") and mir.o_const_value(o[3]) == 48):
            return False, ("digits() does not return value * 10 + (byte - b'0') accumulated over the bytes (it returns %s): every numeric field would parse "
                           "to another number" % (mir.o_str(acc)[:120] if acc is not None else mir.o_str(r)[:120])), [], b.span
        return True, "", [g[0].loc]
    chk.ob("C15.R4:digits", "only ASCII digits are accumulated (signs and other bytes are errors)", digits_fn)

    common.fromvalue_rule(chk, P, "C15", ["emit::level::Level", "emit::kind::Kind", "emit::span::TraceId", "emit::span::SpanId",
                                           "emit_core::timestamp::Timestamp"])

    common.arg_agreement_rule(chk, P, "C15", [("emit_core", "src/timestamp.rs"), ("emit", "src/span.rs"), ("emit_traceparent", None),
                                               ("emit_core", "src/path.rs"), ("emit", "src/level.rs")], 5)
    common.hex_id_fromvalue_rule(chk, P, "C15")
    common.level_parser_table(chk, P, "C15")
    def formatter_digit_table():
        """The RFC 3339 formatter fills a fixed template (`0000-00-00T00:00:00.000000000Z`): every `0` of the date-time part is overwritten, once, by
        `b'0' + digit`, and within each run of zeros the digits are those of *one* calendar part (the parts in the order years, months, days,
        hours, minutes, seconds) taken at descending powers of ten down to the units - every digit but a run's first reduced `% 10`.  A missing
        store leaves a literal `0` in the text; a wrong divisor or part prints another number: either way the text no longer parses back to the
        instant.  The fraction loop writes `nanos / divisor % 10` at a cursor that steps by one while the divisor, starting at 10^8, is divided
        by ten; the zone letter is stored at the cursor after the loop."""
        b = P.body("emit_core::timestamp::fmt_rfc3339")
        tpl = None
        for k, v in P.consts.items():
            if k.startswith("emit_core::timestamp::fmt_rfc3339::") and isinstance(v.get("v"), dict) and "bytes" in v["v"]:
                tpl = v["v"]["bytes"]
        if not tpl:
            raise mir.AnchorMissing("the formatter's template constant")
        dot = tpl.index(46) if 46 in tpl else len(tpl)
        runs, cur = [], []
        for i_, ch in enumerate(tpl[:dot]):
            if ch == 48:
                cur.append(i_)
            elif cur:
                runs.append(cur)
                cur = []
        if cur:
            runs.append(cur)
        adt = P.adt("emit_core::timestamp::Parts")
        fields = [f_["name"] for f_ in adt["variants"][0]["fields"]]
        if len(runs) != 6 or len(fields) < 7:
            raise mir.AnchorMissing("six digit runs in the template / seven calendar parts (found %d / %d)" % (len(runs), len(fields)))
        stores = {}
        loop_store = None
        zone = None
        for bb, j, st in b.statements(normal_only=True):
            if st["k"] != "assign" or not st["place"].get("p") or st["rv"]["k"] != "use":
                continue
            ix = [p_ for p_ in st["place"]["p"] if isinstance(p_, dict) and "idx" in p_]
            if not ix:
                continue
            io = b.origin({"c": {"l": ix[0]["idx"]}})
            k = mir.o_const_value(io)
            o = b.origin(st["rv"]["op"])
            if isinstance(k, int) and not b.in_cycle(bb):
                stores.setdefault(k, []).append((bb, o))
            elif b.in_cycle(bb):
                loop_store = (bb, o, ix[0]["idx"])
            elif mir.o_const_value(o) == 90:
                zone = (bb, ix[0]["idx"])
        def digit(o):
            # (part name, divisor, reduced mod 10) of `48 + (part / d % 10)`
            if o[0] == "field":
                o = o[1]
            if not (o[0] == "binop" and o[1] in ("Add", "AddWithOverflow")):
                return None
            a, c = o[2], o[3]
            if mir.o_const_value(a) != 48:
                a, c = c, a
            if mir.o_const_value(a) != 48:
                return None
            while c[0] == "cast":
                c = c[1]
            mod = False
            if c[0] == "binop" and c[1] == "Rem" and mir.o_const_value(c[3]) == 10:
                mod, c = True, c[2]
            d = 1
            if c[0] == "binop" and c[1] == "Div":
                d = mir.o_const_value(c[3]) if mir.o_const_value(c[3]) is not None else ("local", c[3])
                c = c[2]
            while c[0] == "cast":
                c = c[1]
            nm = (mir.o_field_path(c)[1] or [None])[-1]
            return nm, d, mod
        ev = []
        for ri, run in enumerate(runs):
            for pi, pos in enumerate(run):
                ss = stores.get(pos, [])
                if len(ss) != 1:
                    return False, ("byte %d of the formatted timestamp (a digit of `%s`) is stored %d times: a template `0` left in place (or overwritten twice) "
                                   "makes the text denote another instant" % (pos, fields[ri], len(ss))), [], b.span
                dg = digit(ss[0][1])
                want_d = 10 ** (len(run) - 1 - pi)
                if dg is None or dg[0] != fields[ri] or dg[1] != want_d or (pi > 0 and not dg[2] and want_d != 10 ** (len(run) - 1)):
                    return False, ("byte %d of the formatted timestamp must be the %s digit of `%s` (b'0' + %s / %d%s), found %s"
                                   % (pos, ["units", "tens", "hundreds", "thousands"][len(run) - 1 - pi], fields[ri], fields[ri], want_d,
                                      " % 10" if pi > 0 else "", mir.o_str(ss[0][1])[:100])), [], b.span
                if pi > 0 and not dg[2]:
                    return False, "byte %d of the formatted timestamp is not reduced % 10" % pos, [], b.span
            ev.append("%s -> bytes %s" % (fields[ri], run))
        extra = [k for k in stores if k < dot and k not in [p_ for r_ in runs for p_ in r_]]
        if extra:
            return False, "a separator byte (%s) of the template is overwritten" % extra, [], b.span
        # the fraction loop
        if loop_store is None or zone is None:
            return False, "the fraction digits / the zone letter are not written", [], b.span
        dg = digit(loop_store[1])
        if dg is None or dg[0] != fields[6] or not dg[2] or not isinstance(dg[1], tuple):
            return False, "a fraction digit must be b'0' + nanos / divisor %% 10, found %s" % mir.o_str(loop_store[1])[:100], [], b.span
        def local_of(o):
            while o[0] in ("copy", "cast"):
                o = o[1]
            return o[2] if o[0] == "phi" and len(o) > 2 else (o[1] if o[0] == "local" else None)
        dl = local_of(dg[1][1])
        il = loop_store[2]
        def shapes(l):
            out = set()
            for d_ in b.defs().get(l, ()):
                if b.blocks[d_[0]]["cleanup"] or d_[2] == "partial":
                    continue
                o = b._origin_def(d_, 0, (), set())
                if o[0] == "field":
                    o = o[1]
                if o[0] == "const":
                    out.add(("const", mir.o_const_value(o)))
                elif o[0] == "binop":
                    out.add((o[1].replace("WithOverflow", ""), mir.o_const_value(o[3])))
                elif o[0] in ("copy", "local", "phi"):
                    ll = local_of(o)
                    if ll is not None and ll != l:
                        out |= shapes(ll)
                else:
                    out.add(("other", mir.o_str(o)[:40]))
            return out
        if dl is None or not {("const", 100000000), ("Div", 10)} <= shapes(dl):
            return False, "the fraction divisor must start at 10^8 and be divided by ten per digit (found %s)" % sorted(map(str, shapes(dl) if dl is not None else [])), [], b.span
        if ("Add", 1) not in shapes(il):
            return False, "the fraction cursor is not stepped by one per digit", [], b.span
        ev.append("fraction: nanos / divisor % 10, divisor 10^8 /= 10, cursor += 1; zone letter after the loop")
        return True, "", ev
    chk.ob("C15.R4:formatter-digit-table", "every digit position of the RFC 3339 template is written once with the right digit of the right calendar part", formatter_digit_table)

    def value_parse():
        """`Value::parse` - the last resort of every `FromValue` cast (levels, kinds, ids, timestamps arriving as text) - hands the value to a visitor and
        returns what the visitor extracted: the visitor's `visit_str` stores `value.parse().ok()`, its `visit_any` stores the parse of the value's
        Display text, and `parse` returns the slot of the very visitor it passed to `visit`."""
        b = P.body("emit_core::value::Value::<'v>::parse")
        vs = [c for c in b.calls(normal_only=True) if c.callee.get("name") == "visit"]
        if len(vs) != 1 or b.count_on_paths({vs[0].bb}) != (1, 1):
            return False, "Value::parse must visit the captured value exactly once", [], b.span
        vl = None
        for bb, j, st in b.statements(normal_only=True):
            if st["k"] == "assign" and st["rv"]["k"] == "ref" and "p" not in st["rv"]["place"]:
                a = vs[0].args[1]
                al = a.get("m", a.get("c", {})).get("l")
                if st["place"]["l"] == al or (al is not None and b.origin(a)[0] == "ref" and st["place"]["l"] == al):
                    vl = st["rv"]["place"]["l"]
        if vl is None:
            # two-step reborrow: follow one copy
            for bb, j, st in b.statements(normal_only=True):
                if st["k"] == "assign" and st["rv"]["k"] == "ref" and "p" not in st["rv"]["place"] and "Extract" in (b.local_ty(st["rv"]["place"]["l"]) or ""):
                    vl = st["rv"]["place"]["l"]
        rets = [st for bb, j, st in b.statements(normal_only=True) if st["k"] == "assign" and st["place"]["l"] == 0 and "p" not in st["place"]]
        ok = vl is not None and rets and all(st["rv"]["k"] == "use" and st["rv"]["op"].get("m", st["rv"]["op"].get("c", {})).get("l") == vl
                                              and [p_.get("f") for p_ in st["rv"]["op"].get("m", st["rv"]["op"].get("c", {})).get("p", []) if isinstance(p_, dict)] == [0] for st in rets)
        if not ok:
            return False, "Value::parse does not return the slot of the visitor it handed to visit()", [], b.span
        if not b.dominates(vs[0].bb, [bb for bb, j, st in b.statements(normal_only=True) if st in rets][0]):
            return False, "Value::parse reads the visitor's slot before the visit", [], b.span
        ev = [vs[0].loc]
        no_alloc = not any(k_.startswith("alloc::") for k_ in P.bodies) and not P.has_body("emit_core::str::alloc_support::<impl emit_core::str::Str<'static>>::new_owned")
        for m, via in (("visit_str", None), ("visit_any", "to_string")):
            ks = [k for k in P.bodies if "Value<'v>::parse::Extract<T> as value_bag::visit::Visit" in k and k.endswith("::" + m)]
            if not ks:
                raise mir.AnchorMissing("Extract::%s" % m)
            x = P.body(ks[0])
            stores = [x.origin(st["rv"]["op"]) for bb, j, st in x.statements(normal_only=True) if st["k"] == "assign" and st["place"].get("p") and st["rv"]["k"] == "use"
                      and [p_.get("f") for p_ in st["place"]["p"] if isinstance(p_, dict)] == [0]]
            good = False
            for o in stores:
                if o[0] == "call" and o[1].callee.get("name") == "ok":
                    po = x.origin(o[1].args[0])
                    if po[0] == "call" and po[1].callee.get("name") == "parse":
                        src = x.origin(po[1].args[0], through_calls=("deref", "as_str", "as_ref", "borrow"))
                        if via is None and mir.o_is_param(src, idx=2):
                            good = True
                        if via is not None and src[0] == "call" and src[1].callee.get("name") == via and mir.o_is_param(mir.o_root(x.origin(src[1].args[0])), idx=2):
                            good = True
            # whatever is parsed is the *whole* text: a store of a parse result is reached only on the success edge of every fallible formatting call
            # of the body (a fixed-size buffer that overflowed holds a prefix - `2024-01-01T00:00:00Z<junk>` would cast to a timestamp)
            from . import c10
            wr = [c for c in x.calls(normal_only=True) if c.callee.get("name") in ("write_fmt", "write_str", "write_char") and "fmt" in (c.callee.get("trait") or c.callee.get("path") or "")]
            sb = [bb for bb, j, st in x.statements(normal_only=True) if st["k"] == "assign" and st["place"].get("p") and st["rv"]["k"] == "use"
                  and [p_.get("f") for p_ in st["place"]["p"] if isinstance(p_, dict)] == [0] and mir.o_is_call(x.origin(st["rv"]["op"]))]
            for w_ in wr:
                for bb_ in sb:
                    if not c10._q_success_guard(x, bb_, w_.bb):
                        return False, ("the visitor's %s stores a parse result without the formatting at %s having succeeded: text that did not fit is parsed from "
                                       "its prefix, so a cast accepts what parsing the whole text rejects" % (m, w_.loc)), [], w_.loc
            if via is not None and no_alloc and not stores:
                ev.append(x.span)
                continue   # without an allocator a non-string value is not formatted at all: it never casts (the whole-text condition holds trivially)
            if not good or not x.must_pass({bb for bb, j, st in x.statements(normal_only=True) if st["k"] == "assign" and st["place"].get("p")}):
                return False, ("the visitor's %s does not store the parse of %s: values captured %s would never cast to a level, kind, id or timestamp"
                               % (m, "the string it is given" if via is None else "the value's Display text", "as strings" if via is None else "through Display / Debug / sval / serde")), [], x.span
            ev.append(x.span)
        return True, "", ev
    chk.ob("C15.R6:Value::parse", "Value::parse returns what its visitor parsed from the string / the Display text of the value", value_parse)

    def id_capture_verbatim():
        """The hooks the macros use for the well-known id keys (`CaptureTraceId` / `CaptureSpanId`) hand on what they were given: a `str` is captured as
        that `str` (`self.to_value()`), not a trimmed or otherwise normalised copy - the id grammar (exactly 32 / 16 hex digits) is applied to the
        text by the cast, and text that departs from it must stay rejectable.  For every impl: the value returned derives from `self` through
        value conversions only."""
        PASS = ("to_value", "from", "into", "from_any", "by_ref", "as_ref", "deref", "capture", "and_then", "map", "as_deref", "copied", "cloned")
        n = 0
        for k_, b in P.bodies.items():
            if b.is_closure or not b.trait or not re.search(r"macro_hooks::Capture(TraceId|SpanId)$", b.trait) or b.method != "capture":
                continue
            n += 1
            for x in [b] + P.closures_of(b):
                for c in x.calls(normal_only=True):
                    if c.callee.get("name") not in PASS:
                        return False, ("%s passes the captured id text through `%s` before it becomes a value: text that is not exactly an id (padded, mixed case ..) is "
                                       "silently normalised and then accepted by the cast that should reject it" % (k_, c.callee.get("name"))), [], c.loc
            if not any(r_ == ("param", 1) for r_ in common.roots(b.origin(0))) and not P.closures_of(b):
                return False, "%s does not capture `self`" % k_, [], b.span
        if n < 8:
            raise mir.AnchorMissing("CaptureTraceId / CaptureSpanId impls (found %d)" % n)
        return True, "", ["%d impls" % n]
    if not getattr(chk, "_overlay", None):
        chk.ob("C15.R6:id-capture-verbatim", "id text captured by the macros reaches the cast unchanged", id_capture_verbatim)

    if not getattr(chk, "_overlay", None):
        from . import c14
        c14.kind_table_agreement(chk, P, "C15.R6:Kind-table")
        from . import c17
        c17.level_parse_rule(chk, P, "C15.R6:level-parse")

    from . import shapes
    if any(b.crate == "emit_traceparent" for b in P.bodies.values()):
        shapes.separators_each_checked(chk, P, "C15.R4:separators-each-checked")
    return chk
