"""Shared rule functions over emit_batcher (serve C06, C07, C08, C09)."""
import itertools
import json
import re

from . import common, mir
from .mir import o_str

CH = "emit_batcher::Channel"
S = "emit_batcher::Sender::<T>::"
EXEC = "emit_batcher::Receiver::<T>::exec::{closure#0}"
STATE_FIELDS = ("next_batch", "is_open", "is_in_batch")


# ---- lock helpers -------------------------------------------------------------------------------------

def lock_calls(b, normal_only=True):
    return [c for c in b.calls(normal_only=normal_only)
            if c.callee.get("name") == "lock" and "State<T>" in (c.callee.get("full") or "")]


def guard_sites(b):
    """[(lock CallSite, unwrap CallSite)] — the unwrap result is the MutexGuard value."""
    out = []
    for c in b.calls(normal_only=True):
        if c.callee.get("name") in ("unwrap", "expect", "unwrap_or_else") and c.args:
            o = b.origin(c.args[0])
            if o[0] == "call" and o[1].callee.get("name") == "lock" and "State<T>" in (o[1].callee.get("full") or ""):
                out.append((o[1], c))
    return out


def guard_of(b, o):
    """For an origin that reads through a MutexGuard deref, the unwrap CallSite that produced the guard."""
    depth = 0
    while depth < 30:
        depth += 1
        if o[0] in ("field", "downcast", "index", "cast", "discr"):
            o = o[1]
            continue
        if o[0] == "call":
            nm = o[1].callee.get("name")
            if nm in ("deref", "deref_mut", "as_ref", "as_mut", "borrow", "borrow_mut") and o[1].args:
                o = o[1].body.origin(o[1].args[0])
                continue
            if nm in ("unwrap", "expect") and o[1].args:
                inner = o[1].body.origin(o[1].args[0])
                if inner[0] == "call" and inner[1].callee.get("name") == "lock":
                    return o[1]
            return None
        return None
    return None


def state_field_path(o):
    """Field names (from the State struct down) of an origin that reads through a guard."""
    names = []
    depth = 0
    while depth < 30:
        depth += 1
        if o[0] == "field":
            names.append(o[2])
            o = o[1]
            continue
        if o[0] in ("downcast", "index", "cast"):
            o = o[1]
            continue
        break
    return list(reversed(names)), o


def atom(b, o):
    """(name, polarity) of a boolean decision origin: state field reads, is_empty(), len() comparisons."""
    o, pol = mir.norm_bool(o)
    if o[0] == "field" and o[2] in ("is_in_batch", "is_open"):
        return o[2], pol
    if o[0] == "call" and o[1].callee.get("name") == "is_empty":
        return "empty", pol
    if o[0] == "binop" and o[2][0] == "call" and o[2][1].callee.get("name") == "len":
        k = mir.o_const_value(o[3])
        if o[1] == "Gt" and k == 0:
            return "empty", not pol
        if o[1] == "Eq" and k == 0:
            return "empty", pol
        if o[1] == "Ne" and k == 0:
            return "empty", not pol
    return None, pol


def writes_to_state(b):
    """[(bb, field-path, how, loc)] for every write to a State field reached through a guard: assignments,
    mem::replace/take/swap on such a place, Channel/Watchers mutators are reported by callers."""
    out = []
    for bb, j, s in b.statements(normal_only=True):
        if s["k"] == "assign" and "p" in s["place"]:
            o = b._origin_place(s["place"], 0, (), set())
            names, root = state_field_path(o)
            if names and names[0] in STATE_FIELDS and guard_of(b, o) is not None:
                out.append((bb, names, "assign", "%s:%s" % (b.file, s.get("line"))))
    for c in b.calls(normal_only=True):
        if c.callee.get("path") in ("core::mem::replace", "core::mem::take", "core::mem::swap"):
            for a in c.args[:2 if c.callee["path"].endswith("swap") else 1]:
                o = b.origin(a)
                names, root = state_field_path(o)
                if names and names[0] in STATE_FIELDS and guard_of(b, o) is not None:
                    out.append((c.bb, names, c.callee["path"].rsplit("::", 1)[1], c.loc))
    return out


def batcher_bodies(P):
    return [b for b in P.by_crate["emit_batcher"]]


# ---- C06.R1 / C08: one critical section per operation ----------------------------------------------------

def one_critical_section(chk, P, prefix):
    for m in ("send", "try_send", "when_empty", "when_flushed"):
        def f(m=m):
            b = P.body(S + m)
            ls = lock_calls(b)
            if len(ls) != 1:
                return False, "Sender::%s takes the state lock at %d sites; the capacity test and the update must be one critical section" % (m, len(ls)), [], b.span
            if b.count_on_paths({ls[0].bb}) != (1, 1):
                return False, "the state lock is not taken exactly once on every path", [], ls[0].loc
            return True, "", [ls[0].loc]
        chk.ob("%s.R1:Sender::%s" % (prefix, m), "the operation is one critical section of the state mutex", f)

    def exec_one():
        b = P.body(EXEC)
        ls = lock_calls(b)
        if len(ls) != 1:
            return False, ("Receiver::exec takes the state lock at %d sites (%s): the emptiness test, the batch swap and "
                           "the is_open reading that decides termination must come from one critical section per "
                           "iteration" % (len(ls), [c.loc for c in ls])), [], (ls[1].loc if len(ls) > 1 else b.span)
        l = ls[0]
        if not b.in_cycle(l.bb):
            return False, "the lock is not taken inside the receive loop", [], l.loc
        return True, "", [l.loc]
    chk.ob("%s.R1:Receiver::exec" % prefix, "one critical section per receive iteration", exec_one)

    def exec_is_open():
        b = P.body(EXEC)
        gs = guard_sites(b)
        if len(gs) != 1:
            return False, "expected one guard in exec", [], b.span
        lockc, unw = gs[0]
        rets = b.return_blocks()
        if len(rets) != 1:
            return False, "expected one return in exec, found %d" % len(rets), [], b.span
        found = False
        for bb, vals, n in b.guards_of(rets[0]):
            so = b.switch_origin(bb)
            nm, pol = atom(b, so)
            if nm == "is_open" or (so[0] in ("phi",) and all(atom(b, x)[0] == "is_open" for x in so[1])):
                srcs = so[1] if so[0] == "phi" else [so]
                for x in srcs:
                    g = guard_of(b, x[2] if x[0] == "unop" else x)
                    if g is None or g.bb != unw.bb:
                        return False, ("the is_open value that decides termination is not read under the same lock as "
                                       "the emptiness test (read at a separate point, an item sent just before the last "
                                       "sender dropped can be left behind)"), [], b.span
                found = True
        if not found:
            return False, "exec's return is not control-dependent on is_open", [], b.span
        return True, "", [unw.loc]
    chk.ob("%s.R1:Receiver::exec.is_open" % prefix, "termination is decided by the is_open read in the same critical section as the emptiness test", exec_is_open)


# ---- C06.R2: the swap -------------------------------------------------------------------------------------------

def swap_rule(chk, P, prefix):
    def f():
        b = P.body(EXEC)
        reps = [c for c in b.calls_to(path="core::mem::replace")]
        reps = [c for c in reps if state_field_path(b.origin(c.args[0]))[0] == ["next_batch"]]
        if len(reps) != 1:
            return False, "expected exactly one mem::replace of state.next_batch, found %d" % len(reps), [], b.span
        r = reps[0]
        if guard_of(b, b.origin(r.args[0])) is None:
            return False, "the pending batch is swapped outside the lock", [], r.loc
        src = b.origin(r.args[1])
        if not mir.o_is_call(src, path="core::mem::take"):
            return False, "the replacement is %s, not the pre-allocated local batch" % o_str(src), [], r.loc
        # guarded by the non-empty edge
        g = [(atom(b, b.switch_origin(bb)), list(vals)) for bb, vals, n in b.guards_of(r.bb)]
        ok = any(a[0] == "empty" and ((vals == ["0"]) == a[1]) for a, vals in g if a[0])
        if not ok:
            return False, "the swap is not control-dependent on the pending channel being non-empty", [], r.loc
        # the local that is swapped in is only ever a fresh empty batch
        tl = b.origin(src[1].args[0])
        loc_i = tl[1] if tl[0] == "local" else (tl[2] if tl[0] == "phi" else None)
        if loc_i is None:
            return False, "replacement source not a local (%s)" % o_str(tl), [], r.loc
        for d in b.defs().get(loc_i, ()):
            if d[2] == "partial" or b.blocks[d[0]]["cleanup"]:
                if d[2] == "partial":
                    return False, "the pre-allocated batch is written to field-wise", [], r.loc
                continue
            if d[2] == "call":
                if not (d[3]["callee"].get("path") or "").endswith("Batch::<T>::new"):
                    return False, "the pre-allocated batch is assigned from %s" % d[3]["callee"].get("full"), [], r.loc
            elif d[2] == "assign":
                o = b._origin_def(d, 0, (), set())
                if o[0] == "agg" and (o[1].get("adt") or "").endswith("Batch"):
                    fo = dict(zip(o[1]["fields"], o[2]))
                    if not (fo["channel"][0] == "call" and fo["channel"][1].callee.get("name") in ("with_capacity", "new")):
                        return False, "pre-allocated channel is %s" % o_str(fo["channel"]), [], r.loc
                    if not mir.o_is_call(fo["watchers"], path="emit_batcher::Watchers::new"):
                        return False, "pre-allocated watchers are %s" % o_str(fo["watchers"]), [], r.loc
        # nothing is pushed to the local batch
        for c in b.calls_to(trait=CH, name="push"):
            return False, "the receiver pushes items at %s" % c.loc, [], c.loc
        return True, "", [r.loc]
    chk.ob("%s.R2:swap" % prefix, "the pending batch is taken whole by mem::replace with a fresh empty batch, under the lock, on the non-empty edge", f)


# ---- C06.R3: who may mutate what ----------------------------------------------------------------------------------

def who_may(chk, P, prefix):
    def f():
        sites = []
        for b in batcher_bodies(P):
            owner = (P.bodies.get(b.root_key) or b).key if b.root_key else b.key
            for c in b.calls(normal_only=True):
                nm = c.callee.get("name")
                if c.callee.get("trait") == CH and nm in ("push", "clear"):
                    recv = b.origin(c.args[0])
                    names, root = state_field_path(recv)
                    if names[:2] == ["next_batch", "channel"]:
                        allowed = {"push": (S + "send", S + "try_send"), "clear": (S + "send",)}[nm]
                        sites.append(c.loc)
                        if owner not in allowed:
                            return False, "Channel::%s on the pending batch is called from %s; only %s may" % (nm, owner, allowed), [], c.loc
                if (c.callee.get("path") or "") in ("emit_batcher::Watchers::notify_on_take", "emit_batcher::Watchers::notify_on_flush"):
                    sites.append(c.loc)
                    if owner != "emit_batcher::Receiver::<T>::exec":
                        return False, ("%s fires the %s watchers at %s: only the receiver may, on the watchers of the batch it "
                                       "took, after that batch's last attempt; a sender firing them completes flushes that are "
                                       "still waiting on the batch in flight" % (owner, nm.replace("notify_on_", ""), c.loc)), [], c.loc
                    names, root = state_field_path(b.origin(c.args[0]))
                    if names[:1] == ["next_batch"]:
                        return False, "the receiver fires watchers of the *pending* batch in place at %s" % c.loc, [], c.loc
                if (c.callee.get("path") or "") in ("emit_batcher::Watchers::push_on_take", "emit_batcher::Watchers::push_on_flush"):
                    want = S + ("when_empty" if nm == "push_on_take" else "when_flushed")
                    sites.append(c.loc)
                    if owner != want:
                        return False, "%s is called from %s, only %s may" % (nm, owner, want), [], c.loc
            for bb, names, how, loc in writes_to_state(b):
                sites.append(loc)
                top = names[0]
                if top == "is_open":
                    if not (b.method == "drop" and (b.self_ty or "").startswith(("emit_batcher::Sender<", "emit_batcher::Receiver<"))):
                        return False, "is_open is written in %s; only dropping the sender or receiver closes the channel" % owner, [], loc
                elif top == "is_in_batch":
                    if owner != "emit_batcher::Receiver::<T>::exec":
                        return False, "is_in_batch is written in %s; only the receiver may" % owner, [], loc
                elif top == "next_batch":
                    if owner != "emit_batcher::Receiver::<T>::exec":
                        return False, ("%s replaces state.%s (%s): only the receiver may take or replace the pending batch or "
                                       "its watchers; a sender doing so discards registered flush/empty callbacks and "
                                       "unaccounted items" % (owner, ".".join(names), how)), [], loc
        if len(sites) < 12:
            return False, "expected at least 12 mutation/notification sites of the shared state, found %d" % len(sites), [], None
        return True, "", sites
    chk.ob("%s.R3:who-may-mutate" % prefix, "items enter the pending batch only in send/try_send, it is cleared only in send, replaced only by the receiver; flags have one writer each", f)

    def truncation_counted():
        b = P.body(S + "send")
        clears = b.calls_to(trait=CH, name="clear")
        incs = [c for c in b.calls(normal_only=True) if c.callee.get("name") in ("increment", "increment_by")
                and mir.o_field_path(b.origin(c.args[0], through_calls=("deref",)))[1][-1:] == ["queue_full_truncated"]]
        if len(clears) != 1:
            return False, "expected one clear() in send", [], b.span
        if len(incs) != 1:
            return False, "every truncation must be counted exactly once: found %d queue_full_truncated increments" % len(incs), [], clears[0].loc
        for rb in b.return_blocks():
            for path in b.acyclic_paths(0, rb):
                if (clears[0].bb in path) != (incs[0].bb in path):
                    return False, "a path clears the queue without counting it (or counts without clearing)", [], clears[0].loc
        # "the truncation counter increases by one": increment(), or increment_by a constant 1 - not by a quantity read off the queue
        if incs[0].callee.get("name") == "increment_by" and mir.o_const_value(b.origin(incs[0].args[1])) != 1:
            return False, ("a truncation adds %s to queue_full_truncated, not one (a length read after clear() is always 0: the counter would "
                           "never move)" % o_str(b.origin(incs[0].args[1]))), [], incs[0].loc
        return True, "", [clears[0].loc, incs[0].loc]
    chk.ob("%s.R3:truncation-counted" % prefix, "an overflow truncation and its counter increment happen on exactly the same paths", truncation_counted)


# ---- C06.R4 / C07.R3: retry remainder and watchers ------------------------------------------------------------------

def retry_remainder(chk, P, prefix):
    def f():
        b = P.body(EXEC)
        # aggregates Batch{channel, watchers} assigned (via drop-and-replace) into the current batch inside the retry loop
        cands = []
        for bb, j, s in b.statements(normal_only=True):
            if s["k"] == "assign" and s["rv"]["k"] == "agg" and (s["rv"].get("adt") or "").endswith("::Batch"):
                fo = dict(zip(s["rv"]["fields"], [b.origin(o) for o in s["rv"]["ops"]]))
                ch = fo["channel"]
                r, names = None, []
                x = ch
                dn = []
                while x[0] in ("field", "downcast", "index"):
                    if x[0] == "field":
                        names.append(x[2])
                    if x[0] == "downcast":
                        dn.append(x[2])
                    x = x[1]
                if "retryable" in names:
                    cands.append((bb, s, fo))
        if len(cands) != 1:
            return False, "expected one re-submission of the retryable remainder, found %d" % len(cands), [], b.span
        bb, s, fo = cands[0]
        w = fo["watchers"]
        r, names = mir.o_field_path(w)
        if names[-1:] != ["watchers"] or w[0] == "call" or mir.o_root(w)[0] in ("call", "const", "agg"):
            return False, ("the retried batch gets watchers %s, not the current batch's: flush callbacks would fire "
                           "before the retry finished or never" % o_str(w)), [], "%s:%s" % (b.file, s.get("line"))
        return True, "", ["%s:%s" % (b.file, s.get("line"))]
    chk.ob("%s.R4:retry-remainder" % prefix, "a retry re-submits exactly the remainder the processor returned, with the same batch's watchers", f)

    def decision():
        """`items the processor itself asks to have retried ... are re-delivered`: whether a returned remainder is re-submitted depends on the
        processor's outcome, the remainder being non-empty and the retry budget - on nothing else (not on the channel being open, not on a
        flag read under the lock).  Every branch inside the retry loop that decides whether the re-submission is reached tests one of those."""
        b = P.body(EXEC)
        (oh, obody), (ih, ibody) = exec_loops(b)
        site = None
        for bb, j, st in b.statements(normal_only=True):
            if st["k"] == "assign" and st["rv"]["k"] == "agg" and (st["rv"].get("adt") or "").endswith("::Batch") and bb in ibody:
                if "retryable" in o_str(b.origin(st["rv"]["ops"][0])):
                    site = bb
        if site is None:
            raise mir.AnchorMissing("the re-submission of the retryable remainder inside exec's retry loop")

        def roots(o, d=0):
            if d > 12 or not isinstance(o, tuple) or not o:
                return [("?", None)]
            if o[0] in ("discr", "field", "downcast", "deref", "ref", "copy", "cast", "unop"):
                return roots(o[1] if o[0] != "unop" else o[2], d + 1)
            if o[0] == "binop":
                return roots(o[2], d + 1) + roots(o[3], d + 1)
            if o[0] == "const":
                return []
            if o[0] == "call":
                return [("call", o[1])]
            if o[0] == "phi":
                return [r for x in o[1] for r in roots(x, d + 1)]
            return [(o[0], o)]
        ev = []
        for g, vals, n in b.guards_of(site):
            if g not in ibody:
                continue
            so = b.switch_origin(g)
            for kind, c in roots(so):
                ok = False
                if kind == "call":
                    nm = c.callee.get("name")
                    full = c.callee.get("path") or c.callee.get("full") or ""
                    ok = nm in ("catch_unwind", "poll", "len", "is_empty") or (nm == "next" and "Retry" in full)
                if not ok:
                    return False, ("whether the returned remainder is retried also depends on %s (branch at %s:%s): a remainder the processor asked "
                                   "to have retried is dropped on a condition other than its emptiness and the retry budget"
                                   % (o_str(so)[:120], b.file, b.blocks[g]["term"].get("line"))), [], "%s:%s" % (b.file, b.blocks[g]["term"].get("line"))
            ev.append("%s:%s" % (b.file, b.blocks[g]["term"].get("line")))
        if len(ev) < 4:
            raise mir.AnchorMissing("the branches deciding a retry (outcome, remainder, emptiness, budget); found %d" % len(ev))
        return True, "", ev
    chk.ob("%s.R4:retry-decision" % prefix, "a returned remainder is retried whenever it is non-empty and the budget allows - no other condition", decision)

    def on_batch_moved():
        b = P.body(EXEC)
        cu = b.calls_to(path="std::panic::catch_unwind")
        if not cu:
            return False, "on_batch is not run inside catch_unwind", [], b.span
        clo = None
        for c in cu:
            o = b.origin(c.args[0])
            if o[0] == "agg" and (o[1].get("adt") or "").endswith("AssertUnwindSafe") and o[2][0][0] == "agg" and o[2][0][1].get("ak") == "closure":
                clo = o[2][0]
        if clo is None:
            return False, "catch_unwind's argument is not AssertUnwindSafe(closure)", [], cu[0].loc
        caps = dict(zip(clo[1]["fields"], clo[2]))
        chcap = [v for k, v in caps.items() if "channel" in k]
        if not chcap:
            return False, "the closure does not capture the batch's channel", [], cu[0].loc
        cb = P.body(clo[1]["def"])
        calls = [c for c in cb.calls(normal_only=True) if c.callee.get("name") in ("call_mut", "call", "call_once")]
        if len(calls) != 1:
            return False, "on_batch must be called exactly once inside the closure", [], cb.span
        return True, "", [cu[0].loc, calls[0].loc]
    chk.ob("%s.R4:on_batch-moved" % prefix, "the processor is handed the batch's channel by move, once, inside catch_unwind", on_batch_moved)


# ---- C06.R5: parametricity ----------------------------------------------------------------------------------------------

def parametricity(chk, P, prefix):
    def f():
        seen = []
        for i in P.impls:
            if i.get("crate") != "emit_batcher":
                continue
            st = i["self_ty"]
            if st in ("emit_batcher::Sender<T>", "emit_batcher::Receiver<T>"):
                if i.get("trait") == "core::clone::Clone" and st == "emit_batcher::Receiver<T>":
                    return False, "Receiver implements Clone: more than one receiver could take batches", [], i["span"]
                for p in i["predicates"]:
                    if re.match(r"^T: ", p) and p not in ("T: emit_batcher::Channel", "T: core::marker::Sized"):
                        if i.get("trait") is None:
                            return False, ("%s is implemented with the bound `%s`: generic channel code must be able to "
                                           "create, fill, clear and move a T, not copy or inspect it" % (st, p)), [], i["span"]
                seen.append(st)
        if len(seen) < 4:
            return False, "expected inherent + Drop impls for Sender and Receiver", [], None
        sig = P.fns.get("emit_batcher::Receiver::<T>::exec", {}).get("sig", "")
        if not sig.startswith("fn(emit_batcher::Receiver<T>"):
            return False, "exec does not consume the receiver by value: %s" % sig, [], None
        b = P.body(EXEC)
        for x in [b] + P.closures_of(b):
            for c in x.calls(normal_only=True):
                if c.callee.get("name") in ("spawn", "spawn_blocking", "spawn_local"):
                    return False, "exec spawns concurrent work at %s: batches would no longer be processed sequentially" % c.loc, [], c.loc
        return True, "", seen
    chk.ob("%s.R5:parametricity" % prefix, "Sender/Receiver are generic over T: Channel only; one receiver, consumed by exec; batches processed sequentially", f)


# ---- C07.R1: when_flushed condition -----------------------------------------------------------------------------------------

def when_flushed_table(chk, P, prefix):
    def f():
        b = P.body(S + "when_flushed")
        imm = [c for c in b.calls(normal_only=True) if c.callee.get("name") == "call_once" and mir.o_is_param(b.origin(c.args[0]), idx=2)]
        dfr = b.calls_to(path="emit_batcher::Watchers::push_on_flush")
        if len(imm) != 1 or len(dfr) != 1:
            return False, "expected one immediate call and one push_on_flush, found %d / %d" % (len(imm), len(dfr)), [], b.span
        names = ["is_in_batch", "empty", "is_open"]
        rows = []
        for rb in b.return_blocks():
            for path in b.acyclic_paths(0, rb):
                ps = mir.PathSummary(b, path)
                dec = {}
                feasible = True
                for bb, o, vals in ps.decisions():
                    t = mir.truthy(vals)
                    cv = mir.o_const_value(o)
                    if isinstance(cv, bool) and t is not None and cv != t:
                        feasible = False   # a boolean computed earlier on this very path contradicts the edge taken
                        break
                    nm, pol = atom(b, o)
                    if nm is None:
                        continue
                    if t is None:
                        continue
                    if nm in dec and dec[nm] != (t == pol):
                        feasible = False   # the same state bit decided both ways
                        break
                    dec[nm] = (t == pol)
                if not feasible:
                    continue
                what = "immediate" if imm[0].bb in ps.pos else ("deferred" if dfr[0].bb in ps.pos else "neither")
                rows.append((dec, what))
        for vals in itertools.product([False, True], repeat=3):
            a = dict(zip(names, vals))
            outs = {w for dec, w in rows if all(a[k] == v for k, v in dec.items())}
            exp = "immediate" if (not a["is_in_batch"] and (a["empty"] or not a["is_open"])) else "deferred"
            if outs != {exp}:
                return False, ("with is_in_batch=%s, pending empty=%s, is_open=%s the callback is %s; a flush may complete "
                               "at once only when no batch is in flight and nothing is pending (or the channel is closed), "
                               "expected %s" % (a["is_in_batch"], a["empty"], a["is_open"], sorted(outs), exp)), [], imm[0].loc
        # the deferred callback is attached to the *pending* batch's watchers under the guard
        o = b.origin(dfr[0].args[0])
        nmz, root = state_field_path(o)
        if nmz != ["next_batch", "watchers"] or guard_of(b, o) is None:
            return False, "the deferred callback is pushed onto %s" % o_str(o), [], dfr[0].loc
        if not common.has_root(b.origin(dfr[0].args[1]), "param", 2):
            return False, "the deferred watcher is not the callback", [], dfr[0].loc
        return True, "", [imm[0].loc, dfr[0].loc]
    chk.ob("%s.R1:when_flushed" % prefix, "immediate iff !is_in_batch && (pending.is_empty() || !is_open); otherwise attached to the pending batch", f)

    def when_empty():
        b = P.body(S + "when_empty")
        imm = [c for c in b.calls(normal_only=True) if c.callee.get("name") == "call_once" and mir.o_is_param(b.origin(c.args[0]), idx=2)]
        dfr = b.calls_to(path="emit_batcher::Watchers::push_on_take")
        if len(imm) != 1 or len(dfr) != 1:
            return False, "expected one immediate call and one push_on_take", [], b.span
        for c, want in ((imm[0], True), (dfr[0], False)):
            g = [(atom(b, b.switch_origin(bb)), list(vals)) for bb, vals, n in b.guards_of(c.bb)]
            ok = any(a[0] == "empty" and ((vals != ["0"]) == a[1]) == want for a, vals in g if a[0])
            if not ok:
                return False, "the %s arm is not selected by pending.is_empty() == %s" % ("immediate" if want else "deferred", want), [], c.loc
        return True, "", [imm[0].loc, dfr[0].loc]
    chk.ob("%s.R1:when_empty" % prefix, "when_empty fires at once iff nothing is pending, else waits for the batch to be taken", when_empty)


# ---- C07.R2: receiver flags ------------------------------------------------------------------------------------------------------

def receiver_flags(chk, P, prefix):
    def f():
        b = P.body(EXEC)
        ws = [w for w in writes_to_state(b)]
        inb = [(bb, loc) for bb, names, how, loc in ws if names == ["is_in_batch"]]
        if len(inb) != 2:
            return False, "expected two writes of is_in_batch in exec, found %d" % len(inb), [], b.span
        vals = {}
        for bb, loc in inb:
            for s in b.blocks[bb]["stmts"]:
                if s["k"] == "assign" and "p" in s["place"] and any(isinstance(p, dict) and p.get("n") == "is_in_batch" for p in s["place"]["p"]):
                    v = mir.o_const_value(b.origin(s["rv"]["op"])) if s["rv"]["k"] == "use" else None
                    g = [(atom(b, b.switch_origin(gb)), list(vs)) for gb, vs, n in b.guards_of(bb)]
                    nonempty = None
                    for a, vs in g:
                        if a[0] == "empty":
                            empty_true = ((vs != ["0"]) == a[1])
                            nonempty = not empty_true
                    vals[v] = nonempty
        if vals.get(True) is not True or vals.get(False) is not False:
            return False, ("is_in_batch must become true exactly on the non-empty arm and false on the empty arm "
                           "(found value->nonempty map %s)" % vals), [], inb[0][1]
        # both writes happen inside the one critical section that takes the batch: exec locks the state once
        locks = lock_calls(b)
        if len(locks) != 1:
            return False, ("exec acquires the state lock %d times: is_in_batch must change in the same critical section that takes the batch, or a "
                           "flush arriving between the two sees 'queue empty, not in a batch' while a batch is in flight" % len(locks)), [], (locks[1].loc if len(locks) > 1 else b.span)
        rp = [c for c in b.calls(normal_only=True) if (c.callee.get("path") or "").startswith("core::mem::replace")]
        for bb, loc in inb:
            if not b.dominates(locks[0].bb, bb):
                return False, "is_in_batch is written outside the critical section at %s" % loc, [], loc
        tk = [(bb, loc) for bb, names, how, loc in ws if names == ["next_batch", "watchers"] and how == "take"]
        if len(tk) != 1:
            return False, "expected the pending watchers to be taken once on the empty arm", [], b.span
        g = [(atom(b, b.switch_origin(gb)), list(vs)) for gb, vs, n in b.guards_of(tk[0][0])]
        if not any(a[0] == "empty" and ((vs != ["0"]) == a[1]) for a, vs in g if a[0]):
            return False, "pending watchers are taken on the non-empty arm", [], tk[0][1]
        return True, "", [x[1] for x in inb] + [tk[0][1]]
    chk.ob("%s.R2:receiver-flags" % prefix, "is_in_batch=true with the swap on the non-empty arm; is_in_batch=false and watchers taken on the empty arm, all under the lock", f)


# ---- C07.R3: watchers fire after the last attempt -----------------------------------------------------------------------------------

def exec_loops(b):
    """(outer header, inner retry header) of exec's two nested loops: the retry loop is the innermost loop that
    contains the catch_unwind(on_batch) call."""
    cu = b.calls_to(path="std::panic::catch_unwind")
    if not cu:
        raise mir.AnchorMissing("catch_unwind in exec")
    heads = sorted({t for s, t in b.back_edges()})
    cont = [(h, b.loop_body(h)) for h in heads]
    cont = [(h, body) for h, body in cont if cu[0].bb in body]
    if len(cont) < 2:
        raise mir.AnchorMissing("exec's receive loop and retry loop (found %d loops around on_batch)" % len(cont))
    cont.sort(key=lambda x: len(x[1]))
    # skip await-poll loops (they do not contain the catch_unwind call) — already filtered
    inner = cont[0]
    outer = cont[-1]
    return outer, inner


def watchers_after_last_attempt(chk, P, prefix):
    def f():
        b = P.body(EXEC)
        (oh, obody), (ih, ibody) = exec_loops(b)
        nf = b.calls_to(path="emit_batcher::Watchers::notify_on_flush")
        if len(nf) < 2:
            return False, "expected notify_on_flush on both the batch arm and the empty arm, found %d sites" % len(nf), [], b.span
        inside = [c for c in nf if c.bb in ibody]
        if inside:
            return False, ("notify_on_flush is called inside the retry loop at %s: flush callbacks would fire while the "
                           "batch is still going to be retried" % inside[0].loc), [], inside[0].loc
        nfb = {c.bb for c in nf}
        # every exit edge of the retry loop reaches a notify before the next iteration of the outer loop / return
        succ = b.succs(False)
        for s in ibody:
            for t in succ[s]:
                if t not in ibody:
                    if not b.must_pass(nfb, start=t, ends=[oh] + b.return_blocks()):
                        return False, ("after the retry loop is left from bb%d the receiver can start the next iteration "
                                       "without notifying flush watchers" % s), [], b.span
        # the empty arm notifies before returning / idling
        for rb in b.return_blocks():
            if not any(b.dominates(n, rb) for n in nfb):
                return False, "exec can return without firing outstanding flush callbacks", [], b.span
        # flush watchers of the current batch are what is notified
        return True, "", [c.loc for c in nf]
    chk.ob("%s.R3:watchers-after-last-attempt" % prefix, "flush watchers fire only after the retry loop has been left, on every exit, and before exec returns", f)

    def notify_take():
        b = P.body(EXEC)
        nt = b.calls_to(path="emit_batcher::Watchers::notify_on_take")
        if len(nt) != 1:
            return False, "expected one notify_on_take", [], b.span
        gs = guard_sites(b)
        held, at_term, rel = b.held_region(gs[0][1].dest["l"], gs[0][1].bb)
        if nt[0].bb in at_term:
            return False, "take-watchers are notified while the state lock is held", [], nt[0].loc
        return True, "", [nt[0].loc]
    chk.ob("%s.R3:notify_on_take" % prefix, "take-watchers are notified once per iteration, after the lock is released", notify_take)


# ---- C07.R4: trigger / wait agreement ----------------------------------------------------------------------------------------------------

def blocking_flush_sync(chk, P, prefix):
    def f():
        b = P.body("emit_batcher::sync::blocking_flush")
        wf = b.calls_to(path_re=r"Sender::<T>::when_flushed")
        if len(wf) != 1 or b.count_on_paths({wf[0].bb}) != (1, 1):
            return False, "blocking_flush must register exactly one flush callback", [], b.span
        if not mir.o_is_param(b.origin(wf[0].args[0]), idx=1):
            return False, "callback registered on %s" % o_str(b.origin(wf[0].args[0])), [], wf[0].loc
        clo = b.origin(wf[0].args[1])
        if clo[0] != "agg":
            return False, "callback is not a closure", [], wf[0].loc
        cb = P.body(clo[1]["def"])
        tr = cb.calls_to(path="emit_batcher::sync::Trigger::trigger")
        if len(tr) != 1 or cb.count_on_paths({tr[0].bb}) != (1, 1):
            return False, "the flush callback must trigger the notifier exactly once", [], cb.span
        wt = b.calls_to(path="emit_batcher::sync::Trigger::wait_timeout")
        if len(wt) != 1:
            return False, "expected one wait_timeout", [], b.span
        r = b.origin(0)
        if not (r[0] == "call" and r[1].bb == wt[0].bb):
            return False, "blocking_flush returns %s, not whether the notifier was triggered" % o_str(r), [], wt[0].loc
        if not mir.o_is_param(b.origin(wt[0].args[1]), idx=2):
            return False, "waits for %s, not the caller's timeout" % o_str(b.origin(wt[0].args[1])), [], wt[0].loc
        # the waited-on trigger is the same object the callback holds (clone of one Trigger::new)
        n0 = b.origin(wt[0].args[0], through_calls=("clone",))
        cap = clo[2][0] if clo[2] else ("unknown",)
        n1 = cap
        def root_new(o):
            d = 0
            while o[0] == "call" and o[1].callee.get("name") == "clone" and d < 5:
                o = o[1].body.origin(o[1].args[0])
                d += 1
            return o
        a, c = root_new(n0), root_new(n1)
        if not (mir.o_is_call(a, path="emit_batcher::sync::Trigger::new") and mir.o_is_call(c, path="emit_batcher::sync::Trigger::new") and a[1].bb == c[1].bb):
            return False, "the callback triggers %s but the caller waits on %s" % (o_str(c), o_str(a)), [], wt[0].loc
        return True, "", [wf[0].loc, tr[0].loc, wt[0].loc]
    chk.ob("%s.R4:sync::blocking_flush" % prefix, "blocking_flush registers a flush callback that triggers the notifier it waits on, and returns the wait's result", f)

    def wait_timeout():
        b = P.body("emit_batcher::sync::Trigger::wait_timeout")
        for rb in b.return_blocks():
            for path in b.acyclic_paths(0, rb, limit=20000):
                ps = mir.PathSummary(b, path)
                r = ps.ret()
                v = mir.o_const_value(r)
                if v is True:
                    # must be dominated by a read of the flag being true
                    decs = ps.decisions()
                    last = decs[-1] if decs else None
                    ok = False
                    for bb, o, vals in decs:
                        # the flag read: a deref of the mutex guard (looking through `== true`, `!`), taken on its true edge
                        base, pos = mir.norm_bool(o)
                        is_flag = base[0] == "call" and base[1].callee.get("name") == "deref" and "MutexGuard" in (base[1].callee.get("full") or base[1].callee.get("path") or "")
                        t = mir.truthy(vals)
                        if is_flag and t is not None and (t == pos):
                            ok = True
                        elif is_flag and t is not None:
                            ok = False      # the latest reading of the flag on this path was false
                    if not ok:
                        return False, ("wait_timeout returns true on a path whose latest reading of the flag was not true (e.g. when the timeout is "
                                       "zero or has run out): a flush would be reported complete that never was"), [], b.span
                elif v is False:
                    # only allowed where the timeout is exhausted (Duration::ZERO comparison)
                    pass
                elif v is None:
                    # returns the flag value itself: a read through a guard of the same mutex
                    if r[0] == "const":
                        return False, "returns unexpected constant", [], b.span
                    base, pos = mir.norm_bool(r)
                    if not (base[0] == "call" and base[1].callee.get("name") == "deref" and "MutexGuard" in (base[1].callee.get("full") or base[1].callee.get("path") or "")) or not pos:
                        return False, "wait_timeout returns %s, not the flag" % o_str(r), [], b.span
        # the flag is only set by trigger()
        t = P.body("emit_batcher::sync::Trigger::trigger")
        writes = [s for bb, j, s in t.statements(normal_only=True) if s["k"] == "assign" and "p" in s["place"] and s["rv"]["k"] == "use"
                  and mir.o_const_value(t.origin(s["rv"]["op"])) is True]
        if len(writes) != 1:
            return False, "trigger() must set the flag to true exactly once", [], t.span
        na = [c for c in t.calls(normal_only=True) if c.callee.get("name") in ("notify_all", "notify_one")]
        if len(na) != 1 or na[0].callee.get("name") != "notify_all":
            return False, "trigger() must wake all waiters", [], t.span
        return True, "", [b.span, t.span]
    chk.ob("%s.R4:Trigger" % prefix, "the trigger sets the flag under its mutex and wakes all waiters; wait_timeout reports the flag", wait_timeout)

    def tokio_flush():
        key = "emit_batcher::tokio::flush::{closure#0}"
        b = P.body(key)
        wf = b.calls_to(path_re=r"Sender::<T>::when_flushed")
        if len(wf) != 1:
            return False, "tokio::flush must register exactly one flush callback", [], b.span
        clo = b.origin(wf[0].args[1])
        cb = P.body(clo[1]["def"])
        snd = [c for c in cb.calls(normal_only=True) if c.callee.get("name") == "send" and "oneshot" in (c.callee.get("full") or "")]
        if len(snd) != 1:
            return False, "the flush callback must signal the oneshot exactly once", [], cb.span
        w = b.calls_to(path="emit_batcher::tokio::wait")
        if len(w) != 1:
            return False, "expected one wait()", [], b.span
        # sender and receiver halves come from the same oneshot::channel()
        cap = clo[2][0]
        rx = b.origin(w[0].args[0])
        ra = {x for x in common.roots(cap) if x[0] == "callsite"}
        rb_ = {x for x in common.roots(rx) if x[0] == "callsite"}
        if not (ra & rb_):
            return False, "the callback's notifier and the awaited receiver are not halves of one channel", [], w[0].loc
        return True, "", [wf[0].loc, snd[0].loc, w[0].loc]
    chk.ob("%s.R4:tokio::flush" % prefix, "async flush registers a callback that signals the oneshot it awaits", tokio_flush)


def callable_param(P, b, o):
    """Index of the enclosing function's parameter a called closure/callback operand is (directly, or as a capture of the async
    body): rules name callbacks by position (exec(self, wait, on_batch), send_or_wait(self, msg, timeout, elapsed, wait)),
    not by what the parameter happens to be called."""
    d = 0
    while d < 6:
        d += 1
        if o[0] == "param":
            return o[1] if not b.is_closure else None
        if o[0] == "capture":
            po = P.capture_origin(b, o)
            if po[0] == "param":
                return po[1]
            if po[0] == "capture":
                par = P.bodies.get(b.parent_key)
                if par is None:
                    return None
                b, o = par, po
                continue
            return None
        if o[0] == "field":
            o = o[1]
            continue
        return None
    return None


# ---- C08 ---------------------------------------------------------------------------------------------------------------------------------------

def containment(chk, P, prefix):
    def f():
        b = P.body(EXEC)
        # on_batch (capture) is only called inside the closure handed to catch_unwind
        def nm_of(o):
            if o[0] == "capture":
                return o[1]
            if o[0] == "param":
                return o[2]
            return (mir.o_field_path(o)[1] or [None])[-1]
        direct = [c for c in b.calls(normal_only=True) if c.callee.get("name") in ("call_mut", "call", "call_once")
                  and callable_param(P, b, b.origin(c.args[0], through_calls=("deref_mut",))) == 3]
        if direct:
            return False, "on_batch is called outside catch_unwind at %s: a panicking processor would kill the receiver" % direct[0].loc, [], direct[0].loc
        cu = b.calls_to(path="std::panic::catch_unwind")
        if len(cu) != 1:
            return False, "expected one catch_unwind around on_batch, found %d" % len(cu), [], b.span
        # the returned future is awaited only through CatchUnwind
        polls = [c for c in b.calls(normal_only=True) if c.callee.get("name") == "poll" and c.callee.get("trait") == "core::future::future::Future"]
        for c in polls:
            st = c.callee.get("self_ty") or ""
            if st == "FBatch":
                return False, "the batch future is polled directly at %s, not through CatchUnwind" % c.loc, [], c.loc
        cps = [c for c in polls if "CatchUnwind" in (c.callee.get("self_ty") or "")]
        if len(cps) != 1:
            return False, "expected the batch future to be awaited through CatchUnwind", [], b.span
        return True, "", [cu[0].loc, cps[0].loc]
    chk.ob("%s.R1:on_batch-contained" % prefix, "the processor runs only inside catch_unwind; its future is polled only through CatchUnwind", f)

    def catch_unwind_poll():
        b = P.impl_method("core::future::future::Future", "emit_batcher::CatchUnwind<F>", "poll")
        cu = b.calls_to(path="std::panic::catch_unwind")
        if len(cu) != 1 or b.count_on_paths({cu[0].bb}) != (1, 1):
            return False, "CatchUnwind::poll must poll inside catch_unwind", [], b.span
        polls = [c for x in [b] for c in x.calls(normal_only=True) if c.callee.get("name") == "poll"]
        if polls:
            return False, "CatchUnwind::poll polls the inner future outside catch_unwind at %s" % polls[0].loc, [], polls[0].loc
        inner = [c for x in P.closures_of(b) for c in x.calls(normal_only=True) if c.callee.get("name") == "poll"]
        if len(inner) != 1:
            return False, "expected the inner poll inside the guarded closure", [], b.span
        return True, "", [cu[0].loc, inner[0].loc]
    chk.ob("%s.R1:CatchUnwind::poll" % prefix, "CatchUnwind polls the inner future inside catch_unwind", catch_unwind_poll)

    for nm in ("notify_on_flush", "notify_on_take"):
        def w(nm=nm):
            b = P.body("emit_batcher::Watchers::%s" % nm)
            tk = [c for c in b.calls(normal_only=True) if c.callee.get("path") in ("core::mem::take", "core::mem::replace") or
                  (c.callee.get("name") == "drain" and "Vec" in (c.callee.get("path") or ""))]
            fld = "on_flush" if nm == "notify_on_flush" else "on_take"
            if len(tk) != 1 or mir.o_field_path(b.origin(tk[0].args[0], through_calls=("deref", "deref_mut")))[1][-1:] != [fld]:
                return False, "%s must take its callbacks out of self.%s (mem::take / drain) before running them, so each fires exactly once" % (nm, fld), [], b.span
            cu = b.calls_to(path="std::panic::catch_unwind")
            if len(cu) != 1:
                return False, "each watcher must be invoked inside catch_unwind", [], b.span
            if not b.in_cycle(cu[0].bb):
                return False, "watchers are not invoked in a loop over the drained list", [], cu[0].loc
            direct = [c for c in b.calls(normal_only=True) if c.callee.get("name") in ("call_once", "call")]
            if direct:
                return False, "a watcher is invoked outside catch_unwind at %s" % direct[0].loc, [], direct[0].loc
            return True, "", [tk[0].loc, cu[0].loc]
        chk.ob("%s.R1:Watchers::%s" % (prefix, nm), "watchers are drained once and each runs inside catch_unwind", w)


def bounded_retry(chk, P, prefix):
    def f():
        b = P.body(EXEC)
        (oh, obody), (ih, ibody) = exec_loops(b)
        rn = b.calls_to(path="emit_batcher::Retry::next")
        if len(rn) != 1:
            return False, "expected one Retry::next in exec", [], b.span
        # back-edges of the retry loop
        backs = [(s, t) for s, t in b.back_edges() if t == ih]
        if not backs:
            return False, "retry loop has no back edge", [], b.span
        dn = [c for c in b.calls(normal_only=True) if (c.callee.get("path") or "") == "emit_batcher::Delay::next"
              and mir.o_field_path(b.origin(c.args[0], through_calls=("deref_mut",)))[1][-1:] == ["retry_delay"]]
        if len(dn) != 1:
            return False, "expected one retry_delay.next() in exec", [], b.span
        for s, t in backs:
            ok_next = False
            for bb, vals, n in b.guards_of(s):
                so = b.switch_origin(bb)
                if so[0] == "call" and so[1].bb == rn[0].bb and list(vals) != ["0"]:
                    ok_next = True
            if not ok_next:
                return False, ("the retry loop can iterate without consuming the retry budget (a back edge from bb%d is not "
                               "control-dependent on Retry::next() being true): a permanently failing batch would be "
                               "retried forever" % s), [], rn[0].loc
            # back-off: every way round the loop passes through an awaited wait(retry_delay.next())
            def nm_of(o):
                if o[0] == "capture":
                    return o[1]
                if o[0] == "param":
                    return o[2]
                return (mir.o_field_path(o)[1] or [None])[-1]
            ws = [c for c in b.calls(normal_only=True) if c.callee.get("name") in ("call_mut", "call")
                  and callable_param(P, b, b.origin(c.args[0], through_calls=("deref_mut",))) == 2
                  and common.has_root(b.origin(c.args[1]), "callsite", dn[0].bb)]
            if not ws:
                return False, ("a retry does not wait for the back-off: no wait(self.retry_delay.next()) call; a failing destination would be "
                               "hammered in a tight loop"), [], dn[0].loc
            if not b.must_pass({w.bb for w in ws}, start=rn[0].bb, ends=[s]):
                return False, ("a retry can go round the loop without waiting for the back-off (wait(self.retry_delay.next()) is not on every "
                               "path from Retry::next() to the back edge): a failing destination would be hammered in a tight loop"), [], rn[0].loc
            polls = {c.bb for c in b.calls(normal_only=True) if c.callee.get("name") == "poll" and c.bb in ibody
                     and any(common.has_root(b.origin(c.args[0]), "callsite", w.bb) for w in ws)}
            if not polls or not any(b.must_pass(polls, start=w.bb, ends=[s]) for w in ws):
                return False, "the back-off future is created but not awaited before the next attempt", [], ws[0].loc
        # resets dominate the retry loop for each new batch
        for path, nm in (("emit_batcher::Retry::reset", "retry"), ("emit_batcher::Delay::reset", "delays")):
            rs = b.calls_to(path=path)
            if not rs or not all(b.dominates(c.bb, ih) for c in rs) or any(c.bb in ibody for c in rs):
                return False, "%s are not reset once per new batch before the retry loop" % nm, [], b.span
        if len(b.calls_to(path="emit_batcher::Delay::reset")) != 2:
            return False, "both the retry delay and the idle delay must be reset for a new batch", [], b.span
        return True, "", [rn[0].loc]
    chk.ob("%s.R2:retry-budget" % prefix, "every iteration of the retry loop consumes Retry::next() and awaits the back-off wait(retry_delay.next()); budget and delays reset per batch", f)

    def retry_next():
        b = P.body("emit_batcher::Retry::next")
        # self.current += 1 (unconditionally, by exactly one), then `self.current <= self.max`: Retry::new(n) grants exactly n retries
        incs = [s for bb, j, s in b.statements(normal_only=True) if s["k"] == "assign" and "p" in s["place"]
                and any(isinstance(p, dict) and p.get("n") == "current" for p in s["place"]["p"])]
        if len(incs) != 1:
            return False, "Retry::next must advance the attempt counter exactly once", [], b.span
        io = b.origin(incs[0]["rv"]["op"]) if incs[0]["rv"]["k"] == "use" else None
        x = io
        while x is not None and x[0] == "field":
            x = x[1]
        plus_one = x is not None and (
            (x[0] == "binop" and x[1].startswith("Add") and mir.o_field_path(x[2])[1] == ["current"] and mir.o_const_value(x[3]) == 1) or
            (x[0] == "call" and x[1].callee.get("name") in ("saturating_add", "wrapping_add") and mir.o_field_path(b.origin(x[1].args[0]))[1] == ["current"]
             and mir.o_const_value(b.origin(x[1].args[1])) == 1))
        if not plus_one:
            return False, ("the attempt counter is advanced as %s, not `current + 1`: a clamped or otherwise adjusted counter changes how many "
                           "retries the configured maximum grants" % (o_str(io) if io else "?")), [], b.span
        n = mir.norm_cmp(b.origin(0), lambda o: mir.o_field_path(o)[1] == ["current"])
        if n is None or n[0] != "Le":
            return False, ("Retry::next returns %s: it must be `current <= max` after the increment, so that a maximum of n grants exactly n "
                           "retries (with `<` the last one is lost)" % o_str(b.origin(0))), [], b.span
        r = ("binop", n[0], n[1], n[2])
        ln = mir.o_field_path(r[2])[1]
        rn = mir.o_field_path(r[3])[1]
        if ln != ["current"] or rn != ["max"]:
            return False, "compares %s with %s" % (o_str(r[2]), o_str(r[3])), [], b.span
        return True, "", [b.span]
    chk.ob("%s.R2:Retry::next" % prefix, "Retry::next adds one to the counter on every call and returns `current <= max`: a maximum of n grants exactly n retries", retry_next)

    def delay_next():
        b = P.body("emit_batcher::Delay::next")
        mn = b.calls_to(path_re=r"^core::cmp::min")
        if len(mn) != 1:
            return False, "Delay::next must clamp with cmp::min", [], b.span
        args = [mir.o_field_path(b.origin(a))[1] for a in mn[0].args]
        if ["max"] not in args:
            return False, "the delay is not clamped to self.max", [], mn[0].loc
        # the unclamped value grows from the previous delay: only Duration add/mul (by a constant >= 1) of self.current and self.step
        grow = [b.origin(a) for a in mn[0].args if mir.o_field_path(b.origin(a))[1] != ["max"]]
        if len(grow) != 1:
            return False, "min(<next>, self.max) expected", [], mn[0].loc
        ok_fields = set()

        def walk(o, d=0):
            if d > 8:
                return False
            if o[0] == "call" and o[1].callee.get("name") in ("add", "saturating_add", "checked_add"):
                return all(walk(b.origin(a), d + 1) for a in o[1].args)
            if o[0] == "call" and o[1].callee.get("name") in ("mul", "saturating_mul"):
                k = mir.o_const_value(b.origin(o[1].args[1]))
                return isinstance(k, int) and k >= 1 and walk(b.origin(o[1].args[0]), d + 1)
            names = mir.o_field_path(o)[1]
            if names in (["current"], ["step"]):
                ok_fields.add(names[0])
                return True
            return False
        if not walk(grow[0]) or "current" not in ok_fields:
            return False, ("the next delay is %s: it must be built from the previous delay by additions / multiplications by a constant >= 1 "
                           "(non-decreasing back-off) before clamping" % o_str(grow[0])), [], mn[0].loc
        # stored back and returned
        st = [s_ for bb, j, s_ in b.statements(normal_only=True) if s_["k"] == "assign" and s_["place"].get("p") and
              any(isinstance(p_, dict) and p_.get("n") == "current" for p_ in s_["place"]["p"])]
        if len(st) != 1 or not common.has_root(b.origin(st[0]["rv"]["op"]) if st[0]["rv"]["k"] == "use" else ("x",), "callsite", mn[0].bb):
            return False, "the clamped delay is not stored back into self.current (the back-off would not grow)", [], mn[0].loc
        if mir.o_field_path(b.origin(0))[1] != ["current"] and not common.has_root(b.origin(0), "callsite", mn[0].bb):
            return False, "Delay::next does not return the new delay", [], b.span
        rb = P.body("emit_batcher::Delay::reset")
        return True, "", [mn[0].loc, rb.span]
    chk.ob("%s.R2:Delay::next" % prefix, "back-off grows from the previous delay (add / multiply by a constant >= 1), is clamped to its maximum, stored back and returned", delay_next)

    def resets():
        def is_zero(o):
            v = mir.o_const_value(o)
            if v == 0:
                return True
            d = o[1].get("def") if o[0] == "const" and isinstance(o[1], dict) else None
            return bool(d) and str(d).endswith("Duration::ZERO")
        sites = []
        for ty in ("Retry", "Delay"):
            rb = P.body("emit_batcher::%s::reset" % ty)
            st = [s_ for bb, j_, s_ in rb.statements(normal_only=True) if s_["k"] == "assign" and s_["place"].get("p")]
            if len(st) != 1 or not any(isinstance(p_, dict) and p_.get("n") == "current" for p_ in st[0]["place"]["p"]) \
                    or st[0]["rv"]["k"] != "use" or not is_zero(rb.origin(st[0]["rv"]["op"])):
                return False, "%s::reset must set `current` back to zero (a new batch starts with a fresh budget / shortest delay)" % ty, [], rb.span
            nb = P.body("emit_batcher::%s::new" % ty)
            o = nb.origin(0)
            if o[0] != "agg":
                return False, "%s::new is not a literal" % ty, [], nb.span
            fo = dict(zip(o[1]["fields"], o[2]))
            if not is_zero(fo["current"]):
                return False, "%s::new starts `current` at %s" % (ty, o_str(fo["current"])), [], nb.span
            if not mir.o_is_param(fo["max"], idx=(1 if ty == "Retry" else 2)):
                return False, "%s::new does not store its maximum" % ty, [], nb.span
            sites += [rb.span, nb.span]
        return True, "", sites
    chk.ob("%s.R2:resets" % prefix, "retry budget and back-off start at zero and reset to zero", resets)


def nothing_under_lock(chk, P, prefix):
    FORBIDDEN_NAMES = ("call_once", "call_mut", "call", "sleep", "wait", "wait_timeout", "wait_while", "block_on",
                       "block_in_place", "join", "notify_on_flush", "notify_on_take", "trigger", "recv", "park")
    def f():
        sites = []
        for b in batcher_bodies(P):
            for lockc, unw in guard_sites(b):
                if "p" in unw.dest:
                    continue
                held, at_term, rel = b.held_region(unw.dest["l"], unw.bb, unwind=False)
                for bb in sorted(at_term):
                    t = b.blocks[bb]["term"]
                    if t["k"] == "yield":
                        return False, "%s awaits while holding the state lock (bb%d)" % (b.key, bb), [], "%s:%s" % (b.file, t.get("line"))
                    if t["k"] == "call":
                        c = mir.CallSite(b, bb, t)
                        nm = c.callee.get("name")
                        st = c.callee.get("self_ty") or ""
                        generic_user_code = bool(re.match(r"^&?(mut )?[A-Z][A-Za-z0-9]*$", st)) and c.callee.get("trait") not in (CH, None) \
                            and not (c.callee.get("trait") or "").startswith(("core::ops::deref", "core::ops::drop", "core::clone", "core::default"))
                        if "indirect" in c.callee or generic_user_code or (nm in FORBIDDEN_NAMES and not (c.callee.get("path") or "").startswith("core::mem::")):
                            # calling Channel methods / Watchers::push_* is fine; user callbacks and waits are not
                            return False, ("%s calls %s at %s while the state lock is held: user code or a wait under the "
                                           "lock can deadlock senders and the receiver" % (b.key, c.callee.get("full") or "a callback", c.loc)), [], c.loc
                sites.append(unw.loc)
                # a temporary guard (Drop impls) is released at the end of the statement: nothing to check further
        if len(sites) < 7:
            return False, "expected at least 7 guarded regions in emit_batcher, found %d" % len(sites), [], None
        return True, "", sites
    chk.ob("%s.R3:nothing-under-lock" % prefix, "no await, user callback (closure or method of a caller-supplied generic type other than T: Channel), watcher notification or blocking wait while the state lock is held", f)


def state_stays_inside(chk, P, prefix):
    """Layering: the channel's shared state is locked only by the channel's own types (methods of Sender / Receiver / ChannelMetrics and their
    Drop impls), whose decision tables the other rules check.  The blocking and async adaptors (sync / tokio / web modules) answer their
    callers only through those operations - a wrapper that locks the state itself can answer from half of a decision (`queue empty` without
    `no batch in flight`)."""
    def f():
        ev = []
        for b in batcher_bodies(P):
            ls = lock_calls(b)
            if not ls:
                continue
            root = b.key.split("::{closure")[0]
            if re.search(r"emit_batcher::(Sender|Receiver|ChannelMetrics)(::<|<)", root):
                ev.append(root)
                continue
            return False, ("%s locks the channel's state itself (at %s): only the Sender / Receiver operations - whose decisions are checked - may read or write "
                           "it; an adaptor must go through when_flushed / when_empty / try_send" % (b.key, ls[0].loc)), [], ls[0].loc
        if len(ev) < 7:
            raise mir.AnchorMissing("bodies that lock the channel state (found %d)" % len(ev))
        return True, "", sorted(set(ev))
    chk.ob("%s.R3:state-stays-inside" % prefix, "only the channel's own operations lock its state; adaptors go through them", f)


def termination(chk, P, prefix):
    for ty in ("Sender", "Receiver"):
        def f(ty=ty):
            b = P.body("<emit_batcher::%s<T> as core::ops::drop::Drop>::drop" % ty)
            ws = [w for w in writes_to_state(b) if w[1] == ["is_open"]]
            if len(ws) != 1:
                return False, "dropping the %s must close the channel (is_open = false under the lock)" % ty.lower(), [], b.span
            for s in b.blocks[ws[0][0]]["stmts"]:
                if s["k"] == "assign" and "p" in s["place"] and s["rv"]["k"] == "use":
                    if mir.o_const_value(b.origin(s["rv"]["op"])) is not False:
                        return False, "is_open is set to %s" % o_str(b.origin(s["rv"]["op"])), [], ws[0][3]
            return True, "", [ws[0][3]]
        chk.ob("%s.R4:Drop for %s" % (prefix, ty), "dropping the %s closes the channel under the lock" % ty.lower(), f)

    def exec_return():
        b = P.body(EXEC)
        rets = b.return_blocks()
        if len(rets) != 1:
            return False, "expected one return", [], b.span
        conds = []
        for bb, vals, n in b.guards_of(rets[0]):
            so = b.switch_origin(bb)
            a = atom(b, so)
            if a[0]:
                conds.append((a[0], (list(vals) != ["0"]) == a[1]))
            elif so[0] == "phi" and all(atom(b, x)[0] == "is_open" for x in so[1]):
                conds.append(("is_open", list(vals) != ["0"]))
        if ("is_open", False) not in conds:
            return False, "exec returns without the channel being closed (conditions: %s)" % conds, [], b.span
        if ("empty", True) not in conds:
            return False, ("exec can return while the batch it just took is non-empty (conditions on the return: %s): items "
                           "queued when the last sender dropped would never be delivered" % conds), [], b.span
        return True, "", ["%s (guards %s)" % (b.span, conds)]
    chk.ob("%s.R4:exec-return" % prefix, "the receiver terminates only on the empty arm with the channel closed", exec_return)


def tokio_blocking(chk, P, prefix):
    for fn in ("blocking_flush", "blocking_send"):
        def f(fn=fn):
            b = P.body("emit_batcher::tokio::%s" % fn)
            bodies = [b] + P.closures_of(b)
            for x in bodies:
                for c in x.calls(normal_only=True):
                    if c.callee.get("name") == "block_on":
                        return False, ("tokio::%s calls %s at %s: from inside a tokio runtime (multi-thread worker or "
                                       "current-thread) block_on panics ('Cannot start a runtime from within a runtime')"
                                       % (fn, c.callee.get("full"), c.loc)), [], c.loc
            bip = [c for c in b.calls(normal_only=True) if c.callee.get("name") == "block_in_place"]
            for c in bip:
                ok = False
                for gbb, vals, n in b.guards_of(c.bb):
                    so = b.switch_origin(gbb)
                    rr = common.roots(so)
                    names = []
                    def walk(o, d=0):
                        if d > 12:
                            return
                        if o[0] == "call":
                            names.append(o[1].callee.get("name"))
                            for a in o[1].args:
                                walk(o[1].body.origin(a), d + 1)
                        elif o[0] in ("field", "downcast", "cast", "discr", "index"):
                            walk(o[1], d + 1)
                        elif o[0] == "binop":
                            walk(o[2], d + 1)
                            walk(o[3], d + 1)
                        elif o[0] == "unop":
                            walk(o[2], d + 1)
                    walk(so)
                    if "runtime_flavor" in names:
                        ok = True
                if not ok:
                    return False, ("tokio::%s calls block_in_place at %s without checking the runtime flavour: "
                                   "block_in_place panics on a current-thread runtime" % (fn, c.loc)), [], c.loc
            # the non-tokio fallback
            fb = b.calls_to(path="emit_batcher::sync::%s" % fn)
            if not fb and not any(x.calls_to(path="emit_batcher::sync::%s" % fn) for x in bodies):
                return False, "no thread-based fallback (sync::%s) for callers outside a runtime" % fn, [], b.span
            return True, "", [c.loc for c in bip] + [c.loc for c in fb]
        chk.ob("%s.R5:tokio::%s" % (prefix, fn), "blocking entry points never call block_on from inside an async context", f)


def tokio_worker_runtime(chk, P, prefix):
    """tokio::spawn: the receiver runs on a runtime the worker thread built itself, with its time driver on - the receiver's idle and
    back-off sleeps are timers, and a borrowed runtime (Handle::block_on) only fires timers while *its* thread is parked in block_on."""
    def f():
        if not P.has_body("emit_batcher::tokio::spawn"):
            raise mir.AnchorMissing("emit_batcher::tokio::spawn")
        b = P.body("emit_batcher::tokio::spawn")
        bodies = [b] + P.closures_of(b)
        bo = [(x, c) for x in bodies for c in x.calls(normal_only=True) if c.callee.get("name") == "block_on"]
        if not bo:
            return False, "tokio::spawn never drives the receiver (no block_on)", [], b.span
        for x, c in bo:
            if not (c.callee.get("path") or "").startswith("tokio::runtime::runtime::Runtime") and not (c.callee.get("path") or "").startswith("tokio::runtime::Runtime"):
                return False, ("tokio::spawn drives the receiver with %s at %s, not on a runtime of its own: on a borrowed current-thread "
                               "runtime the receiver's timers only fire while that runtime's own thread is parked, so a blocked caller stalls "
                               "the worker" % (c.callee.get("full") or c.callee.get("path"), c.loc)), [], c.loc
            # the runtime is built right here, with timers
            names = []
            o = x.origin(c.args[0])
            d = 0
            while d < 12:
                d += 1
                o = mir.o_root(o)
                if o[0] == "call":
                    names.append(o[1].callee.get("name"))
                    if not o[1].args:
                        break
                    o = x.origin(o[1].args[0])
                    continue
                break
            if "build" not in names or not ({"enable_all", "enable_time"} & set(names)):
                return False, ("the runtime the worker blocks on is not built in place with its time driver enabled (%s): the receiver's sleeps "
                               "would panic or never fire" % names), [], c.loc
        for x in bodies:
            for c in x.calls(normal_only=True):
                if c.callee.get("name") in ("try_current", "current") and "Handle" in (c.callee.get("path") or ""):
                    return False, "tokio::spawn looks up the caller's runtime (%s at %s); the worker must not depend on it" % (c.callee.get("name"), c.loc), [], c.loc
        if any(not x.must_pass([c.bb]) for x, c in bo if len(bo) == 1):
            return False, "the worker thread can finish without driving the receiver", [], bo[0][1].loc
        return True, "", [c.loc for x, c in bo]
    chk.ob("%s.R5:tokio::spawn" % prefix, "the tokio worker drives the receiver on its own runtime (built in place, timers on)", f)


def _is_len(o):
    return o[0] == "call" and o[1].callee.get("name") == "len"


def len_cmp(so):
    """A switch origin that compares a Channel/Vec len() with something, normalised to ("binop", op, len_side, other) with the length
    on the left whichever way round it was written; None otherwise."""
    n = mir.norm_cmp(so, _is_len)
    if n is None:
        return None
    return ("binop", n[0], n[1], n[2])


# ---- C09 ----------------------------------------------------------------------------------------------------------------------------------------

def constructor_rule(chk, P, prefix):
    """bounded(): the channel starts open and idle with an empty pending batch, the sender's capacity is the argument as given, both
    halves share one state, and every back-off is configured with min <= max (so it is non-decreasing up to its bound)."""
    def f():
        b = P.body("emit_batcher::bounded")
        aggs = {}
        for bb, j, st in b.statements(normal_only=True):
            rv = st.get("rv") if st["k"] == "assign" else None
            if rv and rv["k"] == "agg" and rv.get("ak") == "adt" and (rv.get("adt") or "").startswith("emit_batcher::"):
                aggs.setdefault(rv["adt"].rsplit("::", 1)[-1], []).append(dict(zip(rv.get("fields") or [], [b.origin(o) for o in rv["ops"]])))
        for need in ("State", "Sender", "Receiver", "Shared"):
            if len(aggs.get(need, ())) != 1:
                return False, "bounded() builds %d %s values (expected one)" % (len(aggs.get(need, ())), need), [], b.span
        stt, snd, rcv = aggs["State"][0], aggs["Sender"][0], aggs["Receiver"][0]
        if mir.o_const_value(stt["is_open"]) is not True:
            return False, "a new channel starts with is_open = %s: every send on it is dropped as if the receiver had gone" % o_str(stt["is_open"]), [], b.span
        if mir.o_const_value(stt["is_in_batch"]) is not False:
            return False, "a new channel starts with is_in_batch = %s: a flush on the idle channel waits for a batch that is not being processed" % o_str(stt["is_in_batch"]), [], b.span
        if not (stt["next_batch"][0] == "call" and stt["next_batch"][1].callee.get("name") in ("new", "default")):
            return False, "a new channel's pending batch is %s" % o_str(stt["next_batch"]), [], b.span
        if not mir.o_is_param(snd["max_capacity"], idx=1):
            return False, "the sender's capacity is %s, not the configured capacity" % o_str(snd["max_capacity"]), [], b.span
        r1, r2 = common.roots(snd["shared"]), common.roots(rcv["shared"])
        arc = [("callsite", c.bb) for c in b.calls(normal_only=True) if c.callee.get("name") == "new" and "Arc" in (c.callee.get("path") or "")]
        if len(arc) != 1 or arc[0] not in r1 or arc[0] not in r2:
            return False, "sender and receiver do not share one state (each must hold a clone of the same Arc)", [], b.span

        def dur(o):
            if o[0] == "call" and o[1].args:
                k = mir.o_const_value(b.origin(o[1].args[0]))
                unit = {"from_secs": 10 ** 9, "from_millis": 10 ** 6, "from_micros": 10 ** 3, "from_nanos": 1}.get(o[1].callee.get("name"))
                if unit and isinstance(k, int):
                    return k * unit
            return None
        nd = 0
        for c in b.calls(normal_only=True):
            if (c.callee.get("path") or "").endswith("Delay::new") and len(c.args) == 2:
                lo, hi = dur(b.origin(c.args[0])), dur(b.origin(c.args[1]))
                nd += 1
                if lo is None or hi is None:
                    continue
                if lo > hi or lo == 0:
                    return False, ("a back-off is configured with min %d ns and max %d ns at %s: it must start positive and below its bound "
                                   "(min <= max) to be non-decreasing" % (lo, hi, c.loc)), [], c.loc
        if nd < 2:
            raise mir.AnchorMissing("the idle and retry Delay::new calls in bounded()")
        return True, "", [b.span]
    chk.ob("%s.R0:bounded" % prefix, "a new channel is open, idle, empty, shares one state between its halves, and its back-offs have min <= max", f)


def watcher_lists(chk, P, prefix):
    """Watchers keeps one list per event: push_on_X appends the callback to the list notify_on_X empties (take: the batch was handed to
    the receiver; flush: its last attempt is over), each callback taken out of the list before it runs (so it runs once), and each runs
    inside catch_unwind so one panicking callback cannot keep the others from running."""
    def f():
        W = "emit_batcher::Watchers::"
        ev = []
        fields = {}
        for ev_name in ("take", "flush"):
            pb, nb = P.body(W + "push_on_" + ev_name), P.body(W + "notify_on_" + ev_name)
            pushes = [c for c in pb.calls(normal_only=True) if c.callee.get("name") in ("push", "push_back", "insert", "extend")]
            if len(pushes) != 1 or pb.count_on_paths({pushes[0].bb}) != (1, 1):
                return False, "push_on_%s must append its callback exactly once" % ev_name, [], pb.span
            pf = mir.o_field_path(pb.origin(pushes[0].args[0], through_calls=("deref", "deref_mut", "as_mut")))[1][-1:]
            if not any(l[0] == "param" and l[2] == 2 for l in common.deep_roots(P, pb, pb.origin(pushes[0].args[1]))):
                return False, "push_on_%s appends %s, not its callback" % (ev_name, o_str(pb.origin(pushes[0].args[1]))), [], pushes[0].loc
            tk = [c for c in nb.calls(normal_only=True) if c.callee.get("name") in ("take", "replace", "drain", "pop", "swap")]
            if len(tk) != 1:
                return False, "notify_on_%s must take its callbacks out of the list (mem::take / drain) before running them" % ev_name, [], nb.span
            nf = mir.o_field_path(nb.origin(tk[0].args[0], through_calls=("deref", "deref_mut", "as_mut")))[1][-1:]
            if pf != nf or not pf:
                return False, ("push_on_%s appends to `%s` but notify_on_%s runs `%s`: the callback fires on the other event (a flush callback "
                               "on hand-off reports completion before the batch was processed) or never" % (ev_name, (pf or ["?"])[0], ev_name, (nf or ["?"])[0])), [], pushes[0].loc
            fields[ev_name] = pf[0]
            cu = [c for c in nb.calls(normal_only=True) if c.callee.get("name") == "catch_unwind" and nb.in_cycle(c.bb)]
            if len(cu) != 1:
                return False, "notify_on_%s must run each callback inside catch_unwind, in a loop over the list" % ev_name, [], nb.span
            ev += [pushes[0].loc, tk[0].loc]
        if fields["take"] == fields["flush"]:
            return False, "take and flush callbacks share the list `%s`" % fields["take"], [], None
        return True, "", ev
    chk.ob("%s.R3:watcher-lists" % prefix, "each kind of callback is appended to the list its own notification empties; callbacks run once, contained", f)


def callbacks_consumed(chk, P, prefix):
    """when_empty / when_flushed: on every path the callback is either invoked at once or parked in the pending batch's watcher list -
    exactly one of the two, never neither (a lost callback leaves a blocking flush / send waiting out its whole timeout, and the
    "invoked exactly once" clause false) and never both."""
    for fn, park in (("when_empty", "push_on_take"), ("when_flushed", "push_on_flush")):
        def f(fn=fn, park=park):
            b = P.body(S + fn)
            uses = []
            for c in b.calls(normal_only=True):
                nm = c.callee.get("name")
                if nm in ("call_once", "call", "call_mut") and c.args and mir.o_is_param(mir.o_root(b.origin(c.args[0])), idx=2):
                    uses.append(("invoke", c))
                elif nm in ("push_on_take", "push_on_flush") and len(c.args) > 1 and \
                        any(l[0] == "param" and l[2] == 2 for l in common.deep_roots(P, b, b.origin(c.args[1]))):
                    uses.append(("park:" + nm, c))
            if not any(k == "invoke" for k, c in uses) or not any(k == "park:" + park for k, c in uses):
                return False, ("%s must either invoke its callback at once or park it with %s (found %s): a callback that is neither is lost"
                               % (fn, park, [k for k, c in uses])), [], b.span
            wrong = [k for k, c in uses if k.startswith("park:") and k != "park:" + park]
            if wrong:
                return False, "%s parks its callback with %s, not %s: it would fire on the wrong event" % (fn, wrong[0][5:], park), [], b.span
            lo, hi = b.count_on_paths({c.bb for k, c in uses})
            if (lo, hi) != (1, 1):
                return False, ("%s consumes its callback %d..%d times depending on the path (expected exactly once: invoked now or parked)"
                               % (fn, lo, hi)), [], b.span
            return True, "", [c.loc for k, c in uses]
        chk.ob("%s.R3:%s-consumes-callback" % (prefix, fn), "the callback is invoked at once or parked for the right event, exactly one of the two on every path", f)


def send_or_wait_outcomes(chk, P, prefix):
    """send_or_wait reports Ok only on the Ok edge of a try_send (the item is in the queue), and its expiry test is `elapsed() >= timeout`
    with the item handed back (Err) on the true edge.  The elapsed callbacks its callers pass read a clock."""
    def f():
        b = P.body(S + "send_or_wait::{closure#0}")
        ts = [c for c in b.calls(normal_only=True) if c.callee.get("name") == "try_send"]
        if not ts:
            raise mir.AnchorMissing("try_send in send_or_wait")
        from . import c10
        oks = [(bb, st) for bb, j, st in b.statements(normal_only=True) if st["k"] == "assign" and st["rv"]["k"] == "agg" and st["rv"].get("variant") == "Ok"
               and (st["rv"].get("adt") or "").endswith("Result")]
        rets = []
        for bb, st in oks:
            # only Ok values that flow to the coroutine's return
            if not any(c10._q_success_guard(b, bb, t.bb) for t in ts):
                return False, ("send_or_wait can report Ok (%s:%s) on a path that is not the Ok edge of a try_send: the item is neither in the "
                               "queue nor handed back to the caller" % (b.file, st.get("line"))), [], "%s:%s" % (b.file, st.get("line"))
            rets.append("%s:%s" % (b.file, st.get("line")))
        # the expiry test
        exp = None
        for i, t in b.switches():
            so = b.switch_origin(i)
            c = mir.norm_cmp(so, lambda o: o[0] == "call" and o[1].callee.get("name") in ("call", "call_mut", "call_once"))
            if c is not None:
                exp = (i, c)
        if exp is None:
            return False, "send_or_wait has no expiry test on the elapsed time", [], b.span
        i, (op, l, r) = exp
        if op not in ("Ge", "Gt") or not (mir.o_root(r)[0] in ("capture", "param")):
            return False, "the expiry test is `elapsed %s %s`, not `elapsed >= timeout`" % (op, o_str(r)), [], b.blocks[i]["term"].get("loc") or b.span
        # once expired the call returns: from the expired edge neither another wait nor another attempt is reachable
        t = b.blocks[i]["term"]
        so, pos = mir.norm_bool(b.switch_origin(i))
        neg = 0
        x = b.switch_origin(i)
        while x[0] == "unop" and x[1] == "Not":
            x = x[2]
            neg += 1
        true_targets = [nb for v, nb in ([(v, nb) for v, nb in t["targets"]] + [("otherwise", t["otherwise"])]) if (str(v) != "0") == (neg % 2 == 0)]
        # the waiting callback: the other caller-supplied callable invoked in the loop (not the elapsed-time one the test reads)
        elapsed_root = mir.o_root(b.origin(l[1].args[0])) if l[0] == "call" and l[1].args else None
        waits = [c for c in b.calls(normal_only=True) if c.callee.get("name") in ("call_mut", "call", "call_once") and c.args and b.in_cycle(c.bb)
                 and mir.o_root(b.origin(c.args[0]))[0] in ("capture", "param") and mir.o_root(b.origin(c.args[0])) != elapsed_root]
        for tt in true_targets:
            reach = b.reachable_from(tt)
            later = [c for c in waits + ts if c.bb in reach]
            if later:
                return False, ("after the timeout has expired send_or_wait can still reach %s at %s instead of returning the item: a blocking send "
                               "would outlast its timeout (forever, if the queue stays full)" % (later[0].callee.get("name"), later[0].loc)), [], later[0].loc
        return True, "", rets
    chk.ob("%s.R3:send_or_wait-outcomes" % prefix, "Ok only when a try_send succeeded; the item is handed back once elapsed() >= timeout", f)

    def handed_back_item_kept():
        """A failed try_send returns the item inside its error.  In send_or_wait every attempt's error is therefore *moved on* - into the variable
        the next attempt / the final Err is built from, or out through `?` / return - never just matched and dropped (`Err(_) => continue`):
        that drop is the item, and the caller later gets an error with nothing in it."""
        b = P.body(S + "send_or_wait::{closure#0}")
        ts = [c for c in b.calls(normal_only=True) if c.callee.get("name") == "try_send"]
        if not ts:
            raise mir.AnchorMissing("try_send in send_or_wait")
        def moves_out_of(l):
            def is_move(op):
                return isinstance(op, dict) and "m" in op and op["m"].get("l") == l
            for bb, j, st in b.statements(normal_only=True):
                if st["k"] == "assign" and any(is_move(o) for o in b.rvalue_operands(st["rv"])):
                    return True
            for blk in b.blocks:
                if blk.get("cleanup"):
                    continue
                t = blk["term"]
                if t["k"] == "call" and any(is_move(a) for a in t["args"]):
                    return True
            return False
        for c in ts:
            if c.dest is None or "p" in c.dest:
                continue
            if c.dest["l"] == 0:
                continue  # returned as it is
            if not moves_out_of(c.dest["l"]):
                return False, ("the outcome of the try_send at %s is only inspected, never moved on: on its Err edge the error - and the item it hands back - is "
                               "dropped, so the item is neither enqueued nor returned to the caller when the timeout expires" % c.loc), [], c.loc
        return True, "", [c.loc for c in ts]
    chk.ob("%s.R3:handed-back-item-kept" % prefix, "the error (and item) of every failed attempt in send_or_wait is carried on, never dropped", handed_back_item_kept)

    def clocks():
        ev = []
        for k in ("emit_batcher::sync::blocking_send", "emit_batcher::tokio::blocking_send", "emit_batcher::tokio::send"):
            if not P.has_body(k):
                continue
            for x in [P.body(k)] + P.closures_of(P.body(k)):
                for c in x.calls(normal_only=True):
                    if c.callee.get("name") == "send_or_wait" and len(c.args) >= 4:
                        o = mir.o_root(x.origin(c.args[3]))
                        if not (o[0] == "agg" and o[1].get("def") in P.bodies):
                            return False, "%s passes %s as the elapsed-time callback" % (k, o_str(o)), [], c.loc
                        cb = P.bodies[o[1]["def"]]
                        reads = [c2 for c2 in cb.calls(normal_only=True) if c2.callee.get("name") in ("elapsed", "now", "duration_since")]
                        r = cb.origin(0)
                        if not reads or not (r[0] == "call" and any(r[1].bb == c2.bb for c2 in reads) or any(
                                l for l in [1] if r[0] == "call" and r[1].callee.get("name") in ("elapsed", "duration_since", "saturating_duration_since"))):
                            return False, ("the elapsed-time callback %s passes to send_or_wait returns %s, not a clock reading: the timeout "
                                           "would never expire" % (k, o_str(r))), [], c.loc
                        ev.append(c.loc)
        if not ev:
            raise mir.AnchorMissing("callers of send_or_wait")
        return True, "", ev
    chk.ob("%s.R3:send_or_wait-clock" % prefix, "the elapsed-time callbacks handed to send_or_wait return a clock reading", clocks)


def lossless_variants(chk, P, prefix):
    """The blocking / fallible / async send variants never discard: none of them (nor anything they reach inside the crate) calls the
    truncating Sender::send or Channel::clear.  They enqueue through try_send / send_or_wait or hand the item back."""
    def f():
        entry = []
        for k in ("emit_batcher::sync::blocking_send", "emit_batcher::tokio::blocking_send", "emit_batcher::tokio::send",
                  S + "send_or_wait", S + "try_send"):
            if P.has_body(k):
                entry.append(P.body(k))
        if len(entry) < 3:
            raise mir.AnchorMissing("the lossless send variants (found %d)" % len(entry))
        seen, pred = P.reachable(entry, follow=("direct", "closure"))
        n = 0
        for k in sorted(seen):
            x = P.bodies[k]
            if x.crate != "emit_batcher":
                continue
            n += 1
            for c in x.calls(normal_only=True):
                full = c.callee.get("path") or ""
                if (full.startswith(S + "send") and c.callee.get("name") == "send") or (c.callee.get("trait") == CH and c.callee.get("name") == "clear"):
                    return False, ("%s calls %s at %s: a send variant that promises to wait or hand the item back would discard the whole pending "
                                   "queue when the channel is full" % (x.key, c.callee.get("full") or full, c.loc)), [], c.loc
        return True, "", ["%d bodies reachable from %d lossless entry points; none truncates" % (n, len(entry))]
    chk.ob("%s.R2:lossless-variants" % prefix, "blocking, fallible and async sends never go through the truncating send", f)


def item_always_handed_on(chk, P, prefix):
    """The blocking send wrappers (sync / tokio) pick *how* to wait - park, block_in_place, poll - but on every path they hand the item to a
    send routine: a path that returns without having done so has dropped the item, neither enqueued nor handed back (BatchError::no_retry
    cannot carry it)."""
    def f():
        ev = []
        for k in ("emit_batcher::sync::blocking_send", "emit_batcher::tokio::blocking_send", "emit_batcher::tokio::send"):
            if not P.has_body(k):
                continue
            b = P.body(k)
            x = b
            want = ("param", 2)
            sinks = set()
            for c in x.calls(normal_only=True):
                if not (c.callee.get("path") or c.callee.get("full") or "").startswith(("emit_batcher::", "tokio::task::")) and c.callee.get("name") not in ("block_in_place",):
                    continue
                for a in c.args:
                    if want in common.roots(x.origin(a)):
                        sinks.add(c.bb)
            # an `async fn` hands everything to its coroutine: the rule is applied to the coroutine body instead
            aggs = [st for bb, j, st in x.statements(normal_only=True) if st["k"] == "assign" and st["rv"]["k"] == "agg" and st["rv"].get("ak") == "coroutine"]
            if aggs and not sinks:
                cb = P.body(aggs[0]["rv"]["def"])
                idx = None
                for i, op in enumerate(aggs[0]["rv"].get("ops") or []):
                    if mir.o_is_param(x.origin(op), idx=2):
                        idx = i
                if idx is None:
                    return False, "%s does not move the item into its future" % k, [], b.span
                name = (aggs[0]["rv"].get("fields") or [None] * (idx + 1))[idx]
                x = cb
                for c in x.calls(normal_only=True):
                    if not (c.callee.get("path") or "").startswith("emit_batcher::"):
                        continue
                    if any(("capture", name) in common.roots(x.origin(a)) for a in c.args):
                        sinks.add(c.bb)
            if not sinks:
                return False, "%s never hands its item to a send routine" % k, [], b.span
            if not x.must_pass(sinks):
                return False, ("%s can return without having handed its item to a send routine: on that path the item is dropped - not enqueued, and "
                               "not returned to the caller in the error" % k), [], b.span
            ev.append("%s: every return passes a call that takes the item (%d sites)" % (k, len(sinks)))
        if len(ev) < (1 if getattr(chk, "_overlay", None) else 3):
            raise mir.AnchorMissing("blocking send wrappers (found %d)" % len(ev))
        return True, "", ev
    chk.ob("%s.R2:item-always-handed-on" % prefix, "every path through a blocking / async send wrapper gives the item to a send routine", f)


def send_rules(chk, P, prefix):
    def send():
        b = P.body(S + "send")
        pushes = b.calls_to(trait=CH, name="push")
        clears = b.calls_to(trait=CH, name="clear")
        if len(pushes) != 1 or len(clears) != 1:
            return False, "expected one push and one clear in send", [], b.span
        # the capacity test: len() >= self.max_capacity, true edge -> clear
        test = None
        for bb, t in b.switches():
            so = len_cmp(b.switch_origin(bb))
            if so is not None:
                test = (bb, so)
        if test is None:
            return False, "send has no capacity test", [], b.span
        bb, so = test
        rhs = mir.o_field_path(so[3])[1]
        if rhs != ["max_capacity"]:
            return False, "pending length is compared with %s, not self.max_capacity" % o_str(so[3]), [], b.span
        if so[1] != "Ge":
            return False, ("the queue is truncated when len %s max_capacity; with anything weaker than `>=` the pending queue "
                           "can exceed its configured capacity" % so[1]), [], "%s:%s" % (b.file, b.blocks[bb]["term"].get("line"))
        names, root = state_field_path(b.origin(so[2][1].args[0]))
        if names != ["next_batch", "channel"]:
            return False, "the length tested is that of %s" % o_str(b.origin(so[2][1].args[0])), [], b.span
        g = [list(vals) for gb, vals, n in b.guards_of(clears[0].bb) if gb == bb]
        if not g or g[0] == ["0"]:
            return False, "clear() is not on the full edge of the capacity test", [], clears[0].loc
        # every path to push passes the test
        if not b.dominates(bb, pushes[0].bb):
            return False, "an item can be pushed without passing the capacity test", [], pushes[0].loc
        if not mir.o_is_param(b.origin(pushes[0].args[1]), idx=2):
            return False, "send pushes %s" % o_str(b.origin(pushes[0].args[1])), [], pushes[0].loc
        # once past the capacity test the item is always enqueued: no path from the test returns without the push (the only way an
        # accepted item disappears is a later, counted truncation)
        closed_edges = set()
        for sbb, t in b.switches():
            a = atom(b, b.switch_origin(sbb))
            if a[0] == "is_open":
                for v, n in [(v, n) for v, n in t["targets"]] + [("otherwise", t["otherwise"])]:
                    truth = (str(v) != "0")           # the edge taken when the tested expression is true
                    if truth != a[1]:                  # ... i.e. the edge on which is_open is false
                        closed_edges.add((sbb, n))
        live = b.reachable_from(bb, removed_edges=closed_edges, removed_blocks={pushes[0].bb})
        if any(e in live for e in b.return_blocks()):
            return False, ("send can return after the capacity test without pushing the item (a path from %s:%s skips the push at %s): the item "
                           "is dropped without a truncation being counted" % (b.file, b.blocks[bb]["term"].get("line"), pushes[0].loc)), [], pushes[0].loc
        # no blocking primitive in send
        for c in b.calls(normal_only=True):
            if c.callee.get("name") in ("sleep", "wait", "wait_timeout", "block_on", "join", "recv", "park", "wait_until_empty"):
                return False, "send blocks at %s" % c.loc, [], c.loc
        return True, "", [clears[0].loc, pushes[0].loc]
    chk.ob("%s.R1:send" % prefix, "send tests len >= max_capacity under the lock, clears on the full edge, then pushes; never waits", send)

    def try_send():
        b = P.body(S + "try_send")
        pushes = b.calls_to(trait=CH, name="push")
        if len(pushes) != 1:
            return False, "expected one push", [], b.span
        if b.calls_to(trait=CH, name="clear"):
            return False, "try_send discards the queue", [], b.span
        ok = False
        for bb, vals, n in b.guards_of(pushes[0].bb):
            so = len_cmp(b.switch_origin(bb))
            if so is not None:
                if mir.o_field_path(so[3])[1] != ["max_capacity"]:
                    return False, "length compared with %s" % o_str(so[3]), [], pushes[0].loc
                taken = list(vals) != ["0"]
                if (so[1] == "Lt" and taken) or (so[1] == "Ge" and not taken):
                    ok = True
                else:
                    return False, "push is on the edge where len %s max_capacity is %s" % (so[1], taken), [], pushes[0].loc
        if not ok:
            return False, "push is not control-dependent on len < max_capacity", [], pushes[0].loc
        # nothing is accepted after the channel is closed: the push (and the Ok it reports) needs is_open
        def needs_open(bb):
            for gbb, vals, n in b.guards_of(bb):
                a = atom(b, b.switch_origin(gbb))
                if a[0] == "is_open":
                    # atom() reports (name, negated?) of the tested expression; the edge taken must mean is_open == true
                    taken = list(vals) != ["0"]
                    if (a[1] and taken) or (not a[1] and not taken):
                        return True
            return False
        if not needs_open(pushes[0].bb):
            return False, ("try_send can push while the channel is closed (the push at %s is not control-dependent on is_open): the item would be "
                           "accepted (Ok) by a queue nobody will ever drain" % pushes[0].loc), [], pushes[0].loc
        # the full arm hands the item back; the closed arm is not retryable
        retry = b.calls_to(path_re=r"BatchError::<.*>::retry$")
        noret = b.calls_to(path_re=r"BatchError::<.*>::no_retry$")
        if len(retry) != 1 or len(noret) != 1:
            return False, "expected one retry(...) (full) and one no_retry(...) (closed) error", [], b.span
        if not mir.o_is_param(b.origin(retry[0].args[1]), idx=2):
            return False, "the full arm hands back %s, not the caller's item" % o_str(b.origin(retry[0].args[1])), [], retry[0].loc
        # retry error is on the full edge
        for bb, vals, n in b.guards_of(retry[0].bb):
            so = len_cmp(b.switch_origin(bb))
            if so is not None:
                taken = list(vals) != ["0"]
                if (so[1] == "Lt" and taken) or (so[1] == "Ge" and not taken):
                    return False, "the item is handed back although there was room", [], retry[0].loc
        return True, "", [pushes[0].loc, retry[0].loc, noret[0].loc]
    chk.ob("%s.R2:try_send" % prefix, "try_send pushes only when len < max_capacity; a full queue hands the item back, a closed channel fails permanently", try_send)

    def send_or_wait():
        b = P.body(S + "send_or_wait::{closure#0}")
        ts = b.calls_to(path_re=r"Sender::<T>::try_send$")
        if len(ts) != 2:
            return False, "send_or_wait must attempt try_send before and after waiting (found %d sites)" % len(ts), [], b.span
        plain = b.calls_to(path_re=r"Sender::<T>::send$")
        if plain:
            return False, ("send_or_wait falls back to the plain send at %s, which discards the pending queue: the blocking "
                           "and async sends must either enqueue or hand the item back" % plain[0].loc), [], plain[0].loc
        first = [c for c in ts if not b.in_cycle(c.bb)]
        loop = [c for c in ts if b.in_cycle(c.bb)]
        if len(first) != 1 or len(loop) != 1:
            return False, "expected one initial attempt and one attempt per wait", [], b.span
        # the retried item is the one handed back by the previous failure
        o = b.origin(loop[0].args[1], through_calls=("branch",))
        rr = common.roots(o)
        if not any(k == "callsite" and v in (first[0].bb, loop[0].bb) for k, v in rr):
            return False, "the re-sent item is %s, not the item handed back by the failed attempt" % o_str(o), [], loop[0].loc
        # every Err returned originates in a try_send error
        for rb in b.return_blocks():
            for path in b.acyclic_paths(0, rb, limit=20000):
                ps = mir.PathSummary(b, path)
                r = ps.ret()
                if r[0] == "agg" and r[1].get("variant") == "Err":
                    rs = common.roots(r)
                    if not any(k == "callsite" and v in (first[0].bb, loop[0].bb) for k, v in rs):
                        return False, "an Err is returned that does not carry the caller's item back (%s)" % o_str(r), [], b.span
        # the loop gives up when elapsed >= timeout, and waits for the remaining time only
        cmp_ = None
        for bb, t in b.switches():
            so = b.switch_origin(bb)
            if so[0] == "call" and so[1].callee.get("name") in ("ge", "gt", "le", "lt"):
                cmp_ = (bb, so)
        if cmp_ is None:
            return False, "no elapsed-vs-timeout test found", [], b.span
        def nm_of(o):
            if o[0] == "capture":
                return o[1]
            if o[0] == "param":
                return o[2]
            return (mir.o_field_path(o)[1] or [None])[-1]
        w = [c for c in b.calls(normal_only=True) if c.callee.get("name") in ("call_mut", "call")
             and callable_param(P, b, b.origin(c.args[0], through_calls=("deref_mut",))) == 5]
        if len(w) != 1:
            return False, "expected one call of the wait callback (send_or_wait's last parameter)", [], b.span
        wa = b.origin(w[0].args[1])
        rs = common.roots(wa)
        if not any(k == "callsite" for k, v in rs) or not mir.o_is_call(wa[2][1] if wa[0] == "agg" and len(wa[2]) > 1 else ("x",), name="saturating_sub"):
            return False, ("each wait must be for the *remaining* time (timeout.saturating_sub(elapsed)), found %s: a sender "
                           "woken early would otherwise wait a full timeout again" % o_str(wa)), [], w[0].loc
        return True, "", [c.loc for c in ts] + [w[0].loc]
    chk.ob("%s.R3:send_or_wait" % prefix, "blocking/async send retries with try_send only, re-sends the handed-back item, waits the remaining time, returns the item on expiry", send_or_wait)


def channel_impls(chk, P, prefix):
    impls = [i for i in P.impls if i.get("trait") == CH]
    chk.floor("impl Channel blocks in the workspace", len(impls), 3)
    for i in impls:
        st = i["self_ty"]

        def f(i=i, st=st):
            items = {it["name"]: it["key"] for it in i["items"]}
            for need in ("new", "push", "len", "clear"):
                if need not in items:
                    return False, "impl Channel for %s lacks %s" % (st, need), [], i["span"]
            lenb = P.body(items["len"])
            clearb = P.body(items["clear"])
            pushb = P.body(items["push"])
            # inherent helpers one level down
            def expand(b):
                out = [b]
                for c in b.calls(normal_only=True):
                    k = c.callee.get("resolved") or c.callee.get("path")
                    if k in P.bodies and P.bodies[k].crate == b.crate and P.bodies[k].self_ty == b.self_ty and k != b.key:
                        out.append(P.bodies[k])
                return out
            def fields_read(b):
                s = set()
                for x in expand(b):
                    for bb, j, st_ in x.statements(normal_only=True):
                        if st_["k"] == "assign":
                            for o in x.rvalue_operands(st_["rv"]):
                                oo = x.origin(o)
                                nn = mir.o_field_path(oo)
                                if nn[0][0] == "param" and nn[0][1] == 1 and nn[1]:
                                    s.add(nn[1][0])
                            if st_["rv"]["k"] in ("ref", "discr"):
                                oo = x._origin_place(st_["rv"]["place"], 0, (), set())
                                nn = mir.o_field_path(oo)
                                if nn[0][0] == "param" and nn[0][1] == 1 and nn[1]:
                                    s.add(nn[1][0])
                    for c in x.calls(normal_only=True):
                        for a in c.args:
                            nn = mir.o_field_path(x.origin(a))
                            if nn[0][0] == "param" and nn[0][1] == 1 and nn[1]:
                                s.add(nn[1][0])
                return s
            def fields_written(b):
                s = set()
                for x in expand(b):
                    for bb, j, st_ in x.statements(normal_only=True):
                        if st_["k"] == "assign" and "p" in st_["place"]:
                            oo = x._origin_place(st_["place"], 0, (), set())
                            nn = mir.o_field_path(oo)
                            if nn[0][0] == "param" and nn[0][1] == 1 and nn[1]:
                                s.add(nn[1][0])
                    for c in x.calls(normal_only=True):
                        if c.callee.get("name") in ("clear", "truncate", "drain", "take", "replace", "push", "insert", "retain"):
                            nn = mir.o_field_path(x.origin(c.args[0], through_calls=("deref_mut", "deref")))
                            if nn[0][0] == "param" and nn[0][1] == 1 and nn[1]:
                                s.add(nn[1][0])
                return s
            if st.startswith("alloc::vec::Vec<"):
                # Vec: forwards to the inherent methods
                for need in ("push", "len", "clear"):
                    b = P.body(items[need])
                    cs = [c for c in b.calls(normal_only=True) if c.callee.get("name") == need and "Vec" in (c.callee.get("full") or "")]
                    if len(cs) != 1:
                        return False, "Vec's Channel::%s does not forward to Vec::%s" % (need, need), [], b.span
                return True, "forwards to Vec", [i["span"]]
            accounting = fields_read(lenb) | (fields_written(pushb))
            cleared = fields_written(clearb)
            # every scalar (counter/cursor) field that clear() - or a helper it calls - assigns gets the constant 0: "reset" means empty,
            # not "recomputed from what is being thrown away"
            for x in expand(clearb):
                for bb, j, st_ in x.statements(normal_only=True):
                    if st_["k"] == "assign" and "p" in st_["place"]:
                        oo = x._origin_place(st_["place"], 0, (), set())
                        nn = mir.o_field_path(oo)
                        if nn[0][0] == "param" and nn[0][1] == 1 and nn[1] and st_["rv"]["k"] == "use":
                            fty = x._op_ty(st_["rv"]["op"]) if hasattr(x, "_op_ty") else None
                            v = mir.o_const_value(x.origin(st_["rv"]["op"]))
                            if (fty in ("usize", "u64", "u32", "isize", "i64", "i32") or isinstance(v, int)) and v != 0:
                                return False, ("%s::clear sets `%s` to %s, not 0 (through %s): after an overflow truncation the emptied "
                                               "channel still claims the size of what was discarded, so the next batch looks too big for the "
                                               "current file" % (st, nn[1][0], o_str(x.origin(st_["rv"]["op"])), x.key.split("::")[-1])), [], clearb.span
            # a collection field is reset by emptying it *entirely*: clear(), truncate(0), drain(..) over the full range, take/replace - not by
            # removing a prefix or a computed part of it (the sender-side batch has index 0: `drain(..index)` removes nothing)
            for x in expand(clearb):
                for c in x.calls(normal_only=True):
                    nm = c.callee.get("name")
                    if nm not in ("truncate", "drain", "retain", "split_off", "drain_filter", "extract_if", "dedup", "pop", "remove", "swap_remove"):
                        continue
                    nn = mir.o_field_path(x.origin(c.args[0], through_calls=("deref_mut", "deref")))
                    if not (nn[0][0] == "param" and nn[0][1] == 1 and nn[1]):
                        continue
                    total = False
                    if nm == "truncate" and len(c.args) > 1:
                        total = mir.o_const_value(x.origin(c.args[1])) == 0
                    elif nm == "drain" and len(c.args) > 1:
                        a = c.args[1]
                        ty = x.local_ty(a.get("m", a.get("c", {})).get("l")) if isinstance(a, dict) and ("m" in a or "c" in a) else None
                        ao = x.origin(a)
                        total = (ty or "").endswith("RangeFull") or (ao[0] in ("agg", "const") and "RangeFull" in json.dumps(ao[1], default=str))
                    elif nm == "retain" and len(c.args) > 1:
                        ao = x.origin(c.args[1])
                        if ao[0] == "agg" and ao[1].get("ak") == "closure" and P.has_body(ao[1].get("def")):
                            total = mir.o_const_value(P.body(ao[1]["def"]).origin(0)) in (False, 0)
                    if not total:
                        return False, ("%s::clear only removes part of `%s` (`%s(%s)`): an overflow truncation must leave the channel empty, or the pending "
                                       "queue keeps growing past max_capacity while every send counts a truncation" %
                                       (st, nn[1][0], nm, ", ".join(o_str(x.origin(a)) for a in c.args[1:]))), [], c.loc
            missing = sorted(accounting - cleared)
            if missing:
                return False, ("%s::clear leaves the field(s) %s untouched, which push() updates or len() reads: after an "
                               "overflow truncation the channel's accounting is stale" % (st, missing)), [], clearb.span
            return True, "clear resets %s" % sorted(cleared), [clearb.span]
        chk.ob("%s.R5:impl Channel for %s" % (prefix, st), "clear() resets every field that push() updates or len() reads", f)

    def otlp_len():
        # len() must count items, the unit max_capacity is expressed in: it reads what push() increments by one
        for i in impls:
            if i["self_ty"] == "emit_otlp::client::Channel":
                items = {it["name"]: it["key"] for it in i["items"]}
                lb = P.body(items["len"])
                r = mir.o_field_path(lb.origin(0))[1]
                if r != ["total_items"]:
                    return False, ("the OTLP channel's len() is %s, not its item count: the capacity bound and the overflow "
                                   "truncation would be in the wrong unit" % o_str(lb.origin(0))), [], lb.span
                pb = P.body(items["push"])
                return True, "", [lb.span]
        raise mir.AnchorMissing("impl Channel for emit_otlp::client::Channel")
    chk.ob("%s.R5:otlp-channel-len" % prefix, "the OTLP channel's length is its event count (the unit of the capacity bound)", otlp_len)


def emit_only_enqueues(chk, P, prefix):
    BLOCKING = re.compile(r"(^std::thread::sleep$|Condvar::wait|JoinHandle.*::join$|::block_on$|block_in_place|"
                          r"^std::fs::|^std::net::|TcpStream|::sync_all$|::sync_data$|^tokio::net|^tokio::fs|"
                          r"emit_batcher::(sync|tokio)::blocking_send|emit_batcher::tokio::send$|send_or_wait|::recv$|::recv_timeout$)")
    for key, what in (("<emit_file::FileSetInner as emit_core::emitter::Emitter>::emit", "file"),
                      ("<emit_otlp::client::OtlpInner as emit_core::emitter::Emitter>::emit", "OTLP")):
        def f(key=key, what=what):
            b = P.body(key)
            seen, pred = P.reachable([b], follow=("direct", "closure"))
            cg = P.callgraph()
            sends = 0
            for k in seen:
                for kind, tgt, cs in cg.get(k, ()):
                    if cs is None:
                        continue
                    p = cs.callee.get("resolved") or cs.callee.get("path") or ""
                    if BLOCKING.search(p):
                        return False, ("%s emitter's emit() reaches %s at %s (via %s): emitting must only format and enqueue"
                                       % (what, p, cs.loc, " / ".join(P.call_path(pred, k)[-3:]))), [], cs.loc
                    if p.startswith("emit_batcher::Sender::<") and p.endswith("::send"):
                        sends += 1
            if sends == 0:
                return False, "%s emitter's emit() never reaches Sender::send" % what, [], b.span
            return True, "", ["%d bodies reachable, %d enqueue sites" % (len(seen), sends)]
        chk.ob("%s.R4:%s-emit" % (prefix, what), "emit() reaches no filesystem, network, sleep, condvar, block_on or blocking send; it ends in Sender::send", f)


# ---- receiver-side panic inventory (outside catch_unwind) ----------------------------------------------------------------

RECEIVER_ALLOW = {
    (r"^emit_batcher::Capacity::next$", "call:unwrap"): (1, "max() of the fixed 32-element window is never None"),
    (r"^emit_batcher::Retry::next$", "assert:overflow:Add"): (1, "the counter is reset per batch and the loop stops once it exceeds max (<= max+1 increments)"),
    (r"^emit_batcher::tokio::spawn::\{closure#\d+\}$", "call:unwrap"): (1, "runtime construction failure on the dedicated worker thread at start-up (before any batch)"),
    (r"^emit_batcher::sync::Trigger::wait_timeout$", "call:unwrap"): (1, "Condvar::wait_timeout only fails on poisoning; the flag mutex guards no foreign code"),
}


def capacity_hint(chk, P, prefix):
    from . import panics
    bodies = [b for b in batcher_bodies(P) if not b.key.startswith("emit_batcher::internal_metrics")]
    bodies += [P.body("<emit_batcher::Sender<T> as core::ops::drop::Drop>::drop"), P.body("<emit_batcher::Receiver<T> as core::ops::drop::Drop>::drop")]
    n, u = panics.inventory_rule(chk, "%s.R6.panic" % prefix, P, bodies, RECEIVER_ALLOW,
                                 "channel code that runs outside catch_unwind (receiver bookkeeping, capacity hint, delays, sender "
                                 "paths) has no unaccounted panic-capable site: a panic there kills the receiver while it holds a "
                                 "taken batch")
    chk.floor("panic-capable sites inventoried in emit_batcher", n, 15)


def worker_panics(chk, P, prefix):
    capacity_hint(chk, P, prefix)


def wait_closures(chk, P, prefix):
    """Every caller of send_or_wait: the closure that waits for room sees the timeout only as the *remaining* time
    send_or_wait hands it (its own parameter); it must not capture the caller's total timeout."""
    def f():
        sites = []
        for b in batcher_bodies(P):
            for c in b.calls(normal_only=True):
                if c.callee.get("name") != "send_or_wait" or len(c.args) != 5:
                    continue
                total = {r for r in common.roots(b.origin(c.args[2])) if r[0] in ("param", "capture", "callsite")}
                o = b.origin(c.args[4])
                if not (o[0] == "agg" and o[1].get("ak") == "closure"):
                    return False, "the wait callback of send_or_wait at %s is not a closure literal (rule needs re-reading)" % c.loc, [], c.loc
                for cap in o[2]:
                    if common.roots(cap) & total:
                        return False, ("the wait closure passed to send_or_wait at %s captures the caller's total timeout (%s): a "
                                       "sender that is woken, finds the queue full again and waits a second time would wait the "
                                       "whole timeout again instead of the remaining time" % (c.loc, o_str(cap))), [], c.loc
                cb = P.body(o[1]["def"])
                if cb.argc != 3:
                    return False, "the wait closure does not take (sender, remaining)", [], cb.span
                # the remaining time reaches a waiting primitive (directly, or moved into the async block that waits)
                used = False
                for x in [cb] + P.closures_of(cb):
                    for cc in x.calls(normal_only=True):
                        if cc.callee.get("name") in ("wait_timeout", "wait", "timeout", "sleep", "recv_timeout", "park_timeout"):
                            for a in cc.args:
                                rs = common.roots(x.origin(a))
                                if ("param", 3) in rs and x is cb or any(k == "capture" and v == cb.local_name(3) for k, v in rs):
                                    used = True
                    for bb, j, st in x.statements(normal_only=True):
                        pass
                if not used:
                    return False, "the wait closure at %s never passes its remaining-time parameter to a waiting primitive" % cb.span, [], cb.span
                sites.append(c.loc)
        if len(sites) < 2:
            raise mir.AnchorMissing("callers of send_or_wait (sync::blocking_send, tokio::send)")
        return True, "", sites
    chk.ob("%s.R3:wait-closures" % prefix, "blocking/async send wait only for the remaining time handed to them by send_or_wait", f)


def metrics_accounting(chk, P, prefix, crates=("emit_batcher",)):
    """Counters only ever add; every sampled metric is named after the field it reads; the queue_length gauge is the
    pending batch's Channel::len read under the state lock."""
    def counters():
        sites = []
        for crate in crates:
            for fn, want in (("increment_by", "fetch_add"), ("sample", "load")):
                key = "%s::internal_metrics::Counter::%s" % (crate, fn)
                if not P.has_body(key):
                    raise mir.AnchorMissing(key)
                b = P.body(key)
                cs = [c for c in b.calls(normal_only=True)]
                if len(cs) != 1 or cs[0].callee.get("name") != want:
                    return False, "%s must be exactly one atomic %s (found %s)" % (key, want, [c.callee.get("name") for c in cs]), [], b.span
                if mir.o_field_path(b.origin(cs[0].args[0]))[1] != ["0"]:
                    return False, "%s does not operate on the counter's own cell" % key, [], cs[0].loc
                if fn == "increment_by" and not mir.o_is_param(b.origin(cs[0].args[1]), idx=2):
                    return False, "%s adds %s, not its argument" % (key, o_str(b.origin(cs[0].args[1]))), [], cs[0].loc
                if fn == "sample" and not common.has_root(b.origin(0), "callsite", cs[0].bb):
                    return False, "%s does not return the loaded value" % key, [], cs[0].loc
                sites.append(cs[0].loc)
            key = "%s::internal_metrics::Counter::increment" % crate
            b = P.body(key)
            cs = [c for c in b.calls(normal_only=True)]
            if len(cs) != 1 or cs[0].callee.get("name") != "increment_by" or mir.o_const_value(b.origin(cs[0].args[1])) != 1 \
                    or not mir.o_is_param(b.origin(cs[0].args[0]), idx=1):
                return False, "%s must be self.increment_by(1)" % key, [], b.span
            sites.append(cs[0].loc)
        return True, "", sites
    chk.ob("%s.R6:counters" % prefix, "a counter increment adds exactly its argument (1) to its own cell; sampling loads it", counters)

    def names():
        n = 0
        for crate in crates:
            key = "%s::internal_metrics::InternalMetrics::sample" % crate
            if not P.has_body(key):
                raise mir.AnchorMissing(key)
            b = P.body(key)
            for c in b.calls(normal_only=True):
                if c.callee.get("name") != "new" or "metric::Metric" not in (c.callee.get("path") or c.callee.get("full") or ""):
                    continue
                name = mir.o_const_value(b.origin(c.args[1]))
                val = b.origin(c.args[4])
                if not (val[0] == "call" and val[1].callee.get("name") == "sample"):
                    return False, "metric `%s` is not a sampled counter/gauge (%s)" % (name, o_str(val)), [], c.loc
                fld = mir.o_field_path(b.origin(val[1].args[0], through_calls=("deref",)))[1]
                if fld != [name]:
                    return False, "the metric named `%s` reports the value of self.%s" % (name, ".".join(map(str, fld))), [], c.loc
                n += 1
        if n < 6:
            raise mir.AnchorMissing("sampled metrics (found %d)" % n)
        return True, "", ["%d metrics, each named after the field it samples" % n]
    chk.ob("%s.R6:metric-names" % prefix, "every sampled metric carries the name of the counter it reads", names)

    def queue_length():
        bs = [b for b in P.by_crate["emit_batcher"] if b.method == "sample_metrics" and "ChannelMetrics" in (b.self_ty or "") and not b.is_closure]
        if not bs:
            raise mir.AnchorMissing("Source for ChannelMetrics")
        b = bs[0]
        mk = [c for c in b.calls(normal_only=True) if c.callee.get("name") == "new" and "metric::Metric" in (c.callee.get("path") or c.callee.get("full") or "")
              and mir.o_const_value(b.origin(c.args[1])) == "queue_length"]
        if len(mk) != 1:
            return False, "expected one metric named queue_length", [], b.span
        v = b.origin(mk[0].args[4])
        if not (v[0] == "call" and v[1].callee.get("trait") == CH and v[1].callee.get("name") == "len"):
            return False, "queue_length reports %s, not Channel::len of the pending batch" % o_str(v), [], mk[0].loc
        names, root = state_field_path(b.origin(v[1].args[0]))
        if names[:2] != ["next_batch", "channel"]:
            return False, "queue_length measures %s, not state.next_batch.channel" % names, [], v[1].loc
        if not lock_calls(b):
            return False, "queue_length is read without the state lock", [], v[1].loc
        return True, "", [v[1].loc, mk[0].loc]
    chk.ob("%s.R6:queue_length" % prefix, "the queue_length gauge is the pending batch's item count read under the state lock", queue_length)


def tokio_wait(chk, P, prefix):
    """tokio::wait (the async flush/send wait): `true` only when the oneshot was observed - an earlier try_recv succeeded or the
    Timeout future resolved Ok - and constant `false` when the timeout elapsed or is zero."""
    def f():
        ks = [k for k in P.bodies if k.startswith("emit_batcher::tokio::wait::{closure")]
        if not ks:
            raise mir.AnchorMissing("emit_batcher::tokio::wait")
        b = P.body(ks[0])
        n = 0
        for rb in b.return_blocks():
            for path in b.acyclic_paths(0, rb, limit=2000):
                ps = mir.PathSummary(b, path)
                r = ps.ret()
                v = mir.o_const_value(r)
                n += 1
                if v is False:
                    # converse: a wait whose notifier was observed to have *fired* (try_recv succeeded, or the timeout future resolved Ok(Ok(()))) does not
                    # report failure - the flush it waited for did complete
                    fired = False
                    td = []
                    for sbb, o, vals in ps.decisions():
                        if o[0] == "call" and o[1].callee.get("name") == "is_ok" and tuple(vals) not in (("0",), (0,)):
                            fired = True
                        if "Timeout<" in o_str(o) and o[0] == "discr":
                            td.append(tuple(vals))
                    if len(td) >= 3 and td[1] in (("0",), (0,)) and td[2] in (("0",), (0,)):
                        fired = True
                    if fired:
                        return False, ("tokio::wait returns false on a path where the notifier was observed to have fired: an async flush (or a wait for room) that "
                                       "completed within its timeout is reported as failed"), [], b.span
                    continue
                seen = False
                elapsed = False
                tdepth = []
                for sbb, o, vals in ps.decisions():
                    txt = o_str(o)
                    if o[0] == "call" and o[1].callee.get("name") == "is_ok" and tuple(vals) not in (("0",), (0,)):
                        seen = True
                    if "Timeout<" in txt and o[0] == "discr":
                        tdepth.append(tuple(vals))
                # decisions on the Timeout result: [poll Ready(0)], [Ok(0)|Err(1) of Elapsed], [inner Ok/Err of the oneshot]
                if len(tdepth) >= 2:
                    if tdepth[1] in (("0",), (0,)):
                        seen = True
                    else:
                        elapsed = True
                if elapsed or not seen:
                    return False, ("tokio::wait returns %s on a path where the timeout elapsed (or the notifier was never observed): an async flush "
                                   "whose timeout expires while the batch is still in flight would report completion" % o_str(r)), [], b.span
                if v is not True:
                    return False, "tokio::wait returns %s, not a constant, on a notified path" % o_str(r), [], b.span
        if n < 4:
            raise mir.AnchorMissing("paths of tokio::wait (found %d)" % n)
        return True, "", [b.span]
    chk.ob("%s.R4:tokio::wait" % prefix, "the async wait reports completion only when the notifier fired; an elapsed or zero timeout is false", f)


def batch_error_helpers(chk, P, prefix):
    """BatchError carries the remainder to retry: the constructors and conversions keep it exactly."""
    BE = "emit_batcher::BatchError::<T>::"

    def f():
        sites = []
        b = P.body(BE + "no_retry")
        o = b.origin(0)
        if not (o[0] == "agg" and dict(zip(o[1]["fields"], o[2]))["retryable"][0] == "agg"
                and dict(zip(o[1]["fields"], o[2]))["retryable"][1].get("variant") == "None"):
            return False, "no_retry must carry no remainder", [], b.span
        sites.append(b.span)
        b = P.body(BE + "retry")
        o = b.origin(0)
        rv = dict(zip(o[1]["fields"], o[2]))["retryable"] if o[0] == "agg" else None
        if not (rv and rv[0] == "agg" and rv[1].get("variant") == "Some" and mir.o_is_param(rv[2][0], idx=2)):
            return False, "retry(err, remainder) must carry exactly the given remainder", [], b.span
        sites.append(b.span)
        b = P.body(BE + "into_retryable")
        if mir.o_field_path(b.origin(0))[1] != ["retryable"] or b.calls(normal_only=True):
            return False, "into_retryable must return the carried remainder as it is", [], b.span
        sites.append(b.span)
        b = P.body(BE + "try_into_retryable")
        cs = [c for c in b.calls(normal_only=True)]
        if len(cs) != 1 or cs[0].callee.get("name") not in ("ok_or_else", "ok_or") or mir.o_field_path(b.origin(cs[0].args[0]))[1] != ["retryable"]:
            return False, "try_into_retryable must be self.retryable.ok_or_else(..)", [], b.span
        sites.append(b.span)
        b = P.body(BE + "map_retryable")
        calls = [c for c in b.calls(normal_only=True) if c.callee.get("name") in ("call_once", "call_mut", "call")]
        allc = [c for c in b.calls(normal_only=True)]
        if len(calls) != 1 or len(allc) != 1 or b.count_on_paths({calls[0].bb}) != (1, 1):
            return False, ("map_retryable must call its function exactly once, on every path, with the carried remainder (found calls %s): a "
                           "processor that turns a non-retryable inner error into a retry by supplying a remainder would otherwise lose it"
                           % [c.callee.get("name") for c in allc]), [], b.span
        arg = b.origin(calls[0].args[1])
        inner = arg[2][0] if arg[0] == "agg" and arg[2] else arg
        if mir.o_field_path(inner)[1] != ["retryable"] or not mir.o_is_param(b.origin(calls[0].args[0]), idx=2):
            return False, "map_retryable does not hand self.retryable to the given function", [], calls[0].loc
        o = b.origin(0)
        rv = dict(zip(o[1]["fields"], o[2]))["retryable"] if o[0] == "agg" else None
        if not (rv and rv[0] == "call" and rv[1].bb == calls[0].bb):
            return False, "map_retryable does not carry the function's result as the new remainder", [], b.span
        sites.append(b.span)
        return True, "", sites
    chk.ob("%s.R4:BatchError" % prefix, "BatchError's constructors and conversions carry the remainder unchanged; map_retryable applies its function exactly once to it", f)


def time_arithmetic(chk, P, prefix):
    """Time arithmetic that can panic (`Duration - Duration`, `Instant + Duration`, ... through the operator traits) is used only at a
    reasoned table of sites; remaining-time computations on the blocking paths saturate."""
    ALLOW = {
        ("emit_batcher::Delay::next", "Mul"): "current <= max (clamped every step), times 2",
        ("emit_batcher::Delay::next", "Add"): "2*current + step with current <= max = 10 s",
        ("<emit_core::and::And<T, U> as emit_core::emitter::Emitter>::blocking_flush", "Div"): "division by the constant 2",
        ("emit_core::timestamp::Timestamp::to_system_time", "Add"): "UNIX_EPOCH + a timestamp below year 10000",
    }

    def f():
        sites = []
        for b in P.bodies.values():
            if b.crate not in ("emit_batcher", "emit_otlp", "emit_file", "emit_core", "emit", "emit_term", "emit_traceparent"):
                continue
            for c in b.calls(normal_only=True):
                tr = c.callee.get("trait") or ""
                st = c.callee.get("self_ty") or ""
                if tr.startswith("core::ops::arith::") and ("Duration" in st or "Instant" in st or "SystemTime" in st):
                    op = tr.split("::")[-1].replace("Assign", "")
                    root = (P.bodies.get(b.root_key) or b).key if b.root_key else b.key
                    if (root, op) not in ALLOW and (b.key, op) not in ALLOW:
                        return False, ("%s computes with `%s` on %s at %s: the operator panics on underflow/overflow (e.g. `timeout - elapsed` once "
                                       "the elapsed time exceeds the timeout), so a blocking flush or send called with a short timeout would panic "
                                       "instead of returning false / Err; use saturating_sub / checked arithmetic"
                                       % (b.key, op, st.split("::")[-1], c.loc)), [], c.loc
                    sites.append(c.loc)
        return True, "", sites
    chk.ob("%s.R5:time-arithmetic" % prefix, "no panicking Duration/Instant operator arithmetic outside a reasoned table (remaining-time computations saturate)", f)


def workers_run_to_completion(chk, P, prefix):
    """`When the last sender is dropped the receiver delivers what is still queued ... and terminates`: where one worker drives several receivers
    (emit_otlp: one `Receiver::exec` future per configured signal, pushed into a FuturesUnordered), the worker's future may only finish when
    *every* receiver's future has finished - otherwise the receiver whose channel is empty returns first at shutdown, the runtime is dropped and
    the other signals' final batches are cancelled mid-request.  Structural part: in every body that collects >= 2 `Receiver::exec` futures into a
    stream, the stream is awaited through a whole-stream combinator (collect / for_each / count / fold ..) or through `next()` inside a loop;
    `StreamExt::into_future` (first item only), a lone `next()` or `select_next_some()` is a violation."""
    WHOLE = ("collect", "for_each", "for_each_concurrent", "count", "fold", "try_for_each", "try_collect", "all", "any")
    FIRST = ("into_future", "next", "select_next_some", "poll_next_unpin", "try_next")
    hosts = []
    for k, b in sorted(P.bodies.items()):
        ex = [c for c in b.calls(normal_only=True) if (c.callee.get("path") or "").startswith("emit_batcher::Receiver::") and c.callee.get("name") == "exec"]
        if len(ex) >= 2:
            hosts.append((b, ex))

    def f():
        if not hosts:
            raise mir.AnchorMissing("a worker that drives several Receiver::exec futures (emit_otlp's spawn_inner)")
        ev = []
        for b, ex in hosts:
            st = [c for c in b.calls(normal_only=True) if "futures_util::stream" in (c.callee.get("trait") or c.callee.get("path") or "")
                  and (c.callee.get("trait") or "").endswith("StreamExt")]
            joins = [c for c in b.calls(normal_only=True) if c.callee.get("name") in ("join_all", "join", "join3", "try_join_all") and "futures" in (c.callee.get("path") or "")]
            if not st and not joins:
                raise mir.AnchorMissing("the await of the receivers' futures in %s" % b.key)
            good = bool(joins)
            for c in st:
                nm = c.callee.get("name")
                if nm in WHOLE:
                    good = True
                elif nm in FIRST:
                    if nm != "into_future" and b.in_cycle(c.bb):
                        good = True
                        continue
                    return False, ("%s awaits its %d receivers through StreamExt::%s at %s, which completes as soon as the *first* receiver has finished: "
                                   "when the emitter is dropped the signal with nothing queued returns at once, the worker's runtime is torn down and the "
                                   "other signals' last batches are never delivered" % (b.key, len(ex), nm, c.loc)), [], c.loc
            if not good:
                raise mir.AnchorMissing("a recognised whole-stream await of the receivers' futures in %s" % b.key)
            ev.append(b.span)
        return True, "", ev
    chk.ob("%s.R4:workers-run-to-completion" % prefix, "a worker that drives several receivers finishes only when every receiver has finished", f)
