"""Panic-capable site inventory over built MIR, with cheap structural discharges.

kinds: assert:bounds, assert:overflow:<op>, assert:div_zero, assert:rem_zero, assert:overflow_neg,
call:unwrap / call:expect (on Option/Result), call:panic (explicit panic!/todo!/unreachable!/assert! machinery),
index:str-range (<str as Index<Range*>>::index — panics off char boundaries), index:slice (slice Index impls),
call:<name> for a table of std functions documented to panic (split_at, copy_from_slice, Duration arithmetic ...)."""
import re

from . import mir

PANIC_FNS = re.compile(r"^(core::panicking::|std::rt::begin_panic|core::panic::|std::panicking::|core::option::expect_failed|"
                       r"core::result::unwrap_failed|core::slice::index::slice_|core::str::slice_error_fail)")
DOC_PANIC = {
    "split_at": "slice/str split_at panics when mid > len or off a char boundary",
    "split_at_mut": "split_at_mut panics when mid > len",
    "copy_from_slice": "copy_from_slice panics on length mismatch",
    "clone_from_slice": "clone_from_slice panics on length mismatch",
    "swap": None,
    "remove": "Vec::remove panics when out of bounds",
    "insert": None,
    "pow": None,
}


def sites(b, include_expn=True):
    out = []
    for i, t in b.terminators(normal_only=True):
        line = t.get("line")
        loc = "%s:%s" % (b.file, line)
        if t["k"] == "assert":
            m = t["msg"]
            if m["k"] in ("resumed", "other"):
                continue
            kind = "assert:" + m["k"] + ((":" + m["op"]) if m.get("op") else "")
            out.append(dict(kind=kind, bb=i, loc=loc, term=t, expn=bool(t.get("expn"))))
        elif t["k"] == "call":
            c = t["callee"]
            if "indirect" in c:
                continue
            nm = c.get("name")
            p = c.get("path") or ""
            full = c.get("full") or ""
            st = c.get("self_ty") or ""
            if nm in ("unwrap", "expect", "unwrap_err", "expect_err") and re.match(r"^core::(option::Option|result::Result)", p):
                out.append(dict(kind="call:" + nm, bb=i, loc=loc, term=t, expn=bool(t.get("expn")), on=st or full))
            elif PANIC_FNS.match(p):
                out.append(dict(kind="call:panic", bb=i, loc=loc, term=t, expn=bool(t.get("expn")), what=p,
                                macros=t.get("macros") or []))
            elif nm in ("index", "index_mut") and (c.get("trait") or c.get("impl_trait") or "").startswith("core::ops::index::Index"):
                gen = " ".join(c.get("generics") or [])
                if st == "str" or st.startswith("alloc::string::String"):
                    out.append(dict(kind="index:str-range", bb=i, loc=loc, term=t, expn=False, gen=gen))
                elif st.startswith("[") or st.startswith("alloc::vec::Vec") or "HashMap" in st or "BTreeMap" in st:
                    out.append(dict(kind="index:slice" if not ("Map" in st) else "index:map", bb=i, loc=loc, term=t, expn=False, gen=gen))
            elif nm in DOC_PANIC and DOC_PANIC[nm] and (p.startswith("core::slice") or p.startswith("core::str") or p.startswith("alloc::vec")):
                out.append(dict(kind="call:" + nm, bb=i, loc=loc, term=t, expn=False))
    return out


def const_of(b, op):
    return mir.o_const_value(b.origin(op))


def array_len(b, o):
    """N when the origin is `.len()` of a slice unsized from a `[T; N]` array (or of the array itself)."""
    if not (o[0] == "call" and o[1].callee.get("name") == "len" and o[1].args):
        return None
    a = o[1].args[0]
    pl = a.get("c") or a.get("m")
    if pl is None or "p" in pl:
        return None
    for d in b.defs().get(pl["l"], ()):
        if d[2] == "assign" and d[3]["k"] == "cast":
            m = re.search(r"\[.*; (\d+)\]$", d[3].get("from_ty") or "")
            if m:
                return int(m.group(1))
    m = re.search(r"\[.*; (\d+)\]$", b.local_ty(pl["l"]))
    if m:
        return int(m.group(1))
    return None


def discharge(b, s):
    """A one-line reason if the site provably cannot fire, else None."""
    t = s["term"]
    k = s["kind"]
    if k in ("assert:div_zero", "assert:rem_zero"):
        # the asserted condition is `divisor == 0` expected false
        c = b.origin(t["cond"])
        if c[0] == "binop" and c[1] == "Eq":
            for side, other in ((c[2], c[3]), (c[3], c[2])):
                v, z = mir.o_const_value(side), mir.o_const_value(other)
                if isinstance(v, int) and v != 0 and z == 0:
                    return "constant non-zero divisor %d" % v
                n = array_len(b, side)
                if n and z == 0:
                    return "divisor is the length of a %d-element array" % n
    if k == "assert:bounds":
        idx = b.origin(t["msg"]["index"])
        ln = const_of(b, t["msg"]["len"])
        iv = mir.o_const_value(idx)
        if isinstance(ln, int):
            if isinstance(iv, int) and 0 <= iv < ln:
                return "constant index %d < constant length %d" % (iv, ln)
            if idx[0] == "binop" and idx[1] == "Rem":
                m = mir.o_const_value(idx[3])
                if not isinstance(m, int):
                    m = array_len(b, idx[3])
                if isinstance(m, int) and 0 < m <= ln:
                    return "index is x %% %d into an array of length %d" % (m, ln)
            if idx[0] == "cast":
                # u8 as usize into a 256-table
                inner = idx[1]
                ty = None
                if inner[0] in ("index", "field", "param", "local", "call", "phi", "downcast", "binop"):
                    pass
                if (idx[2] or "") == "usize" and ln >= 256:
                    src_ty = _cast_src_ty(b, t["msg"]["index"])
                    if src_ty == "u8":
                        return "u8 index into a table of length %d" % ln
            if idx[0] == "binop" and idx[1] in ("BitAnd",):
                m = mir.o_const_value(idx[3])
                if isinstance(m, int) and m < ln:
                    return "index masked with %d < %d" % (m, ln)
        # dominated by an explicit comparison `index < len` on the same operands: look for a guarding switch
        for gbb, vals, n in b.guards_of(s["bb"]):
            so = b.switch_origin(gbb)
            if so[0] == "binop" and so[1] in ("Lt", "Le", "Gt", "Ge"):
                a, c = so[2], so[3]
                if _same(a, idx) and so[1] == "Lt" and list(vals) != ["0"] and _is_len_of(c):
                    return "dominated by `index < len`"
    if k.startswith("assert:overflow"):
        a = b.origin(t["msg"]["a"])
        c = b.origin(t["msg"].get("b")) if t["msg"].get("b") else None
        av, cv = mir.o_const_value(a), (mir.o_const_value(c) if c else None)
        if isinstance(av, int) and isinstance(cv, int):
            return "constant operands"
    return None


def _cast_src_ty(b, op):
    pl = op.get("c") or op.get("m")
    if pl is None or "p" in pl:
        return None
    ds = [d for d in b.defs().get(pl["l"], ()) if d[2] == "assign"]
    if len(ds) == 1 and ds[0][3]["k"] == "cast":
        return ds[0][3].get("from_ty")
    return None


def _same(a, b_):
    return mir.o_str(a) == mir.o_str(b_)


def _is_len_of(o):
    return (o[0] == "call" and o[1].callee.get("name") == "len") or (o[0] == "unop" and o[1] == "PtrMetadata")


def inventory_rule(chk, prefix, P, bodies, allow, text, lock_unwrap_ok=True, skip_expn_kinds=()):
    """One obligation per function: every panic-capable site is discharged structurally or covered by an
    allow row (function-key regex, kind) -> (max count, reason).  More sites of a kind than allowed is a
    violation naming the first surplus site; fewer is fine."""
    total = 0
    undischarged_total = 0
    for b in sorted(bodies, key=lambda x: x.key):
        ss = sites(b)
        if not ss:
            continue
        total += len(ss)
        by_kind = {}
        notes = []
        for s in ss:
            r = discharge(b, s)
            if r:
                notes.append("%s %s: %s" % (s["loc"], s["kind"], r))
                continue
            if lock_unwrap_ok and s["kind"] == "call:unwrap" and "MutexGuard" in (s.get("on") or ""):
                notes.append("%s lock().unwrap(): poisoning needs a panic under the lock, excluded by the no-foreign-code-under-lock rule" % s["loc"])
                continue
            if s["kind"] in skip_expn_kinds and s["expn"]:
                continue
            by_kind.setdefault(s["kind"], []).append(s)
        bad = None
        for kind, lst in by_kind.items():
            allowed = 0
            reason = None
            for (rx, k2), (n, why) in allow.items():
                if k2 == kind and re.search(rx, b.key):
                    allowed += n
                    reason = why
            undischarged_total += len(lst)
            if len(lst) > allowed:
                s = lst[allowed] if allowed < len(lst) else lst[-1]
                bad = (kind, len(lst), allowed, s)
                break
            notes.append("%d x %s allowed: %s" % (len(lst), kind, reason))
        key = "%s:%s" % (prefix, b.key)
        if bad:
            kind, n, allowed, s = bad
            extra = ""
            if kind == "index:str-range":
                extra = " (range-indexing a str panics when an offset is not on a char boundary)"
            chk.fail(key, text, "%s has %d panic-capable site(s) of kind `%s`, %d are accounted for; first unaccounted: %s%s"
                     % (b.key, n, kind, allowed, s["loc"], extra), loc=s["loc"])
        else:
            chk.ok(key, text, sites=notes[:8] or [b.span])
    return total, undischarged_total
