"""Panic-capable site inventory over built MIR, with cheap structural discharges.

kinds: assert:bounds, assert:overflow:<op>, assert:div_zero, assert:rem_zero, assert:overflow_neg,
call:unwrap / call:expect (on Option/Result), call:panic (explicit panic!/todo!/unreachable!/assert! machinery),
index:str-range (<str as Index<Range*>>::index — panics off char boundaries), index:slice (slice Index impls),
call:<name> for a table of std functions documented to panic (split_at, copy_from_slice, Duration arithmetic ...)."""
import re

from . import mir

PANIC_FNS = re.compile(r"^(core::panicking::|std::rt::begin_panic|core::panic::|std::panicking::|core::option::expect_failed|"
                       r"core::result::unwrap_failed|core::slice::index::slice_|core::str::slice_error_fail)")
DOC_PANIC = {
    "split_at": "slice/str split_at panics when mid > len or off a char boundary",
    "split_at_mut": "split_at_mut panics when mid > len",
    "copy_from_slice": "copy_from_slice panics on length mismatch",
    "clone_from_slice": "clone_from_slice panics on length mismatch",
    "swap": None,
    "remove": "Vec::remove panics when out of bounds",
    "insert": None,
    "pow": None,
}


def sites(b, include_expn=True):
    out = []
    for i, t in b.terminators(normal_only=True):
        line = t.get("line")
        loc = "%s:%s" % (b.file, line)
        if t["k"] == "assert":
            m = t["msg"]
            if m["k"] in ("resumed", "other"):
                continue
            kind = "assert:" + m["k"] + ((":" + m["op"]) if m.get("op") else "")
            out.append(dict(kind=kind, bb=i, loc=loc, term=t, expn=bool(t.get("expn"))))
        elif t["k"] == "call":
            c = t["callee"]
            if "indirect" in c:
                continue
            nm = c.get("name")
            p = c.get("path") or ""
            full = c.get("full") or ""
            st = c.get("self_ty") or ""
            if nm in ("unwrap", "expect", "unwrap_err", "expect_err") and re.match(r"^core::(option::Option|result::Result)", p):
                out.append(dict(kind="call:" + nm, bb=i, loc=loc, term=t, expn=bool(t.get("expn")), on=st or full))
            elif PANIC_FNS.match(p):
                out.append(dict(kind="call:panic", bb=i, loc=loc, term=t, expn=bool(t.get("expn")), what=p,
                                macros=t.get("macros") or []))
            elif nm in ("index", "index_mut") and (c.get("trait") or c.get("impl_trait") or "").startswith("core::ops::index::Index"):
                gen = " ".join(c.get("generics") or [])
                if st == "str" or st.startswith("alloc::string::String"):
                    out.append(dict(kind="index:str-range", bb=i, loc=loc, term=t, expn=False, gen=gen))
                elif st.startswith("[") or st.startswith("alloc::vec::Vec") or "HashMap" in st or "BTreeMap" in st:
                    out.append(dict(kind="index:slice" if not ("Map" in st) else "index:map", bb=i, loc=loc, term=t, expn=False, gen=gen))
            elif nm in DOC_PANIC and DOC_PANIC[nm] and (p.startswith("core::slice") or p.startswith("core::str") or p.startswith("alloc::vec")):
                out.append(dict(kind="call:" + nm, bb=i, loc=loc, term=t, expn=False))
    return out


def const_of(b, op):
    return mir.o_const_value(b.origin(op))


def array_len(b, o):
    """N when the origin is `.len()` of a slice unsized from a `[T; N]` array (or of the array itself)."""
    if not (o[0] == "call" and o[1].callee.get("name") == "len" and o[1].args):
        return None
    a = o[1].args[0]
    pl = a.get("c") or a.get("m")
    if pl is None or "p" in pl:
        return None
    for d in b.defs().get(pl["l"], ()):
        if d[2] == "assign" and d[3]["k"] == "cast":
            m = re.search(r"\[.*; (\d+)\]$", d[3].get("from_ty") or "")
            if m:
                return int(m.group(1))
    m = re.search(r"\[.*; (\d+)\]$", b.local_ty(pl["l"]))
    if m:
        return int(m.group(1))
    return None


def discharge(b, s):
    """A one-line reason if the site provably cannot fire, else None."""
    t = s["term"]
    k = s["kind"]
    if k in ("assert:div_zero", "assert:rem_zero"):
        # the asserted condition is `divisor == 0` expected false
        c = b.origin(t["cond"])
        if c[0] == "binop" and c[1] == "Eq":
            for side, other in ((c[2], c[3]), (c[3], c[2])):
                v, z = mir.o_const_value(side), mir.o_const_value(other)
                if isinstance(v, int) and v != 0 and z == 0:
                    return "constant non-zero divisor %d" % v
                n = array_len(b, side)
                if n and z == 0:
                    return "divisor is the length of a %d-element array" % n
                # a dominating match / if on the very same value sends 0 elsewhere: `match n { 0 => .., n => x / n }`
                if z == 0:
                    def same(a, c2):
                        if a[0] == c2[0] == "call":
                            return a[1].bb == c2[1].bb
                        if a[0] in ("cast", "copy") :
                            return same(a[1], c2)
                        if c2[0] in ("cast", "copy"):
                            return same(a, c2[1])
                        return a == c2
                    for gbb, vals, nb in b.guards_of(s["bb"]):
                        so = b.switch_origin(gbb)
                        vs = [str(x) for x in vals]
                        term = b.blocks[gbb]["term"]
                        if same(so, side) and "0" not in vs and ("otherwise" not in vs or any(str(v2) == "0" for v2, _ in term["targets"])):
                            return "a dominating switch on the divisor routes 0 elsewhere"
                        # `if n == 0 { return }` / `if n != 0 { .. }` forms
                        cmpc = mir.norm_cmp(so, lambda o: same(o, side))
                        if cmpc is not None and mir.o_const_value(cmpc[2]) == 0:
                            op = cmpc[0]
                            taken_true = vs != ["0"] and "0" not in vs
                            if (op == "Ne" and taken_true) or (op == "Eq" and vs == ["0"]) or (op == "Gt" and taken_true):
                                return "guarded by a comparison of the divisor with 0"
    if k == "assert:bounds":
        idx = b.origin(t["msg"]["index"])
        ln = const_of(b, t["msg"]["len"])
        iv = mir.o_const_value(idx)
        if isinstance(ln, int):
            if isinstance(iv, int) and 0 <= iv < ln:
                return "constant index %d < constant length %d" % (iv, ln)
            if idx[0] == "binop" and idx[1] == "Rem":
                m = mir.o_const_value(idx[3])
                if not isinstance(m, int):
                    m = array_len(b, idx[3])
                if isinstance(m, int) and 0 < m <= ln:
                    return "index is x %% %d into an array of length %d" % (m, ln)
            if idx[0] == "cast":
                # u8 as usize into a 256-table
                inner = idx[1]
                ty = None
                if inner[0] in ("index", "field", "param", "local", "call", "phi", "downcast", "binop"):
                    pass
                if (idx[2] or "") == "usize" and ln >= 256:
                    src_ty = _cast_src_ty(b, t["msg"]["index"])
                    if src_ty == "u8":
                        return "u8 index into a table of length %d" % ln
            if idx[0] == "binop" and idx[1] in ("BitAnd",):
                m = mir.o_const_value(idx[3])
                if isinstance(m, int) and m < ln:
                    return "index masked with %d < %d" % (m, ln)
        # dominated by an explicit comparison `index < len` on the same operands: look for a guarding switch
        for gbb, vals, n in b.guards_of(s["bb"]):
            so = b.switch_origin(gbb)
            if so[0] == "binop" and so[1] in ("Lt", "Le", "Gt", "Ge"):
                a, c = so[2], so[3]
                if _same(a, idx) and so[1] == "Lt" and list(vals) != ["0"] and _is_len_of(c):
                    return "dominated by `index < len`"
    if k.startswith("assert:overflow"):
        a = b.origin(t["msg"]["a"])
        c = b.origin(t["msg"].get("b")) if t["msg"].get("b") else None
        av, cv = mir.o_const_value(a), (mir.o_const_value(c) if c else None)
        if isinstance(av, int) and isinstance(cv, int):
            return "constant operands"
    return None


def _cast_src_ty(b, op):
    pl = op.get("c") or op.get("m")
    if pl is None or "p" in pl:
        return None
    ds = [d for d in b.defs().get(pl["l"], ()) if d[2] == "assign"]
    if len(ds) == 1 and ds[0][3]["k"] == "cast":
        return ds[0][3].get("from_ty")
    return None


def _same(a, b_):
    return mir.o_str(a) == mir.o_str(b_)


def _is_len_of(o):
    return (o[0] == "call" and o[1].callee.get("name") == "len") or (o[0] == "unop" and o[1] == "PtrMetadata")


def inventory_rule(chk, prefix, P, bodies, allow, text, lock_unwrap_ok=True, skip_expn_kinds=()):
    """One obligation per function: every panic-capable site is discharged structurally or covered by an
    allow row (function-key regex, kind) -> (max count, reason).  More sites of a kind than allowed is a
    violation naming the first surplus site; fewer is fine."""
    total = 0
    undischarged_total = 0
    for b in sorted(bodies, key=lambda x: x.key):
        if b.key in getattr(P, "absorbed", ()):
            continue  # a new private helper: its sites are inventoried inside every body that calls it (mir: unknown-helper inlining)
        ss = sites(b)
        if not ss:
            continue
        total += len(ss)
        by_kind = {}
        notes = []
        for s in ss:
            r = discharge(b, s) or discharge2(b, s)
            if r:
                notes.append("%s %s: %s" % (s["loc"], s["kind"], r))
                continue
            if lock_unwrap_ok and s["kind"] == "call:unwrap" and "MutexGuard" in (s.get("on") or ""):
                notes.append("%s lock().unwrap(): poisoning needs a panic under the lock, excluded by the no-foreign-code-under-lock rule" % s["loc"])
                continue
            if s["kind"] in skip_expn_kinds and s["expn"]:
                continue
            by_kind.setdefault(s["kind"], []).append(s)
        bad = None
        for kind, lst in by_kind.items():
            allowed = 0
            reason = None
            for (rx, k2), (n, why) in allow.items():
                if k2 == kind and re.search(rx, b.key):
                    allowed += n
                    reason = why
            undischarged_total += len(lst)
            if len(lst) > allowed:
                s = lst[allowed] if allowed < len(lst) else lst[-1]
                bad = (kind, len(lst), allowed, s)
                break
            notes.append("%d x %s allowed: %s" % (len(lst), kind, reason))
        key = "%s:%s" % (prefix, b.key)
        if bad:
            kind, n, allowed, s = bad
            extra = ""
            if kind == "index:str-range":
                extra = " (range-indexing a str panics when an offset is not on a char boundary)"
            chk.fail(key, text, "%s has %d panic-capable site(s) of kind `%s`, %d are accounted for; first unaccounted: %s%s"
                     % (b.key, n, kind, allowed, s["loc"], extra), loc=s["loc"])
        else:
            chk.ok(key, text, sites=notes[:8] or [b.span])
    return total, undischarged_total


# ---- interval-lite: value ranges from constants, types and dominating guards ----------------------------------------

INF = float("inf")
TY_RANGE = {"u8": (0, 2 ** 8 - 1), "u16": (0, 2 ** 16 - 1), "u32": (0, 2 ** 32 - 1), "u64": (0, 2 ** 64 - 1), "usize": (0, 2 ** 64 - 1),
            "u128": (0, 2 ** 128 - 1), "i8": (-2 ** 7, 2 ** 7 - 1), "i16": (-2 ** 15, 2 ** 15 - 1), "i32": (-2 ** 31, 2 ** 31 - 1),
            "i64": (-2 ** 63, 2 ** 63 - 1), "isize": (-2 ** 63, 2 ** 63 - 1), "i128": (-2 ** 127, 2 ** 127 - 1)}


def _local_of(o):
    if o[0] == "local":
        return o[1]
    if o[0] == "phi" and len(o) > 2 and o[2] is not None:
        return o[2]
    if o[0] == "param":
        return o[1]
    return None


def _sid(b, op_or_origin, is_origin=False):
    o = op_or_origin if is_origin else b.origin(op_or_origin, through_calls=("deref", "deref_mut", "as_ref", "as_slice", "borrow"))
    l = _local_of(o)
    if l is not None:
        # `let bytes = s.as_bytes()`: the byte view has the length of the string it views - one sequence for length facts
        ds = [d for d in b.defs().get(l, ()) if d[2] == "call"]
        if len(ds) == 1 and len(b.defs().get(l, ())) == 1 and ds[0][3]["callee"].get("name") in ("as_bytes", "as_str") and ds[0][3]["args"]:
            inner = b.origin(ds[0][3]["args"][0], through_calls=("deref",))
            il = _local_of(inner)
            if il is not None:
                return "local%d" % il
        return "local%d" % l
    if o[0] == "call" and o[1].callee.get("name") in ("as_bytes", "as_str") and o[1].args:
        inner = b.origin(o[1].args[0], through_calls=("deref",))
        il = _local_of(inner)
        if il is not None:
            return "local%d" % il
    if o[0] == "call":
        return "%s@bb%d" % (mir.o_str(o), o[1].bb)   # two calls of the same function are two sequences
    return mir.o_str(o)


def _len_target(b, o):
    """If the origin is the length of some slice, that slice's id."""
    if o[0] == "call" and o[1].callee.get("name") == "len" and o[1].args:
        return _sid(b, o[1].args[0])
    if o[0] == "unop" and o[1] == "PtrMetadata":
        return _sid(b, o[2], is_origin=True)
    return None


def _apply(op, k, taken, lo, hi):
    if op == "Gt":
        return (max(lo, k + 1), hi) if taken else (lo, min(hi, k))
    if op == "Ge":
        return (max(lo, k), hi) if taken else (lo, min(hi, k - 1))
    if op == "Lt":
        return (lo, min(hi, k - 1)) if taken else (max(lo, k), hi)
    if op == "Le":
        return (lo, min(hi, k)) if taken else (max(lo, k + 1), hi)
    if op == "Eq":
        return (max(lo, k), min(hi, k)) if taken else (lo, hi)
    if op == "Ne":
        return (lo, hi) if taken else (max(lo, k), min(hi, k))
    return lo, hi


FLIP = {"Gt": "Lt", "Lt": "Gt", "Ge": "Le", "Le": "Ge", "Eq": "Eq", "Ne": "Ne"}


def range_consts(b, c):
    """(lo, hi) inclusive of the constant range a `contains` call is made on, or None: RangeInclusive::new(a, b), or a Range / RangeInclusive aggregate."""
    r = b.origin(c.args[0], through_calls=("deref",))
    while r[0] in ("ref", "deref", "copy"):
        r = r[1]
    if r[0] == "call" and r[1].callee.get("name") == "new" and "RangeInclusive" in (r[1].callee.get("full") or r[1].callee.get("path") or "") and len(r[1].args) == 2:
        a_, c_ = mir.o_const_value(b.origin(r[1].args[0])), mir.o_const_value(b.origin(r[1].args[1]))
        if isinstance(a_, int) and isinstance(c_, int):
            return (a_, c_)
    if r[0] == "agg" and (r[1].get("adt") or "").endswith("range::Range") and len(r[2]) == 2:
        f = dict(zip(r[1]["fields"], r[2]))
        a_, c_ = mir.o_const_value(f.get("start", ("unknown",))), mir.o_const_value(f.get("end", ("unknown",)))
        if isinstance(a_, int) and isinstance(c_, int):
            return (a_, c_ - 1)
    return None


def guard_bounds(b, bb, match):
    """(lo, hi) implied for the quantity recognised by match(origin)->bool from comparisons with constants on
    switch edges that dominate bb."""
    lo, hi = -INF, INF
    for gbb, vals, n in b.guards_of(bb):
        so = b.switch_origin(gbb)
        neg = False
        while so[0] == "unop" and so[1] == "Not":
            so = so[2]
            neg = not neg
        if so[0] == "call" and so[1].callee.get("name") == "contains" and len(so[1].args) == 2:
            # `(a..=b).contains(&x)` / `(a..b).contains(&x)` with constant ends: on the true edge a <= x <= b (resp. < b)
            rng = range_consts(b, so[1])
            item = b.origin(so[1].args[1], through_calls=("deref",))
            if rng and match(item) and (list(vals) != ["0"]) != neg:
                lo, hi = max(lo, rng[0]), min(hi, rng[1])
            continue
        if so[0] != "binop" or so[1] not in FLIP:
            # PartialOrd/PartialEq calls on integers do not occur (primitive compares are binops)
            continue
        taken = (list(vals) != ["0"]) != neg
        a, c = so[2], so[3]
        ka, kc = mir.o_const_value(a), mir.o_const_value(c)
        if isinstance(kc, int) and not isinstance(kc, bool) and match(a):
            lo, hi = _apply(so[1], kc, taken, lo, hi)
        elif isinstance(ka, int) and not isinstance(ka, bool) and match(c):
            lo, hi = _apply(FLIP[so[1]], ka, taken, lo, hi)
    return lo, hi


def len_bounds(b, bb, sid):
    lo, hi = guard_bounds(b, bb, lambda o: _len_target(b, o) == sid)
    return max(lo, 0), hi


def ival(b, o, bb, depth=0):
    """Conservative integer interval of an origin at block bb, or None."""
    if depth > 12:
        return None
    v = mir.o_const_value(o)
    if isinstance(v, int) and not isinstance(v, bool):
        return (v, v)
    if o[0] == "field" and o[1][0] == "binop" and o[2] == "0":
        return ival(b, o[1], bb, depth + 1)
    if o[0] == "cast":
        inner = ival(b, o[1], bb, depth + 1)
        tr = TY_RANGE.get(o[2] or "")
        fr = TY_RANGE.get(o[3] or "") if len(o) > 3 else None
        if inner is None:
            inner = fr
        elif fr:
            inner = (max(inner[0], fr[0]), min(inner[1], fr[1]))
        if inner is not None and tr and tr[0] <= inner[0] and inner[1] <= tr[1]:
            return inner
        return tr
    if o[0] == "binop":
        op = o[1].replace("WithOverflow", "").replace("Unchecked", "")
        x = ival(b, o[2], bb, depth + 1)
        y = ival(b, o[3], bb, depth + 1)
        if op == "Rem" and y is not None and y[0] == y[1] and y[0] > 0:
            return (0, y[0] - 1)
        if op == "BitAnd" and y is not None and y[0] == y[1] and y[0] >= 0:
            return (0, y[0])
        if x is None and len(o) > 4 and o[4] in TY_RANGE:
            x = TY_RANGE[o[4]]
        if x is None or y is None:
            return None
        if op == "Add":
            return (x[0] + y[0], x[1] + y[1])
        if op == "Sub":
            return (x[0] - y[1], x[1] - y[0])
        if op == "Mul":
            c = [x[0] * y[0], x[0] * y[1], x[1] * y[0], x[1] * y[1]]
            return (min(c), max(c))
        if op == "Div" and y[0] > 0:
            return (x[0] // y[1] if x[0] >= 0 else x[0] // y[0], x[1] // y[0] if x[1] >= 0 else x[1] // y[1])
        if op == "Shr" and y[0] >= 0 and x[0] >= 0:
            return (x[0] >> int(y[1]) if y[1] != INF else 0, x[1] >> int(y[0]))
        return None
    n = array_len(b, o)
    if n is not None:
        return (n, n)
    sid = _len_target(b, o)
    if sid is not None:
        return len_bounds(b, bb, sid)
    l = _local_of(o)
    if l is not None:
        ty = b.local_ty(l)
        tr = TY_RANGE.get(ty, (-INF, INF))
        lo, hi = guard_bounds(b, bb, lambda x, l=l: _local_of(x) == l)
        return (max(lo, tr[0]), min(hi, tr[1]))
    if o[0] in ("field", "index", "downcast"):
        # a field / element of some type: only the type range is known; the caller passes the operand type when it can
        return None
    return None


def _operand_ty(b, op):
    pl = op.get("c") or op.get("m")
    if pl is not None and "p" not in pl:
        return b.local_ty(pl["l"])
    k = op.get("k")
    if isinstance(k, dict):
        return k.get("ty")
    return None


def _unit_ratio_index(b, io, ln, bb):
    """idx = round((a - m) / (M - m) * K) as usize with K = len - 1: the division comes first, so for m <= a <= M the
    quotient is a correctly rounded value <= 1.0 and the product is <= K exactly; NaN and negative products saturate to 0
    in the float->usize cast.  Hoisting K / (M - m) out of the loop breaks this (the product can exceed K)."""
    if ln is None or ln[0] != ln[1]:
        return None
    if not (io[0] == "cast" and len(io) > 3 and io[3] in ("f64", "f32") and io[2] == "usize"):
        return None
    x = io[1]
    if not (x[0] == "call" and x[1].callee.get("name") in ("ceil", "floor", "round", "trunc") and x[1].args):
        return None
    m = b.origin(x[1].args[0])
    if not (m[0] == "binop" and m[1] == "Mul"):
        return None
    for ratio, scale in ((m[2], m[3]), (m[3], m[2])):
        sc = scale
        if sc[0] == "cast":
            sc = sc[1]
        sv = ival(b, sc, bb)
        if sv is None or sv[0] != sv[1] or sv[0] != ln[0] - 1:
            continue
        if not (ratio[0] == "binop" and ratio[1] == "Div"):
            continue
        def sub_rhs(o):
            if o[0] == "binop" and o[1] == "Sub":
                return o[3]
            if o[0] == "call" and o[1].callee.get("name") == "sub" and len(o[1].args) == 2:
                return b.origin(o[1].args[1])
            return None
        nr, dr = sub_rhs(ratio[2]), sub_rhs(ratio[3])
        def lid(o):
            if o is None:
                return None
            if o[0] == "local":
                return ("l", o[1])
            if o[0] == "phi" and len(o) > 2:
                return ("l", o[2])
            if o[0] == "param":
                return ("p", o[1])
            return None
        if lid(nr) is None or lid(nr) != lid(dr):
            continue
        return ("index = round((a - m) / (M - m) * %d) as usize, division first: quotient <= 1 for m <= a <= M, NaN/negative "
                "saturate to 0 (assumes a lies between the folded minimum m and maximum M of the same slice)" % (ln[0] - 1))
    return None


def discharge2(b, s):
    """Interval-based discharges (second line after `discharge`)."""
    t = s["term"]
    k = s["kind"]
    bb = s["bb"]
    if k == "assert:bounds":
        idx = ival(b, b.origin(t["msg"]["index"]), bb)
        lno = b.origin(t["msg"]["len"])
        ln = ival(b, lno, bb)
        if idx is not None and ln is not None and idx[0] >= 0 and idx[1] < ln[0]:
            return "index in [%s, %s] < length >= %s" % (idx[0], idx[1], ln[0])
        r = _unit_ratio_index(b, b.origin(t["msg"]["index"]), ln, bb)
        if r:
            return r
    if k.startswith("assert:overflow:"):
        op = k.rsplit(":", 1)[1]
        a, c = t["msg"].get("a"), t["msg"].get("b")
        if a is None or c is None:
            return None
        ty = _operand_ty(b, a) or _operand_ty(b, c)
        tr = TY_RANGE.get(ty or "")
        if not tr:
            return None
        x = ival(b, b.origin(a), bb)
        y = ival(b, b.origin(c), bb)
        if x is None:
            x = tr
        if y is None:
            y = tr if op not in ("Shl", "Shr") else None
        if y is None:
            return None
        if op == "Add":
            r = (x[0] + y[0], x[1] + y[1])
        elif op == "Sub":
            r = (x[0] - y[1], x[1] - y[0])
        elif op == "Mul":
            cs = [x[0] * y[0], x[0] * y[1], x[1] * y[0], x[1] * y[1]]
            r = (min(cs), max(cs))
        elif op in ("Div", "Rem"):
            # signed MIN / -1 only
            if tr[0] == 0 or y[0] > -1 or y[1] < -1 or x[0] > tr[0]:
                return "no signed-overflow case (operand ranges %s, %s)" % (x, y)
            return None
        elif op in ("Shl", "Shr"):
            bits = {"u8": 8, "u16": 16, "u32": 32, "u64": 64, "usize": 64, "u128": 128, "i8": 8, "i16": 16, "i32": 32, "i64": 64, "isize": 64, "i128": 128}.get(ty)
            if bits and 0 <= y[0] and y[1] < bits:
                return "shift amount in [%s, %s] < %d bits" % (y[0], y[1], bits)
            return None
        else:
            return None
        if tr[0] <= r[0] and r[1] <= tr[1]:
            return "result in [%s, %s] fits %s" % (r[0], r[1], ty)
        if op == "Add" and y == (1, 1):
            r = _below_something(b, a, bb)
            if r:
                return r
    if k == "index:slice":
        return _discharge_range(b, s)
    if k == "call:copy_from_slice":
        cs = mir.CallSite(b, bb, t)
        dst = b.origin(cs.args[0], through_calls=("deref_mut", "deref"))
        src_sid = _sid(b, cs.args[1])
        if dst[0] == "call" and dst[1].callee.get("name") in ("index", "index_mut") and len(dst[1].args) > 1:
            ro = b.origin(dst[1].args[1])
            if ro[0] == "agg" and (ro[1].get("adt") or "").endswith("range::Range"):
                f = dict(zip(ro[1]["fields"], ro[2]))
                e = f["end"]
                e2 = e[1] if e[0] == "field" and e[1][0] == "binop" else e
                if e2[0] == "binop" and e2[1].startswith("Add") and mir.o_str(e2[2]) == mir.o_str(f["start"]) and _len_target(b, e2[3]) == src_sid:
                    return "destination is [start..start + src.len()]: lengths are equal by construction"
    if k == "call:split_at":
        cs = mir.CallSite(b, bb, t)
        mid = b.origin(cs.args[1])
        for gbb, vals, n in b.guards_of(bb):
            so = b.switch_origin(gbb)
            if so[0] == "call" and so[1].callee.get("name") == "is_char_boundary" and list(vals) != ["0"]:
                if mir.o_str(b.origin(so[1].args[1])) == mir.o_str(mid) and _sid(b, so[1].args[0]) == _sid(b, cs.args[0]):
                    return "split_at(n) dominated by is_char_boundary(n) on the same str"
    return None


def _raw_local(b, op, bb):
    """the local an operand reads, seen through same-block single-definition copies (`_5 = copy _2; Lt(move _5, ..)`)"""
    l = b._op_local(op)
    hops = 0
    while l is not None and hops < 4:
        ds = [d for d in b.defs().get(l, ()) if d[2] != "partial"]
        if len(ds) == 1 and ds[0][2] == "assign" and ds[0][3]["k"] == "use" and b._op_local(ds[0][3]["op"]) is not None \
                and not b.local_name(l):
            l = b._op_local(ds[0][3]["op"])
            hops += 1
            continue
        break
    return l


def _below_something(b, op, bb):
    """`x + 1` cannot overflow where a dominating branch established `x < y` (or `y > x`) for some y of the same type and x
    is not written between that branch and the addition (the usual `while i < n { .. i += 1 }`)."""
    x = _raw_local(b, op, bb)
    if x is None:
        return None
    for gbb, vals, tgt in b.guards_of(bb):
        t = b.blocks[gbb]["term"]
        dl = b._op_local(t["discr"]) if isinstance(t.get("discr"), dict) else None
        if dl is None:
            continue
        ds = [d for d in b.defs().get(dl, ()) if d[2] != "partial"]
        if len(ds) != 1 or ds[0][2] != "assign" or ds[0][3]["k"] != "binop":
            continue
        rv = ds[0][3]
        taken_true = list(vals) != ["0"] and "0" not in [str(v) for v in vals]
        lt = (rv["op"] == "Lt" and _raw_local(b, rv["a"], gbb) == x) or (rv["op"] == "Gt" and _raw_local(b, rv["b"], gbb) == x)
        ge = (rv["op"] == "Ge" and _raw_local(b, rv["a"], gbb) == x) or (rv["op"] == "Le" and _raw_local(b, rv["b"], gbb) == x)
        if not ((lt and taken_true) or (ge and not taken_true and [str(v) for v in vals] == ["0"])):
            continue
        # no write of x on a path from the guarded edge to the addition that does not come back through the guard
        fwd = b.reachable_from(tgt, removed_blocks=(gbb,))
        between = {n for n in fwd if n == bb or bb in b.reachable_from(n, removed_blocks=(gbb,))}
        wr = [d for d in b.defs().get(x, ()) if d[0] in between and not (d[0] == bb)]
        same_bb = [d for d in b.defs().get(x, ()) if d[0] == bb and d[1] != "term"]
        # inside the addition's own block the checked add is the terminator's condition: statements of that block precede it
        if wr or any(True for d in same_bb):
            continue
        return "dominated by `x < y` with x unchanged since: x + 1 <= y fits the type"
    return None


def _discharge_range(b, s):
    t = s["term"]
    bb = s["bb"]
    cs = mir.CallSite(b, bb, t)
    if len(cs.args) < 2:
        return None
    ro = b.origin(cs.args[1])
    if ro[0] != "agg" or not (ro[1].get("adt") or "").startswith("core::ops::range::"):
        return None
    kind = ro[1]["adt"].rsplit("::", 1)[1]
    f = dict(zip(ro[1]["fields"], ro[2]))
    recv = b.origin(cs.args[0], through_calls=("deref", "deref_mut", "as_ref", "as_slice"))
    sid = _sid(b, recv, is_origin=True)
    # length knowledge about the receiver
    n_arr = None
    m = None
    pl = cs.args[0].get("c") or cs.args[0].get("m")
    st = cs.callee.get("self_ty") or ""
    m = re.search(r"^\[.*; (\d+)\]$", st)
    if m:
        n_arr = int(m.group(1))
    lo_len = n_arr if n_arr is not None else len_bounds(b, bb, sid)[0]
    start = ival(b, f["start"], bb) if "start" in f else (0, 0)
    end_o = f.get("end")
    if kind == "RangeFrom":
        if start is not None and start[0] >= 0 and start[1] <= lo_len:
            return "start <= %s <= length" % start[1]
        # `&s[1..]` right after `s.get(0)` returned Some on the same slice
        if start == (1, 1):
            for gbb, vals, n in b.guards_of(bb):
                so = b.switch_origin(gbb)
                if so[0] == "discr" and so[1][0] == "call" and so[1][1].callee.get("name") in ("get", "first") and list(vals) == ["1"]:
                    g = so[1][1]
                    if _sid(b, g.args[0]) == sid and (g.callee.get("name") == "first" or mir.o_const_value(b.origin(g.args[1])) == 0):
                        return "`[1..]` dominated by get(0) being Some on the same slice"
        return None
    if end_o is None:
        return None
    end = ival(b, end_o, bb)
    # end = min(len(this slice), ..)
    if end_o[0] == "call" and end_o[1].callee.get("name") == "min" and kind in ("RangeTo", "Range"):
        if any(_len_target(b, b.origin(a)) == sid for a in end_o[1].args) and (kind == "RangeTo" or (start is not None and start == (0, 0))):
            return "end = min(len, ..) <= len"
    # end relative to the length: len - c
    eo = end_o[1] if end_o[0] == "field" and end_o[1][0] == "binop" else end_o
    if eo[0] == "binop" and eo[1].startswith("Sub") and _len_target(b, eo[2]) == sid:
        c = mir.o_const_value(eo[3])
        if isinstance(c, int) and c >= 0 and lo_len >= c and start is not None and start[1] <= lo_len - c and start[0] >= 0:
            return "range [%s..len-%d] with length >= %s" % (start[1], c, lo_len)
    if end is not None and start is not None and 0 <= start[0] and start[1] <= end[0] and end[1] <= lo_len:
        return "range [%s..%s] within length >= %s" % (start[1], end[1], lo_len)
    # end guarded by `end <= len` and end = start + x
    for gbb, vals, n in b.guards_of(bb):
        so = b.switch_origin(gbb)
        if so[0] == "binop" and so[1] == "Le" and list(vals) != ["0"]:
            if mir.o_str(so[2]) == mir.o_str(end_o) and (_len_target(b, so[3]) == sid or (n_arr is not None and mir.o_const_value(so[3]) == n_arr)
                                                       or (n_arr is not None and array_len(b, so[3]) == n_arr)):
                e2 = end_o[1] if end_o[0] == "field" and end_o[1][0] == "binop" else end_o
                if kind == "RangeTo":
                    return "end <= length by the dominating guard"
                if e2[0] == "binop" and e2[1].startswith("Add") and "start" in f and mir.o_str(e2[2]) == mir.o_str(f["start"]):
                    return "end = start + n and end <= length by the dominating guard"
    return None


def cursor_pairing(b):
    """Cross-check of cursors and the sequences they walk (contradiction rule): a local that is compared with the length of
    one sequence but used to index (or range-index) a *different* one, which it is never compared with, is a slip -
    `b[ai..]` where `ai` is bounded by `a.len()`.  Returns (ok, detail, sites)."""
    def cursor_of(o):
        # the local a start/index value is read from (through Range/RangeFrom aggregates)
        if o[0] == "agg" and (o[1].get("adt") or "").split("::")[-1] in ("Range", "RangeFrom", "RangeInclusive"):
            f = dict(zip(o[1].get("fields") or [], o[2]))
            o = f.get("start", o)
        if o[0] == "local":
            return o[1]
        if o[0] == "phi" and len(o) > 2:
            return o[2]
        return None

    indexes = {}   # cursor local -> {container id: loc}
    compares = {}  # cursor local -> {container id}
    for bb, t in b.terminators():
        if b.blocks[bb]["cleanup"]:
            continue
        if t["k"] == "assert" and isinstance(t.get("msg"), dict) and t["msg"].get("k") == "bounds":
            cur = cursor_of(b.origin(t["msg"]["index"]))
            cont = _len_target(b, b.origin(t["msg"]["len"]))
            if cur is not None and cont is not None:
                indexes.setdefault(cur, {})[cont] = "%s:%s" % (b.file, t.get("line"))
        if t["k"] == "call" and t["callee"].get("name") in ("index", "index_mut", "get", "get_mut", "get_unchecked", "split_at") and len(t.get("args", ())) == 2:
            cs = mir.CallSite(b, bb, t)
            cur = cursor_of(b.origin(cs.args[1]))
            if cur is not None:
                indexes.setdefault(cur, {})[_sid(b, cs.args[0])] = cs.loc
    for bb, j, st in b.statements(normal_only=True):
        if st["k"] == "assign" and st["rv"]["k"] == "binop" and st["rv"]["op"] in ("Lt", "Le", "Gt", "Ge", "Eq", "Ne"):
            x, y = b.origin(st["rv"]["a"]), b.origin(st["rv"]["b"])
            for cur_o, len_o in ((x, y), (y, x)):
                cur = cursor_of(cur_o)
                cont = _len_target(b, len_o)
                if cur is not None and cont is not None:
                    compares.setdefault(cur, set()).add(cont)
    sites = []
    for cur, conts in indexes.items():
        cmp = compares.get(cur)
        if not cmp:
            continue
        for cont, loc in conts.items():
            sites.append(loc)
            if cont not in cmp:
                nm = b.local_name(cur) or "_%d" % cur
                return False, ("`%s` is bounded by the length of %s but indexes %s at %s: a cursor of one sequence is applied to another "
                               "(out-of-range panic or wrong elements when the two advance differently)"
                               % (nm, sorted(cmp), cont, loc)), [], loc
    return True, "", sites
