"""C04 — nested spans always form one consistent trace tree.

Decided: id derivation (new_child / new_root / current), writer-reader agreement between the keys
SpanCtxt::current pulls and the keys its Props impl emits (same constants, same-named fields), ids are
non-zero by type, the guard pushes the child context only when enabled (disabled frames add nothing),
the begin-span hook hands the runtime's ctxt/clock/rng and the completion hooks re-read the ambient
context of the runtime, the typed fast path of the thread-local buffer, and the frame bracket that makes
ids revert when a span ends (shared with C03)."""
import re

from . import c03, common, mir
from .mir import o_str

CTXT = "emit_core::ctxt::Ctxt"
PROPS = "emit_core::props::Props"
SC = "emit::span::SpanCtxt::"
GP = "emit::span::SpanGuard::<'a, T, P, F>::"


def self_field(o):
    r, names = mir.o_field_path(o)
    if r[0] == "param" and r[1] == 1:
        return names
    return None


OVERLAYS = ('K2b',)


def setup_before_begin_rule(chk, P, key):
    """Shared with C18 and C20 (a `setup` that makes an incoming traceparent current, or initialises the runtime slot, must have run before the span
    reads the ambient ids / evaluates its runtime)."""
    def setup_before_begin():
        """`#[emit::span(setup: ..)]`: the code the macro generates runs the setup closure *before* it begins the span - begin_span reads the
        ambient ids (and snapshots the frame), so incoming ids the setup puts in the context must already be there.  In both arms of the
        macro the setup tokens are spliced into the output ahead of the `__private_begin_span` call."""
        ev = []
        for fn in ("inject_sync", "inject_async"):
            k = "emit_macros::span::" + fn
            if not P.has_body(k):
                raise mir.AnchorMissing(k)
            b = P.body(k)
            # the setup parameter by position in the (shared) signature of the two arms: the Option<TokenStream> that is neither first nor last ...
            idx = [i + 1 for i in range(b.argc) if b.local_name(i + 1) == "setup_tokens"]
            if not idx:
                idx = [7] if b.argc >= 7 else []
            if not idx:
                raise mir.AnchorMissing("the setup parameter of %s" % fn)
            A = [c for c in b.calls(normal_only=True) if c.callee.get("name") == "to_tokens" and
                 any(l[0] == "param" and l[1] == b.key and l[2] == idx[0] for l in common.deep_roots(P, b, b.origin(c.args[0])))]
            B = [c for c in b.calls(normal_only=True) if c.callee.get("name") == "push_ident" and mir.o_const_value(b.origin(c.args[1])) == "__private_begin_span"]
            if len(A) != 1 or len(B) != 1:
                return False, "%s splices the setup tokens %d times and begins the span %d times (expected once each)" % (fn, len(A), len(B)), [], b.span
            if not b.dominates(A[0].bb, B[0].bb) or A[0].bb == B[0].bb:
                return False, ("%s emits the `setup` code after `__private_begin_span(..)`: the span is begun (ambient ids read, frame snapshotted) before "
                               "the setup has put the incoming ids into the context, so it starts a fresh trace and hides the incoming ids from its body" % fn), \
                    [], A[0].loc
            ev += [A[0].loc, B[0].loc]
        return True, "", ev
    chk.ob(key, "the span macro runs `setup` before it begins the span, in both the sync and the async arm", setup_before_begin)


def run(chk):
    P = mir.Program("K1")
    chk.use_program(P)
    chk.explain("Rules over built MIR of emit::span / macro_hooks / thread_local_ctxt: R1 new_child derives "
                "(trace_id.or_else(random), parent = own span_id, fresh span id) on every path, new_root likewise; R2 "
                "SpanCtxt::current pulls the three well-known keys into the like-named constructor parameters and the "
                "Props impl emits the same constants next to the same-named fields; R3 ids wrap NonZero integers and "
                "no unchecked constructor is used; R4 SpanGuard::new builds the child of the *current* context, shows "
                "the filter the span's ids and ambient props, and push_ctxt pushes on the enabled edge / opens a "
                "disabled frame otherwise; hooks pass the runtime's ctxt/clock/rng and completions emit through the "
                "runtime's ctxt; S5 typed fast path of ThreadLocalValue; frame bracket (ids revert when a span ends).")
    chk.trust("rustc nightly; Option::or_else, NonZero* contracts")
    chk.assume("distinctness of ids depends on the random source (not decided)")
    chk.exhaustive = True

    KEYS = {"trace_id": "trace_id", "span_parent": "span_parent", "span_id": "span_id"}

    # ---- R1 --------------------------------------------------------------------------------------------------------
    def new_child():
        b = P.body(SC + "new_child")
        ns = b.calls_to(path=SC + "new")
        if len(ns) != 1 or b.count_on_paths({ns[0].bb}) != (1, 1):
            return False, ("new_child must build the child with SpanCtxt::new on every path (found %d constructor sites, "
                           "paths %s): an early return would drop an incoming trace id or parent link"
                           % (len(ns), b.count_on_paths({c.bb for c in ns}) if ns else None)), [], b.span
        c = ns[0]
        for rb in b.return_blocks():
            for path in b.acyclic_paths(0, rb):
                r = mir.PathSummary(b, path).ret()
                if not (r[0] == "call" and r[1].bb == c.bb):
                    return False, "a path through new_child returns %s instead of the derived child" % o_str(r), [], b.span
        t = b.origin(c.args[0])
        if not mir.o_is_call(t, name="or_else") and not mir.o_is_call(t, name="or"):
            return False, "child trace id is %s, not `self.trace_id.or_else(random)`" % o_str(t), [], c.loc
        if self_field(b.origin(t[1].args[0])) != ["trace_id"]:
            return False, "the trace id that wins is %s, not the parent's own trace id" % o_str(b.origin(t[1].args[0])), [], c.loc
        clo = b.origin(t[1].args[1])
        if clo[0] == "agg" and clo[1].get("ak") == "closure":
            cb = P.body(clo[1]["def"])
            if not cb.calls_to(path_re=r"TraceId::random"):
                return False, "the fallback trace id is not TraceId::random", [], cb.span
        p = b.origin(c.args[1])
        if self_field(p) != ["span_id"]:
            return False, "child's parent id is %s, not the parent's span id" % o_str(p), [], c.loc
        s = b.origin(c.args[2])
        if not mir.o_is_call(s, name="random") or "SpanId" not in (s[1].callee.get("full") or ""):
            return False, "child's span id is %s, not a fresh SpanId::random" % o_str(s), [], c.loc
        return True, "", [c.loc]
    chk.ob("C04.R1:SpanCtxt::new_child", "child = (parent trace id or random, parent span id, fresh span id) on every path", new_child)

    def new_root():
        b = P.body(SC + "new_root")
        ns = b.calls_to(path=SC + "new")
        if len(ns) != 1 or b.count_on_paths({ns[0].bb}) != (1, 1):
            return False, "new_root must build with SpanCtxt::new", [], b.span
        c = ns[0]
        t, p, s = (b.origin(a) for a in c.args)
        if not (mir.o_is_call(t, name="random") and "TraceId" in (t[1].callee.get("full") or "")):
            return False, "root trace id is %s" % o_str(t), [], c.loc
        if not (p[0] == "agg" and p[1].get("variant") == "None"):
            return False, "root parent is %s, not None" % o_str(p), [], c.loc
        if not (mir.o_is_call(s, name="random") and "SpanId" in (s[1].callee.get("full") or "")):
            return False, "root span id is %s" % o_str(s), [], c.loc
        return True, "", [c.loc]
    chk.ob("C04.R1:SpanCtxt::new_root", "root = (random trace id, no parent, random span id)", new_root)

    def random_is_the_draw(which, gen):
        def f():
            """`TraceId::random` / `SpanId::random`: the id is the value drawn from the rng and nothing else - a zero (or failed) draw gives no id
            rather than a substitute.  A fallback constant (`unwrap_or(MIN)`, `| 1`, `max(1)`) makes two different draws map to one id: with a
            source that never repeats, two spans - or a span and its own parent - can still share an id."""
            b = P.body("emit::span::%s::random" % which)
            bodies = [b] + P.closures_of(b)
            draws = [(x, c) for x in bodies for c in x.calls(normal_only=True) if c.callee.get("name") == gen and (c.callee.get("trait") or c.callee.get("full") or "").find("Rng") >= 0]
            if len(draws) != 1:
                return False, "%s::random must draw from the rng at exactly one site (found %d)" % (which, len(draws)), [], b.span
            SUBST = ("unwrap_or", "unwrap_or_default", "unwrap_or_else", "or", "or_else", "max", "min", "clamp", "get_or_insert", "get_or_insert_with",
                     "map_or", "map_or_else", "saturating_add", "wrapping_add", "checked_add", "saturating_sub", "wrapping_sub", "new_unchecked", "xor", "insert")
            for x in bodies:
                rs = common.roots(x.origin(0))
                for c in x.calls(normal_only=True):
                    if ("callsite", c.bb) in rs and c.callee.get("name") in SUBST:
                        return False, ("%s::random passes the draw through `%s`: a zero or failed draw is replaced by a substitute value instead of giving "
                                       "no id, so distinct draws can yield equal ids" % (which, c.callee.get("name"))), [], c.loc
                for k, v in rs:
                    if k == "const" and isinstance(v, (int, bool)) or (k == "const" and isinstance(v, str) and re.search(r"::(MIN|MAX|ONE)$", v)):
                        return False, "%s::random mixes the constant %s into the id it returns" % (which, v), [], x.span
            if not any(("callsite", c.bb) in common.roots(x.origin(0)) for x, c in draws) and not any(x is not b for x, c in draws):
                return False, "the id returned by %s::random does not derive from the draw" % which, [], b.span
            return True, "", [draws[0][1].loc]
        return f
    chk.ob("C04.R1:TraceId::random", "a random trace id is exactly the rng's draw (none when the draw is zero or fails)", random_is_the_draw("TraceId", "gen_u128"))
    chk.ob("C04.R1:SpanId::random", "a random span id is exactly the rng's draw (none when the draw is zero or fails)", random_is_the_draw("SpanId", "gen_u64"))

    def ctor():
        b = P.body(SC + "new")
        r = b.origin(0)
        if r[0] != "agg":
            return False, "SpanCtxt::new returns %s" % o_str(r), [], b.span
        for f, o in zip(r[1]["fields"], r[2]):
            if not mir.o_is_param(o, name=f):
                return False, "field `%s` is initialised from %s, not the like-named parameter" % (f, o_str(o)), [], b.span
        return True, "", [b.span]
    chk.ob("C04.R2:SpanCtxt::new", "the constructor stores each id in the like-named field", ctor)

    for acc in ("trace_id", "span_parent", "span_id"):
        def accessor(acc=acc):
            b = P.body(SC + acc)
            o = b.origin(0, through_calls=("as_ref",))
            if self_field(o) != [acc]:
                return False, "SpanCtxt::%s() returns %s" % (acc, o_str(o)), [], b.span
            return True, "", [b.span]
        chk.ob("C04.R2:SpanCtxt::%s" % acc, "accessor returns the field of that name", accessor)

    # ---- R2 ---------------------------------------------------------------------------------------------------------
    def current():
        b = P.body(SC + "current")
        wc = b.calls_to(trait=CTXT, name="with_current")
        if len(wc) != 1 or not mir.o_is_param(b.origin(wc[0].args[0]), idx=1):
            return False, "current must read the given ctxt with with_current", [], b.span
        clo = b.origin(wc[0].args[1])
        cb = P.body(clo[1]["def"])
        ns = cb.calls_to(path=SC + "new")
        if len(ns) != 1:
            return False, "expected one SpanCtxt::new", [], cb.span
        nb = P.body(SC + "new")
        pnames = [nb.local_name(i + 1) for i in range(3)]
        for i, pn in enumerate(pnames):
            o = cb.origin(ns[0].args[i])
            if not (mir.o_is_call(o, name="pull", trait=PROPS)):
                return False, "parameter `%s` is %s, not pulled from the current props" % (pn, o_str(o)), [], ns[0].loc
            key = mir.o_const_value(cb.origin(o[1].args[1]))
            if key != KEYS[pn]:
                return False, ("SpanCtxt::current reads key `%s` into `%s`: reader and writer of the ambient ids disagree"
                               % (key, pn)), [], o[1].loc
            if not mir.o_is_param(cb.origin(o[1].args[0]), idx=2):
                return False, "pulls from %s, not the current props" % o_str(cb.origin(o[1].args[0])), [], o[1].loc
            want_ty = "TraceId" if pn == "trace_id" else "SpanId"
            if want_ty not in (o[1].callee.get("full") or ""):
                return False, "pulls `%s` as %s" % (pn, o[1].callee.get("full")), [], o[1].loc
        return True, "", [c.loc for c in cb.calls_to(trait=PROPS, name="pull")]
    chk.ob("C04.R2:SpanCtxt::current", "current pulls trace_id / span_parent / span_id into the like-named constructor parameters", current)

    def ctxt_props():
        b = P.impl_method(PROPS, "emit::span::SpanCtxt", "for_each")
        vis = [c for c in b.calls(normal_only=True) if c.callee.get("name") in ("call_mut", "call")]
        seen = {}
        for c in vis:
            tup = b.origin(c.args[1])
            if tup[0] != "agg" or len(tup[2]) != 2:
                return False, "visitor argument not a (key, value) pair", [], c.loc
            key = None
            for kk, vv in common.roots(tup[2][0]):
                if kk == "const" and isinstance(vv, str):
                    key = vv
            # the value derives from the Some payload of the matching field
            r, names = mir.o_field_path(b.origin(c.args[1]) if False else tup[2][1]) if False else (None, None)
            vr = tup[2][1]
            fld = None
            def walk(o, d=0):
                nonlocal fld
                if d > 20 or fld:
                    return
                if o[0] in ("field", "downcast", "index", "cast"):
                    rr, nn = mir.o_field_path(o)
                    if rr[0] == "param" and rr[1] == 1 and nn:
                        fld = nn[0]
                        return
                    walk(o[1], d + 1)
                elif o[0] == "call":
                    for a in o[1].args:
                        walk(b.origin(a), d + 1)
            walk(vr)
            seen[key] = fld
            if key not in KEYS:
                return False, "SpanCtxt emits unexpected key %r" % key, [], c.loc
            if fld != KEYS[key]:
                return False, ("SpanCtxt emits field `%s` under key `%s`: the writer disagrees with SpanCtxt::current, "
                               "children would attach to the wrong id" % (fld, key)), [], c.loc
        if set(seen) != set(KEYS):
            return False, "SpanCtxt must emit all of %s, emits %s" % (sorted(KEYS), sorted(map(str, seen))), [], b.span
        return True, "", [c.loc for c in vis]
    chk.ob("C04.R2:Props for SpanCtxt", "the props view emits each id under the key SpanCtxt::current reads it from", ctxt_props)

    # ---- R3 -----------------------------------------------------------------------------------------------------------
    def nonzero():
        for ty, inner in (("emit::span::TraceId", "NonZero<u128>"), ("emit::span::SpanId", "NonZero<u64>")):
            a = P.adt(ty)
            tys = [f["ty"] for v in a["variants"] for f in v["fields"]]
            if len(tys) != 1 or not re.search(r"NonZero(U128|U64|<u128>|<u64>)", tys[0]):
                return False, "%s wraps %s, not a NonZero integer: a zero id becomes representable" % (ty, tys), [], a["span"]
        bad = []
        for b in P.by_crate["emit"]:
            if b.file.endswith("src/span.rs"):
                for c in b.calls(normal_only=True):
                    if c.callee.get("name") == "new_unchecked" and "NonZero" in (c.callee.get("full") or ""):
                        bad.append(c)
        if bad:
            return False, "NonZero::new_unchecked used at %s" % bad[0].loc, [], bad[0].loc
        return True, "", ["emit::span::TraceId", "emit::span::SpanId"]
    chk.ob("C04.R3:ids-nonzero", "trace and span ids are non-zero by type (NonZero, no unchecked construction)", nonzero)

    # ---- R4 --------------------------------------------------------------------------------------------------------------
    def guard_new():
        b = P.body(GP + "new")
        nc = b.calls_to(path=SC + "new_child")
        if len(nc) != 1 or b.count_on_paths({nc[0].bb}) != (1, 1):
            return False, "SpanGuard::new must derive exactly one child context", [], b.span
        cur = b.origin(nc[0].args[0])
        if not mir.o_is_call(cur, path=SC + "current"):
            return False, "the child is derived from %s, not SpanCtxt::current(&ctxt)" % o_str(cur), [], nc[0].loc
        if not common.has_root(b.origin(cur[1].args[0]), "param", 2):
            return False, "current context is read from %s, not the ctxt argument" % o_str(b.origin(cur[1].args[0])), [], cur[1].loc
        if not mir.o_is_param(b.origin(nc[0].args[1]), name="rng"):
            return False, "ids are drawn from %s, not the rng argument" % o_str(b.origin(nc[0].args[1])), [], nc[0].loc
        # the guard's data.ctxt is that child
        data = None
        for bb, j, s in b.statements(normal_only=True):
            if s["k"] == "assign" and s["rv"]["k"] == "agg" and (s["rv"].get("adt") or "").endswith("SpanGuardData"):
                data = s["rv"]
        if data is None:
            raise mir.AnchorMissing("SpanGuardData construction in SpanGuard::new")
        fo = dict(zip(data["fields"], [b.origin(o) for o in data["ops"]]))
        if not (fo["ctxt"][0] == "call" and fo["ctxt"][1].bb == nc[0].bb):
            return False, "the guard stores %s as its span context, not the derived child" % o_str(fo["ctxt"]), [], nc[0].loc
        # filter sees the ids and the current ambient props
        wc = b.calls_to(trait=CTXT, name="with_current")
        if len(wc) != 1:
            return False, "expected one with_current around the filter", [], b.span
        clo = b.origin(wc[0].args[1])
        cb = P.body(clo[1]["def"])
        ms = cb.calls_to(trait="emit_core::filter::Filter", name="matches")
        if len(ms) != 1:
            return False, "filter not consulted exactly once", [], cb.span
        rr = common.roots(cb.origin(ms[0].args[1]))
        # one of the values shown to the filter is (a capture of) the derived child context - by provenance, not by variable name
        def shows_child(o, d=0):
            if d > 14:
                return False
            if o[0] == "capture":
                src, sb = common.capture_source(P, cb, o)
                return any(k == "callsite" and v == nc[0].bb for k, v in common.roots(src)) and sb.key == b.key
            if o[0] == "call":
                return any(shows_child(cb.origin(a), d + 1) for a in o[1].args)
            if o[0] in ("field", "downcast", "index", "cast"):
                return shows_child(o[1], d + 1)
            if o[0] == "agg":
                return any(shows_child(x, d + 1) for x in o[2])
            if o[0] == "phi":
                return any(shows_child(x, d + 1) for x in o[1])
            return False
        if not shows_child(cb.origin(ms[0].args[1])):
            return False, "the span filter is not shown the span's ids (the derived child context)", [], ms[0].loc
        if ("param", 2) not in rr:
            return False, "the span filter is not shown the current ambient props", [], ms[0].loc
        # the frame comes from push_ctxt on the new guard
        pc = b.calls_to(path_re=r"SpanGuard::<.*>::push_ctxt$")
        if len(pc) != 1 or b.count_on_paths({pc[0].bb}) != (1, 1):
            return False, "the frame must come from push_ctxt", [], b.span
        if not common.has_root(b.origin(pc[0].args[1]), "param", 2):
            return False, "push_ctxt is not given the ctxt argument", [], pc[0].loc
        # enabled exactly when the filter accepted: the guard gets Some(completion) only on the accept edge of that one decision
        aggs = [st for bb_, j_, st in b.statements(normal_only=True) if st["k"] == "assign" and st["rv"]["k"] == "agg"
                and (st["rv"].get("adt") or "").split("<")[0].endswith("span::SpanGuard")]
        if len(aggs) != 1:
            raise mir.AnchorMissing("the SpanGuard literal in SpanGuard::new")
        comp = dict(zip(aggs[0]["rv"]["fields"], aggs[0]["rv"]["ops"]))["completion"]
        pl = comp.get("m") or comp.get("c")
        somes = [d for d in b.defs().get(pl["l"], ()) if d[2] == "assign" and d[3].get("variant") == "Some"]
        nones = [d for d in b.defs().get(pl["l"], ()) if d[2] == "assign" and d[3].get("variant") == "None"]
        if len(somes) != 1 or len(nones) != 1:
            return False, "the guard's completion is not `if <accepted> { Some(completion) } else { None }`", [], b.span
        def decided_by_filter(bb_, want_true):
            for gbb, vals, n in b.guards_of(bb_):
                so = b.switch_origin(gbb)
                if so[0] == "call" and so[1].bb == wc[0].bb and (list(vals) != ["0"]) == want_true:
                    return True
            return False
        if not decided_by_filter(somes[0][0], True) or not decided_by_filter(nones[0][0], False):
            return False, ("a span is enabled (Some(completion), ids pushed) on an edge that is not the span filter's accept edge, or disabled on "
                           "one that is not its reject edge: a rejected span would contribute ids, or an accepted one none"), [], b.span
        return True, "", [nc[0].loc, ms[0].loc, pc[0].loc]
    chk.ob("C04.R4:SpanGuard::new", "the span context is the child of the *current* ambient context; the filter sees ids + ambient props", guard_new)

    def push_ctxt():
        b = P.body(GP + "push_ctxt")
        pushes = b.calls_to(path_re=r"^emit::frame::Frame::<C>::push$")
        dis = b.calls_to(path_re=r"^emit::frame::Frame::<C>::disabled$")
        if len(pushes) != 1 or len(dis) != 1:
            return False, "expected one Frame::push and one Frame::disabled (found %d / %d)" % (len(pushes), len(dis)), [], b.span
        en = [c for c in b.calls(normal_only=True) if c.callee.get("name") == "is_enabled"]
        if len(en) != 1:
            return False, "expected one is_enabled() test", [], b.span
        def edge(c):
            for bb, vals, n in b.guards_of(c.bb):
                so = b.switch_origin(bb)
                if so[0] == "call" and so[1].bb == en[0].bb:
                    return list(vals)
            return None
        ep, ed = edge(pushes[0]), edge(dis[0])
        if ep is None or ed is None:
            return False, "push/disabled are not control-dependent on is_enabled()", [], b.span
        if ep == ["0"] or ed != ["0"]:
            return False, ("a span rejected by the filter pushes its ids (push on %s, disabled on %s): children would "
                           "attach to a span that is never emitted" % (ep, ed)), [], pushes[0].loc
        for c in pushes + dis:
            pr = b.origin(c.args[1])
            if not mir.o_is_call(pr, name="and_props"):
                return False, "frame props are %s" % o_str(pr), [], c.loc
            a1 = b.origin(pr[1].args[1])
            r, names = mir.o_field_path(a1)
            if not (names and names[-1] == "ctxt"):
                return False, "the ids pushed are %s, not the guard's own span context" % o_str(a1), [], c.loc
            if not mir.o_is_param(b.origin(c.args[0]), idx=2):
                return False, "frame opened on %s" % o_str(b.origin(c.args[0])), [], c.loc
        return True, "", [pushes[0].loc, dis[0].loc]
    chk.ob("C04.R4:SpanGuard::push_ctxt", "the ids are pushed only for an enabled span; a disabled span opens a disabled frame", push_ctxt)

    def is_enabled():
        b = P.body(GP + "is_enabled")
        o = b.origin(0)
        if not (mir.o_is_call(o, name="is_some") and self_field(b.origin(o[1].args[0])) == ["completion"]):
            return False, "is_enabled() is %s, not completion.is_some()" % o_str(o), [], b.span
        return True, "", [b.span]
    chk.ob("C04.R4:SpanGuard::is_enabled", "is_enabled reflects the presence of the completion (the filter's decision)", is_enabled)

    def frame_ctor(name, method):
        def f():
            b = P.body("emit::frame::Frame::<C>::%s" % name)
            cs = b.calls_to(trait=CTXT, name=method)
            if len(cs) != 1 or b.count_on_paths({cs[0].bb}) != (1, 1):
                return False, "Frame::%s must open its scope with Ctxt::%s" % (name, method), [], b.span
            if not mir.o_is_param(b.origin(cs[0].args[0]), idx=1) or not mir.o_is_param(b.origin(cs[0].args[1]), idx=2):
                return False, "Ctxt::%s not called with (ctxt, props)" % method, [], cs[0].loc
            fp = b.calls_to(path_re=r"Frame::<C>::from_parts$")
            if len(fp) != 1 or not mir.o_is_param(b.origin(fp[0].args[0]), idx=1) or not (
                    b.origin(fp[0].args[1])[0] == "call" and b.origin(fp[0].args[1])[1].bb == cs[0].bb):
                return False, "the frame is not assembled from (ctxt, opened scope)", [], b.span
            return True, "", [cs[0].loc]
        return f
    chk.ob("C04.R4:Frame::push", "Frame::push opens with Ctxt::open_push", frame_ctor("push", "open_push"))
    chk.ob("C04.R4:Frame::disabled", "Frame::disabled opens with Ctxt::open_disabled", frame_ctor("disabled", "open_disabled"))
    chk.ob("C04.R4:Frame::root", "Frame::root opens with Ctxt::open_root", frame_ctor("root", "open_root"))

    # ---- hooks ----------------------------------------------------------------------------------------------------------
    def begin_span():
        b = P.body("emit::macro_hooks::__private_begin_span")
        ns = b.calls_to(path_re=r"SpanGuard::<.*>::new$")
        if len(ns) != 1 or b.count_on_paths({ns[0].bb}) != (1, 1):
            return False, "__private_begin_span must create the guard with SpanGuard::new", [], b.span
        c = ns[0]
        for i, acc in ((1, "ctxt"), (2, "clock"), (3, "rng")):
            o = b.origin(c.args[i])
            if not (mir.o_is_call(o, name=acc) and mir.o_is_param(b.origin(o[1].args[0]), name="rt")):
                return False, "argument %d of SpanGuard::new is %s, expected rt.%s()" % (i, o_str(o), acc), [], c.loc
        f = b.origin(c.args[0])
        if not (f[0] == "agg" and (f[1].get("adt") or "").endswith("__PrivateBeginSpanFilter")):
            return False, "span filter is %s" % o_str(f), [], c.loc
        ff = dict(zip(f[1]["fields"], f[2]))
        for nm in ("rt", "when", "lvl"):
            if not mir.o_is_param(ff[nm], name=nm):
                return False, "filter field `%s` is %s" % (nm, o_str(ff[nm])), [], c.loc
        if not mir.o_is_param(b.origin(c.args[5]), name="span_ctxt_props"):
            return False, "ctxt props argument is %s" % o_str(b.origin(c.args[5])), [], c.loc
        return True, "", [c.loc]
    chk.ob("C04.R6:__private_begin_span", "the span hook passes rt.ctxt(), rt.clock(), rt.rng() and the when-aware filter to SpanGuard::new", begin_span)

    def completion_emit(ty):
        def f():
            b = P.impl_method("emit::span::completion::Completion", ty, "complete")
            cs = b.calls_to(path="emit_core::emit")
            if len(cs) != 1 or b.count_on_paths({cs[0].bb}) != (1, 1):
                return False, "must emit exactly once", [], b.span
            c = cs[0]
            for i, acc in ((0, "emitter"), (2, "ctxt"), (3, "clock")):
                o = b.origin(c.args[i])
                if not (mir.o_is_call(o, name=acc) and self_field(b.origin(o[1].args[0], through_calls=("deref",))) == ["rt"]):
                    return False, "argument %d of emit_core::emit is %s, expected self.rt.%s()" % (i, o_str(o), acc), [], c.loc
            if not common.has_root(b.origin(c.args[4]), "param", 2):
                return False, "the completed span is not what is emitted", [], c.loc
            return True, "", [c.loc]
        return f
    chk.ob("C04.S4:__PrivateCompleteSpanOk", "Ok completion emits through the runtime's emitter with the runtime's ambient ctxt",
           completion_emit("emit::macro_hooks::__PrivateCompleteSpanOk<'a, 'b, E, F, C, T, R, CL>"))
    chk.ob("C04.S4:__PrivateCompleteSpanErr", "Err completion emits through the runtime's emitter with the runtime's ambient ctxt",
           completion_emit("emit::macro_hooks::__PrivateCompleteSpanErr<'a, 'b, E, F, C, T, R, CL, CE>"))

    def complete_default_ctxt():
        b = P.impl_method("emit::span::completion::Completion", "emit::macro_hooks::__PrivateCompleteSpan<'a, 'b, E, F, C, T, R, CL, CLP>", "complete")
        ns = b.calls_to(path_re=r"completion::Default::<.*>::new$")
        if len(ns) != 1:
            return False, "expected Default::new", [], b.span
        for i, acc in ((0, "emitter"), (1, "ctxt")):
            o = b.origin(ns[0].args[i])
            if not (mir.o_is_call(o, name=acc) and self_field(b.origin(o[1].args[0], through_calls=("deref",))) == ["rt"]):
                return False, "Default::new argument %d is %s, expected self.rt.%s()" % (i, o_str(o), acc), [], ns[0].loc
        return True, "", [ns[0].loc]
    chk.ob("C04.S4:__PrivateCompleteSpan", "the default macro completion is built on the runtime's emitter and ctxt", complete_default_ctxt)

    # ---- S5 ------------------------------------------------------------------------------------------------------------------
    def tlv_from():
        b = P.body("emit::platform::thread_local_ctxt::ThreadLocalValue::from_value")
        dcs = [c for c in b.calls(normal_only=True) if c.callee.get("name") == "downcast_ref"]
        tys = []
        for c in dcs:
            m = re.search(r"downcast_ref::<([^>]+)>", c.callee.get("full") or "")
            tys.append(m.group(1) if m else None)
        if sorted(map(str, tys)) != ["emit::span::SpanId", "emit::span::TraceId"]:
            return False, "typed fast path tries %s, expected TraceId and SpanId" % tys, [], b.span
        # each variant is built from the matching downcast
        for bb, j, s in b.statements(normal_only=True):
            if s["k"] == "assign" and s["rv"]["k"] == "agg" and (s["rv"].get("adt") or "").endswith("ThreadLocalValue"):
                v = s["rv"]["variant"]
                o = b.origin(s["rv"]["ops"][0])
                rr = common.roots(o)
                if v in ("TraceId", "SpanId"):
                    src = [c for c in dcs if ("callsite", c.bb) in rr]
                    if len(src) != 1 or ("::%s" % v) not in (src[0].callee.get("full") or ""):
                        return False, "variant %s is built from %s" % (v, o_str(o)), [], "%s:%s" % (b.file, s.get("line"))
                elif v == "Any":
                    if not mir.o_is_call(o, name="to_shared"):
                        return False, "the fallback buffers with %s, not to_shared (structure-preserving)" % o_str(o), [], "%s:%s" % (b.file, s.get("line"))
        return True, "", [c.loc for c in dcs]
    chk.ob("C04.S5:ThreadLocalValue::from_value", "ids keep their type in the ambient buffer: TraceId / SpanId fast paths, to_shared otherwise", tlv_from)

    def tlv_to():
        b = P.impl_method("emit_core::value::ToValue", "emit::platform::thread_local_ctxt::ThreadLocalValue", "to_value")
        tv = b.calls_to(name="to_value")
        if len(tv) != 3:
            return False, "expected one to_value per variant, found %d" % len(tv), [], b.span
        for c in tv:
            o = b.origin(c.args[0])
            dn = None
            x = o
            while x[0] in ("field", "downcast", "index"):
                if x[0] == "downcast":
                    dn = x[2]
                x = x[1]
            if not (x[0] == "param" and x[1] == 1 and dn):
                return False, "to_value on %s" % o_str(o), [], c.loc
            st = c.callee.get("self_ty") or ""
            want = {"TraceId": "emit::span::TraceId", "SpanId": "emit::span::SpanId", "Any": "OwnedValue"}[dn]
            if want not in st:
                return False, "variant %s yields a %s" % (dn, st), [], c.loc
        return True, "", [c.loc for c in tv]
    chk.ob("C04.S5:ThreadLocalValue::to_value", "each buffered variant yields its own payload", tlv_to)

    # ---- the bracket that makes ids revert (shared with C03) -------------------------------------------------------------------
    c03.bracket_rules(chk, P, "C04")
    # "a span rejected by the filter contributes no ids": the disabled frame is open_push(Empty) on every Ctxt, also
    # through wrappers and the type-erased bridge the global runtime uses (shared with C03)
    c03.open_disabled_rule(chk, P, "C04")
    c03.ctxt_forwarding(chk, P, "C04", 28)
    c03.option_ctxt_rules(chk, P, "C04")
    from . import witness
    witness.witness_rule(chk, "C04", 2)

    def who_may():
        bad = []
        n = 0
        for b in P.by_crate["emit"]:
            for c in b.calls(normal_only=True):
                if c.callee.get("trait") == CTXT and c.callee.get("name") in ("enter", "exit"):
                    n += 1
                    root = P.bodies.get(b.root_key) if b.root_key else b
                    ok = (root is not None and root.trait == CTXT and root.method == c.callee["name"]) or \
                         (mir._strip_lifetimes(b.key) == "emit::frame::Frame::<C>::enter" and c.callee["name"] == "enter") or \
                         (b.key.startswith("<emit::frame::EnterGuard<") and b.method == "drop" and c.callee["name"] == "exit")
                    if not ok:
                        bad.append((b.key, c))
        if bad:
            k, c = bad[0]
            return False, ("%s calls Ctxt::%s by hand at %s: a span's frame is then not exited when its body panics, and the "
                           "ambient ids do not revert to the parent's" % (k, c.callee["name"], c.loc)), [], c.loc
        return True, "", ["%d direct enter/exit sites, all in Frame::enter / EnterGuard::drop / Ctxt impls" % n]
    chk.ob("C04.R3:who-may-enter-exit", "span frames are entered/exited only through the RAII guard (ids revert on every exit path)", who_may)

    common.hex_id_fromvalue_rule(chk, P, "C04")
    # incoming ids given as hex strings: the id hex codec (shared with C15); a span the filter rejected never completes (shared with C05)
    from . import c15, c05
    c15.id_hex_rules(chk, P, "C04.hex", span_only=True)
    c05.completion_rules(chk, P, "C04.completion")
    # macro/runtime boundary: what the expansion passes at each named hook parameter (read off emit_macros' quote! templates)
    from . import quotes
    quotes.boundary_rule(chk, P, "C04", {"__private_begin_span"}, 3)
    # "when a span ends the ambient ids revert to its parent's", also for carried frames: the default context's swap / snapshot rules
    if not getattr(chk, "_overlay", None):
        c03.thread_local_rules(chk, P, "C04.tl")
        # incoming ids reach the context by enumeration (open_push walks the props it is given): a props list that ends its own enumeration early
        # drops the trace id of `props! { trace_id, span_id: None }` (shared with C02)
        from . import c02
        c02.no_truncating_adaptors_rule(chk, P, "C04.R5:no-truncating-adaptors")
        c02.loop_exit_rule(chk, P, "C04.R5:loop-exits")

    setup_before_begin_rule(chk, P, "C04.S4.macro:setup-before-begin")
    common.arg_agreement_rule(chk, P, "C04", [("emit", "src/span.rs"), ("emit", "src/macro_hooks.rs"),
                                               ("emit_macros", "src/span.rs"), ("emit", "src/frame.rs")], 20)
    if True:
        from . import corpus
        corpus.span_expansion_rules(chk, "C04")
    # span ids come from the runtime's rng, which emit reaches through references and bridges
    common.wrapper_family_rule(chk, P, "C04", "emit_core::rng::Rng", 4, synonyms={"fill": ("dispatch_gen",)})
    return chk
