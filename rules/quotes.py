"""Reading `quote!` templates of the proc-macro crate off its MIR.

`quote!( path::hook(#a, #b, lit) )` expands to straight-line code: `push_ident(&mut s, "hook")`, then a fresh
`TokenStream::new()` filled with `ToTokens::to_tokens(&a, &mut inner)`, `push_comma(&mut inner)`, ... and finally
`push_group(&mut s, Parenthesis, inner)`.  This module recovers, per function of emit_macros, the calls the generated
code will make to the `__private_*` hooks of the `emit` crate: hook name and, per argument position, the operand(s)
interpolated there.  That makes the macro/runtime boundary checkable like an ordinary call: which of the macro
function's values flows into which *named* parameter of the hook."""
from . import mir


def _stream_id(b, op):
    """Identity of the TokenStream a `&mut` operand points at: the local that holds it."""
    seen = 0
    while seen < 12:
        seen += 1
        pl = op.get("c") or op.get("m") if isinstance(op, dict) else None
        if pl is None:
            return None
        l = pl["l"]
        ds = [d for d in b.defs().get(l, ()) if d[2] != "partial" and not b.blocks[d[0]]["cleanup"]]
        if len(ds) == 1 and ds[0][2] == "assign" and ds[0][3]["k"] in ("ref", "use"):
            rv = ds[0][3]
            if rv["k"] == "ref":
                op = {"c": {"l": rv["place"]["l"]}}
                if b.local_ty(rv["place"]["l"]).endswith("TokenStream") and not b.local_ty(rv["place"]["l"]).startswith("&"):
                    return rv["place"]["l"]
                continue
            op = rv["op"]
            continue
        return l
    return None


def hook_calls(b):
    """[(hook_name, [ [operand, ...] per positional argument ], loc, literal_idents_per_arg)] for every
    `<ident starting with __private>( ... )` group a quote! in body `b` emits."""
    out = []
    last_ident = {}    # stream local -> last pushed identifier
    items = {}         # stream local -> list of ("tok", operand) | ("comma",) | ("ident", text) | ("other",)
    for c in sorted(b.calls(normal_only=True), key=lambda c: c.bb):
        p = c.callee.get("path") or ""
        nm = c.callee.get("name")
        if p.startswith("quote::__private::push_") or (p.startswith("quote::__private::") and nm and nm.startswith("push_")):
            sid = _stream_id(b, c.args[0])
            if nm in ("push_ident", "push_ident_spanned"):
                v = mir.o_const_value(b.origin(c.args[-1]))
                last_ident[sid] = v
                items.setdefault(sid, []).append(("ident", v))
            elif nm in ("push_comma", "push_comma_spanned"):
                items.setdefault(sid, []).append(("comma",))
            elif nm in ("push_group", "push_group_spanned"):
                inner = _stream_id(b, c.args[-1])
                hook = last_ident.get(sid)
                if isinstance(hook, str) and hook.startswith("__private"):
                    args, cur, lits = [], [], []
                    curl = []
                    for it in items.get(inner, []):
                        if it[0] == "comma":
                            args.append(cur)
                            lits.append(curl)
                            cur, curl = [], []
                        elif it[0] == "tok":
                            cur.append(it[1])
                        elif it[0] == "ident":
                            curl.append(it[1])
                        else:
                            curl.append(None)
                    if cur or curl:
                        args.append(cur)
                        lits.append(curl)
                    out.append((hook, args, c.loc, lits))
                items.setdefault(sid, []).append(("other",))
                last_ident[sid] = None
            else:
                items.setdefault(sid, []).append(("other",))
                if nm not in ("push_colon2", "push_colon2_spanned", "push_dot", "push_and", "push_pound"):
                    pass
        elif nm == "to_tokens" and "ToTokens" in (c.callee.get("trait") or p):
            sid = _stream_id(b, c.args[1])
            items.setdefault(sid, []).append(("tok", c.args[0]))
    return out


def hook_params(P, hook):
    """Parameter names of the hook function/method in the `emit` crate (first match by final name)."""
    cands = [x for x in P.by_crate.get("emit", ()) if not x.is_closure and (x.key.endswith("::" + hook) or x.method == hook)]
    if not cands:
        return None
    x = cands[0]
    return [x.local_name(i + 1) for i in range(x.argc)]


# macro-side variable stem -> hook parameter name, where the two sides use different words for the same thing
SYNONYMS = {
    "template": "tpl", "ctxt_props": "span_ctxt_props", "span_name": "name", "default_lvl": "lvl",
    "default_completion": "default_complete",
}


def _stem(name):
    if not name:
        return None
    s = name
    for suf in ("_tokens", "_expr", "_ts"):
        if s.endswith(suf):
            s = s[: -len(suf)]
    return SYNONYMS.get(s, s)


def boundary_rule(chk, P, prefix, hooks, floor):
    """For every `__private_*` hook call a quote! of emit_macros emits (restricted to `hooks`, a set of names or None):
    the number of arguments equals the hook's parameter count, and a macro variable whose name says which hook
    parameter it is meant for (`lvl_tokens` -> `lvl`) is interpolated at that parameter's position, never at the
    position of a different named parameter."""
    from . import common
    n = 0
    for b in sorted(P.by_crate.get("emit_macros", ()), key=lambda x: x.key):
        for hook, args, loc, lits in hook_calls(b):
            if hooks is not None and hook not in hooks:
                continue
            pn = hook_params(P, hook)
            if pn is None or pn[:1] == ["self"] or hook == "__private":
                continue
            n += 1

            def f(b=b, hook=hook, args=args, loc=loc, pn=pn):
                if len(args) != len(pn):
                    return False, "the generated call of %s at %s passes %d arguments, the hook takes %d (%s)" % (hook, loc, len(args), len(pn), pn), [], loc
                for i, ops in enumerate(args):
                    for op in ops:
                        st = _stem(common.named_source(b, op))
                        if st and st in pn and pn[i] != st:
                            return False, ("the generated call of %s at %s interpolates `%s` at the position of parameter `%s`: the "
                                           "expansion hands the hook the wrong value for that parameter" % (hook, loc, common.named_source(b, op), pn[i])), [], loc
                return True, "", [loc]
            chk.ob("%s.macro-boundary:%s->%s@%s" % (prefix, b.key.replace("emit_macros::", ""), hook, "".join(ch for ch in loc.split(":")[0][-12:] if ch.isalnum())),
                   "generated hook calls pass each like-named macro value at the like-named hook parameter", f)
    chk.floor("generated __private_* hook calls read off quote! templates", n, floor)


def flows_rule(chk, P, prefix, fn_key, hook, position, must, must_not):
    """In macro function `fn_key`, the tokens interpolated at `position` (a hook parameter name) of `hook` derive from the
    function parameter(s) whose name contains one of `must`, and from no parameter whose name contains one of `must_not`."""
    from . import common

    def f():
        b = P.body(fn_key)
        hs = [h for h in hook_calls(b) if h[0] == hook]
        if not hs:
            raise mir.AnchorMissing("generated call of %s in %s" % (hook, fn_key))
        pn = hook_params(P, hook)
        if pn is None or position not in pn:
            raise mir.AnchorMissing("parameter %s of %s" % (position, hook))
        i = pn.index(position)
        for hk, args, loc, lits in hs:
            if i >= len(args) or not args[i]:
                return False, "nothing is interpolated at `%s` of %s (%s)" % (position, hook, loc), [], loc
            names = set()
            for op in args[i]:
                for k, v in common.roots(b.origin(op)):
                    if k == "param":
                        names.add(b.local_name(v) or "#%d" % v)
            if not any(m in nm for nm in names for m in must):
                return False, "the tokens passed as `%s` of %s derive from %s, not from the %s argument" % (position, hook, sorted(names), "/".join(must)), [], loc
            bad = [nm for nm in names if any(m in nm for m in must_not) and not any(m in nm for m in must)]
            if bad:
                return False, ("the tokens passed as `%s` of %s also derive from `%s`: the generated code would hand the hook a value "
                               "meant for a different parameter whenever the `%s` argument is absent" % (position, hook, bad[0], position)), [], loc
        return True, "", [h[2] for h in hs]
    chk.ob("%s.macro-flow:%s.%s" % (prefix, hook, position), "the value the expansion passes for this hook parameter comes from the like-named macro argument only", f)


def stream_idents(b):
    """{stream local: [identifier, ...]} for every TokenStream a quote! in `b` fills with bare identifiers."""
    out = {}
    for c in sorted(b.calls(normal_only=True), key=lambda c: c.bb):
        if (c.callee.get("name") or "") in ("push_ident", "push_ident_spanned") and (c.callee.get("path") or "").startswith("quote::__private::"):
            sid = _stream_id(b, c.args[0])
            out.setdefault(sid, []).append(mir.o_const_value(b.origin(c.args[-1])))
    return out


def operand_stream(b, op):
    """The TokenStream local a by-value operand (`move _n`, possibly through moves) names."""
    seen = 0
    while seen < 8:
        seen += 1
        pl = op.get("c") or op.get("m") if isinstance(op, dict) else None
        if pl is None:
            return None
        l = pl["l"]
        ds = [d for d in b.defs().get(l, ()) if d[2] != "partial" and not b.blocks[d[0]]["cleanup"]]
        if len(ds) == 1 and ds[0][2] == "assign" and ds[0][3]["k"] == "use":
            op = ds[0][3]["op"]
            continue
        return l
    return None
