"""C18 — a sampling decision is made once per trace and governs everything inside it."""
import re

from . import common, mir
from .mir import o_str

TP = "emit_traceparent::"
CTXT = "emit_core::ctxt::Ctxt"
FILTER = "emit_core::filter::Filter"
TCTXT = "emit_traceparent::TraceparentCtxt<C>"


def field_names(o):
    out = []
    x = o
    while x[0] in ("field", "downcast", "index", "cast"):
        if x[0] == "field":
            out.append(x[2])
        x = x[1]
    return list(reversed(out)), x


def run(chk):
    P = mir.Program("K1")
    chk.use_program(P)
    chk.explain("Rules over built MIR of emit_traceparent: R1 in incoming_traceparent the sampler closure is called only on the arm "
                "where no *valid* active traceparent exists (filter on Traceparent::is_valid, which requires both ids) and the "
                "incoming flags allow sampling; the child arm builds flags as active.flags & incoming and keeps trace id, "
                "tracestate and parent from the active one; R2 Some(sampler) reaches incoming_traceparent only from "
                "TraceparentFilter::matches under is_span_filter(); the three open_* pass None; R3 the filter returns the incoming "
                "flag for spans and true otherwise; InSampledTraceFilter returns the active flag else its configured default; R4 "
                "enter and exit both do `frame.slot = set_active_traceparent(frame.slot.take())` under frame.active and then "
                "forward to the inner ctxt's same method; set_active_traceparent is mem::replace on the thread-local; R5 "
                "with_current synthesises SpanCtxt(trace_id, span_parent, span_id) only when sampled, else empty; the props view "
                "emits synthesised ids before inner props and ExcludeTraceparentProps drops the id keys when `check`; R6 a pushed "
                "header keeps a span parent only when it belongs to the same trace.")
    chk.trust("rustc nightly; thread_local!, RefCell, mem::replace, Option::take/filter contracts")
    chk.assume("'exactly once per trace' across threads as a count follows from R1+R2 and C03 (paper step)")
    chk.exhaustive = True

    INC = TP + "incoming_traceparent"

    # ---- R1 ------------------------------------------------------------------------------------------------------
    def r1():
        b = P.body(INC)
        sc = [c for c in b.calls(normal_only=True) if c.callee.get("name") in ("call", "call_mut", "call_once")
              and common.has_root(b.origin(c.args[0]), "param", 1)]
        if len(sc) != 1:
            return False, "expected exactly one call of the sampler in incoming_traceparent, found %d" % len(sc), [], b.span
        s = sc[0]
        if b.count_on_paths({s.bb})[1] > 1:
            return False, "the sampler can run more than once per decision", [], s.loc
        # the `active` value: get_active_traceparent().filter(|a| a.traceparent.is_valid())
        ga = b.calls_to(path=TP + "get_active_traceparent")
        if len(ga) != 1:
            return False, "expected one read of the active traceparent", [], b.span
        fl = [c for c in b.calls(normal_only=True) if c.callee.get("name") == "filter" and common.has_root(b.origin(c.args[0]), "callsite", ga[0].bb)]
        if len(fl) != 1:
            return False, "the active traceparent is not filtered for validity", [], ga[0].loc
        clo = b.origin(fl[0].args[1])
        if clo[0] != "agg" or clo[1].get("ak") != "closure":
            return False, "validity filter is not a closure", [], fl[0].loc
        cb = P.body(clo[1]["def"])
        ro = cb.origin(0)
        if not (mir.o_is_call(ro, path=TP + "Traceparent::is_valid")):
            names = [c.callee.get("name") for c in cb.calls(normal_only=True)]
            return False, ("an active traceparent counts as a parent when %s (%s) rather than when Traceparent::is_valid(): a header "
                           "with a trace id but no (all-zero) span id would be treated as the parent, its flag inherited and the "
                           "sampler skipped" % (o_str(ro), names)), [], cb.span
        iv = P.body(TP + "Traceparent::is_valid")
        need = set()
        for c in iv.calls(normal_only=True):
            if c.callee.get("name") == "is_some":
                need.add((mir.o_field_path(iv.origin(c.args[0]))[1] or [None])[-1])
        if need != {"trace_id", "span_id"}:
            return False, "Traceparent::is_valid requires %s, not both trace_id and span_id" % sorted(map(str, need)), [], iv.span
        # sampler guarded by: active is None (discr == 0) and trace_flags.is_sampled()
        g_active = g_sampled = False
        for gbb, vals, n in b.guards_of(s.bb):
            so = b.switch_origin(gbb)
            if so[0] == "discr":
                x = so[1]
                while x[0] in ("field", "downcast", "index"):
                    x = x[1]
                if x[0] == "call" and x[1].bb == fl[0].bb:
                    if list(vals) == ["1"]:
                        return False, "the sampler runs on the arm where a valid active traceparent exists (a child span)", [], s.loc
                    g_active = True
                if x[0] in ("local", "phi") and any(d[2] == "call" and d[0] == fl[0].bb for d in b.defs().get(x[1] if x[0] == "local" else x[2], ())):
                    if list(vals) == ["1"]:
                        return False, "the sampler runs on the arm where a valid active traceparent exists (a child span)", [], s.loc
                    g_active = True
            if so[0] == "call" and so[1].callee.get("name") == "is_sampled" and list(vals) != ["0"]:
                if common.has_root(b.origin(so[1].args[0]), "param", 3):
                    g_sampled = True
        if not g_active:
            return False, "the sampler call is not control-dependent on there being no valid active traceparent (root of a new trace)", [], s.loc
        if not g_sampled:
            return False, "the sampler runs although the incoming flags do not allow sampling", [], s.loc
        # what the sampler is shown: SpanCtxt::new(trace_id, None, Some(span_id))
        return True, "", [s.loc, fl[0].loc]
    chk.ob("C18.R1:sampler-only-at-root", "the sampler runs only where no valid active traceparent exists and the incoming flags allow sampling", r1)

    def child_arm():
        b = P.body(INC)
        aggs = [(bb, s) for bb, j, s in b.statements(normal_only=True) if s["k"] == "assign" and s["rv"]["k"] == "agg"
                and (s["rv"].get("adt") or "").endswith("ActiveTraceparent")]
        if len(aggs) != 2:
            return False, "expected the child and the root construction of ActiveTraceparent", [], b.span
        fl = [c for c in b.calls(normal_only=True) if c.callee.get("name") == "filter"][0]
        child = root = None
        for bb, s in aggs:
            fo = dict(zip(s["rv"]["fields"], [b.origin(o) for o in s["rv"]["ops"]]))
            sp = fo["span_parent"]
            if sp[0] == "agg" and sp[1].get("variant") == "None":
                root = (bb, s, fo)
            else:
                child = (bb, s, fo)
        if child is None or root is None:
            return False, "child/root arms not recognised", [], b.span
        bb, s, fo = child
        tp = fo["traceparent"]
        if not mir.o_is_call(tp, path=TP + "Traceparent::new"):
            return False, "child traceparent is %s" % o_str(tp), [], b.span
        a = [b.origin(x) for x in tp[1].args]
        n0, _ = field_names(a[0])
        if n0[-2:] != ["traceparent", "trace_id"]:
            return False, "a child's trace id is %s, not the active trace's" % o_str(a[0]), [], tp[1].loc
        if not (a[1][0] == "agg" and a[1][1].get("variant") == "Some"):
            return False, "a child's span id is %s" % o_str(a[1]), [], tp[1].loc
        fl_o = a[2]
        if not (fl_o[0] == "call" and fl_o[1].callee.get("name") == "bitand"):
            return False, ("a child's flags are %s; they must be inherited from the active traceparent "
                           "(active.trace_flags & incoming)" % o_str(fl_o)), [], tp[1].loc
        sides = [field_names(b.origin(x))[0] for x in fl_o[1].args]
        if ["traceparent", "trace_flags"] not in [x[-2:] for x in sides]:
            return False, "a child's flags do not include the active trace's flags: %s" % sides, [], fl_o[1].loc
        if field_names(fo["span_parent"])[0][-2:] != ["traceparent", "span_id"]:
            return False, "a child's parent is %s, not the active span id" % o_str(fo["span_parent"]), [], b.span
        if field_names(fo["tracestate"])[0][-1:] != ["tracestate"]:
            return False, "a child's tracestate is not inherited", [], b.span
        # root arm: flags from sampler decision
        rb, rs, rfo = root
        return True, "", ["%s:%s" % (b.file, s.get("line")), "%s:%s" % (b.file, rs.get("line"))]
    chk.ob("C18.R1:child-inherits", "a child span keeps the active trace id, tracestate and flags (& incoming) and takes the active span as parent", child_arm)

    # ---- R2 -------------------------------------------------------------------------------------------------------
    def r2():
        sites = []
        for b in P.by_crate["emit_traceparent"]:
            for c in b.calls_to(path=INC):
                sites.append((b, c))
        if len(sites) != 4:
            return False, "expected four callers of incoming_traceparent (three open_* and the filter), found %d" % len(sites), [], None
        for b, c in sites:
            so = b.origin(c.args[0])
            is_none = so[0] == "agg" and so[1].get("variant") == "None"
            owner = (P.bodies.get(b.root_key) or b) if b.root_key else b
            if owner.trait == CTXT:
                if not is_none:
                    return False, "%s passes a sampler (%s) when opening a frame: the sampler must only be consulted by the span filter" % (owner.key, o_str(so)), [], c.loc
                fl = b.origin(c.args[2])
                want = {"open_root": "ALL", "open_push": "ALL", "open_disabled": "EMPTY"}.get(owner.method)
                d = fl[1].get("def") if fl[0] == "const" else None
                if want and not (d or "").endswith("TraceFlags::" + want):
                    return False, "%s passes flags %s, expected TraceFlags::%s" % (owner.method, d or o_str(fl), want), [], c.loc
            elif owner.trait == FILTER and "TraceparentFilter" in (owner.self_ty or ""):
                if not (mir.o_is_call(so, name="as_ref") and mir.o_field_path(b.origin(so[1].args[0]))[1] == ["sampler"]):
                    return False, "the filter passes %s, not its own sampler" % o_str(so), [], c.loc
                ok = False
                for gbb, vals, n in b.guards_of(c.bb):
                    s2 = b.switch_origin(gbb)
                    if s2[0] == "call" and s2[1].callee.get("name") == "matches" and mir.o_is_call(b.origin(s2[1].args[0]), path="emit::kind::is_span_filter") and list(vals) != ["0"]:
                        ok = True
                if not ok:
                    return False, "the sampler is consulted for events that are not spans", [], c.loc
            else:
                return False, "%s calls incoming_traceparent" % owner.key, [], c.loc
        return True, "", [c.loc for b, c in sites]
    chk.ob("C18.R2:who-supplies-a-sampler", "only the span filter passes a sampler, and only for span events; opening frames passes None", r2)

    # ---- R3 --------------------------------------------------------------------------------------------------------
    def r3():
        b = P.impl_method(FILTER, "emit_traceparent::TraceparentFilter<S>", "matches")
        for rb in b.return_blocks():
            for path in b.acyclic_paths(0, rb, limit=5000):
                ps = mir.PathSummary(b, path)
                r = ps.ret()
                inc = [c for c in ps.calls(lambda c: c.callee.get("path") == INC)]
                v = mir.o_const_value(r)
                is_span = None
                for sbb, o, vals in ps.decisions():
                    if o[0] == "call" and o[1].callee.get("name") == "matches" and "KindFilter" in (o[1].callee.get("self_ty") or o[1].callee.get("full") or ""):
                        is_span = tuple(vals) not in (("0",), (0,))
                if is_span and not inc:
                    return False, ("a span event is decided (%s) without consulting incoming_traceparent: the sampler would be skipped for a root "
                                   "span - e.g. under a sampled but invalid (all-zero) active traceparent" % o_str(r)), [], b.span
                if v is True:
                    continue
                if v is False:
                    return False, "the filter rejects an event outright", [], b.span
                if not (r[0] == "call" and r[1].callee.get("name") == "is_sampled"):
                    return False, "the filter returns %s, not the incoming sampled flag" % o_str(r), [], b.span
                if not inc:
                    return False, "the sampled flag returned does not come from this span's incoming traceparent", [], b.span
        return True, "", [b.span]
    chk.ob("C18.R3:TraceparentFilter", "spans are emitted iff their (incoming) traceparent is sampled; everything else passes", r3)

    def r3b():
        b = P.impl_method(FILTER, "emit_traceparent::InSampledTraceFilter", "matches")
        ga = b.calls_to(path=TP + "get_active_traceparent")
        if len(ga) != 1:
            return False, "must read the active traceparent", [], b.span
        for rb in b.return_blocks():
            for path in b.acyclic_paths(0, rb):
                ps = mir.PathSummary(b, path)
                dec = [vals for bb, o, vals in ps.decisions() if o[0] == "discr"]
                r = ps.ret()
                if dec and dec[0] == ("1",):
                    if not (r[0] == "call" and r[1].callee.get("name") == "is_sampled"):
                        return False, "inside a trace the filter returns %s, not the trace's sampled flag" % o_str(r), [], b.span
                else:
                    if mir.o_field_path(r)[1] != ["match_events_outside_traces"]:
                        return False, "outside a trace the filter returns %s, not its configured default" % o_str(r), [], b.span
        return True, "", [b.span]
    chk.ob("C18.R3:InSampledTraceFilter", "events follow the active trace's sampled flag, or the configured default outside traces", r3b)

    def push_parent():
        """Every push of an incoming header: the span parent is the active span id only within the same trace, nothing otherwise."""
        bodies = [b for b in P.by_crate["emit_traceparent"] if not b.is_closure and b.key.split("::")[-1] == "push" and
                  [c for c in b.calls(normal_only=True) if c.callee.get("name") == "is_parent_of"]]
        if len(bodies) < 2:
            raise mir.AnchorMissing("push functions with a same-trace test (found %d)" % len(bodies))
        sites = []
        for b in bodies:
            ip = [c for c in b.calls(normal_only=True) if c.callee.get("name") == "is_parent_of"]
            for bb_, j_, st in b.statements(normal_only=True):
                if st["k"] == "assign" and st["rv"]["k"] == "agg" and (st["rv"].get("adt") or "").endswith("ActiveTraceparent"):
                    fo = dict(zip(st["rv"]["fields"], st["rv"]["ops"]))
                    o = b.origin(fo["span_parent"])
                    alts = o[1] if o[0] == "phi" else [o]
                    for a in alts:
                        if a[0] == "agg" and a[1].get("variant") == "None":
                            continue
                        names = mir.o_field_path(a)[1]
                        if names[-2:] == ["traceparent", "span_id"]:
                            continue
                        return False, ("%s sets the pushed header's span parent to %s: outside the active trace a pushed header has no parent, "
                                       "inside it the parent is the active span id" % (b.key, o_str(a))), [], ip[0].loc
                    sites.append("%s:%s" % (b.file, st.get("line")))
            # the active span id is used only on the same-trace edge
            for bb_, j_, st in b.statements(normal_only=True):
                pass
        return True, "", sites
    chk.ob("C18.R6:push-parent", "a pushed header's span parent is the active span id within the same trace and absent otherwise, in every push", push_parent)

    # ---- R4 ---------------------------------------------------------------------------------------------------------
    def swap_method(name):
        def f():
            b = P.impl_method(CTXT, TCTXT, name)
            st = b.calls_to(path=TP + "set_active_traceparent")
            if len(st) != 1:
                return False, "%s must swap the active traceparent exactly once" % name, [], b.span
            s = st[0]
            a = b.origin(s.args[0])
            if not (mir.o_is_call(a, name="take") and mir.o_field_path(b.origin(a[1].args[0]))[1] == ["slot"]):
                return False, "%s installs %s, not frame.slot.take()" % (name, o_str(a)), [], s.loc
            # the result is written back to frame.slot
            ws = []
            for bb, j, stt in b.statements(normal_only=True):
                if stt["k"] == "assign" and "p" in stt["place"] and [p.get("n") for p in stt["place"]["p"] if isinstance(p, dict) and "f" in p] == ["slot"]:
                    ws.append((bb, stt))
            dest_ok = s.dest is not None and "p" in s.dest and [p.get("n") for p in s.dest["p"] if isinstance(p, dict) and "f" in p] == ["slot"]
            stored = dest_ok or any(stt["rv"]["k"] == "use" and common.has_root(b.origin(stt["rv"]["op"]), "callsite", s.bb) for bb, stt in ws)
            if not stored:
                return False, ("%s does not store the previous traceparent back into frame.slot: after the first enter/exit the frame "
                               "has lost its own traceparent, so re-entering it (a future polled again) installs None" % name), [], s.loc
            g = [(b.switch_origin(gbb), list(vals)) for gbb, vals, n in b.guards_of(s.bb)]
            if not any(mir.o_field_path(so)[1] == ["active"] and vals != ["0"] for so, vals in g):
                return False, "the swap is not conditional on frame.active", [], s.loc
            fw = [c for c in b.calls(normal_only=True) if c.callee.get("trait") == CTXT and c.callee.get("name") == name]
            if len(fw) != 1 or b.count_on_paths({fw[0].bb}) != (1, 1):
                return False, "%s must forward to the inner ctxt's %s exactly once on every path" % (name, name), [], b.span
            if mir.o_field_path(b.origin(fw[0].args[0]))[1] != ["inner"] or mir.o_field_path(b.origin(fw[0].args[1]))[1] != ["inner"]:
                return False, "forwarded with (%s, %s)" % (o_str(b.origin(fw[0].args[0])), o_str(b.origin(fw[0].args[1]))), [], fw[0].loc
            return True, "", [s.loc, fw[0].loc]
        return f
    chk.ob("C18.R4:TraceparentCtxt::enter", "enter swaps frame.slot with the active traceparent (keeping the previous one in the frame) and enters the inner ctxt", swap_method("enter"))
    chk.ob("C18.R4:TraceparentCtxt::exit", "exit is the same swap (restoring the previous traceparent and keeping the frame's own) and exits the inner ctxt", swap_method("exit"))

    def set_active():
        b = P.body(TP + "set_active_traceparent")
        ws = [c for c in b.calls(normal_only=True) if c.callee.get("name") == "with" and "LocalKey" in (c.callee.get("full") or "")]
        if len(ws) != 1:
            return False, "the active traceparent is not kept in a thread-local", [], b.span
        k = b.origin(ws[0].args[0])
        if not (k[0] == "const" and (k[1].get("def") or "").endswith("ACTIVE_TRACEPARENT")):
            return False, "uses %s" % o_str(k), [], ws[0].loc
        clo = b.origin(ws[0].args[1])
        cb = P.body(clo[1]["def"])
        rp = cb.calls_to(path="core::mem::replace")
        if len(rp) != 1:
            return False, "set_active_traceparent must be mem::replace on the slot", [], cb.span
        if not (cb.origin(rp[0].args[1])[0] == "capture"):
            return False, "the value installed is %s" % o_str(cb.origin(rp[0].args[1])), [], rp[0].loc
        r = cb.origin(0)
        if not (r[0] == "call" and r[1].bb == rp[0].bb):
            return False, "the previous value is not returned", [], rp[0].loc
        return True, "", [rp[0].loc]
    chk.ob("C18.R4:set_active_traceparent", "installing a traceparent returns the previous one (mem::replace on the thread-local)", set_active)

    def frame_ctor(method):
        def f():
            b = P.impl_method(CTXT, TCTXT, method)
            aggs = [s for bb, j, s in b.statements(normal_only=True) if s["k"] == "assign" and s["rv"]["k"] == "agg" and (s["rv"].get("adt") or "").endswith("TraceparentCtxtFrame")]
            if len(aggs) != 1:
                return False, "expected one frame construction", [], b.span
            fo = dict(zip(aggs[0]["rv"]["fields"], [b.origin(o) for o in aggs[0]["rv"]["ops"]]))
            inc = b.calls_to(path=INC)[0]
            if not common.has_root(fo["slot"], "callsite", inc.bb):
                return False, "frame.slot is %s" % o_str(fo["slot"]), [], b.span
            if not (mir.o_is_call(fo["active"], name="is_some") and common.has_root(fo["active"], "callsite", inc.bb)):
                return False, "frame.active is %s, not slot.is_some()" % o_str(fo["active"]), [], b.span
            io = fo["inner"]
            if not (io[0] == "call" and io[1].callee.get("trait") == CTXT and io[1].callee.get("name") == method):
                return False, "inner frame opened with %s" % o_str(io), [], b.span
            if not common.has_root(b.origin(io[1].args[1]), "callsite", inc.bb):
                return False, "the inner ctxt is not given the filtered props", [], io[1].loc
            return True, "", [inc.loc]
        return f
    for m in ("open_root", "open_push", "open_disabled"):
        chk.ob("C18.R4:TraceparentCtxt::%s" % m, "the frame carries the incoming traceparent, is active iff there is one, and opens the inner frame with the remaining props", frame_ctor(m))

    # ---- R5 -----------------------------------------------------------------------------------------------------------
    def with_current():
        b = P.impl_method(CTXT, TCTXT, "with_current")
        at = [c for c in b.calls(normal_only=True) if c.callee.get("name") == "and_then"]
        if len(at) != 1:
            return False, "expected get_active_traceparent().and_then(..)", [], b.span
        clo = b.origin(at[0].args[1])
        cb = P.body(clo[1]["def"])
        ns = cb.calls_to(path="emit::span::SpanCtxt::new")
        if len(ns) != 1:
            return False, "expected one SpanCtxt::new", [], cb.span
        n = ns[0]
        g = [(cb.switch_origin(gbb), list(vals)) for gbb, vals, nn in cb.guards_of(n.bb)]
        if not any(so[0] == "call" and so[1].callee.get("name") == "is_sampled" and vals != ["0"] for so, vals in g):
            return False, "span ids are synthesised for unsampled traces too", [], n.loc
        want = [["traceparent", "trace_id"], ["span_parent"], ["traceparent", "span_id"]]
        for i, w in enumerate(want):
            nm, _ = field_names(cb.origin(n.args[i]))
            if nm[-len(w):] != w:
                return False, "SpanCtxt argument %d is %s, expected active.%s" % (i, o_str(cb.origin(n.args[i])), ".".join(w)), [], n.loc
        uo = [c for c in b.calls(normal_only=True) if c.callee.get("name") == "unwrap_or"]
        if len(uo) != 1 or not mir.o_is_call(b.origin(uo[0].args[1]), path="emit::span::SpanCtxt::empty"):
            return False, "outside a sampled trace the synthesised context must be SpanCtxt::empty()", [], b.span
        fw = b.calls_to(trait=CTXT, name="with_current")
        if len(fw) != 1 or b.count_on_paths({fw[0].bb}) != (1, 1):
            return False, "must read the inner ctxt exactly once", [], b.span
        return True, "", [n.loc, fw[0].loc]
    chk.ob("C18.R5:with_current", "the current trace ids are exposed only inside a sampled trace, taken from the active traceparent", with_current)

    def exclude_props():
        b = P.impl_method("emit_core::props::Props", "emit_traceparent::ExcludeTraceparentProps<P>", "for_each")
        bodies = [b] + P.closures_of(b)
        keys = set()
        for x in bodies:
            for bb, t in x.switches():
                so = x.switch_origin(bb)
                if so[0] == "call" and so[1].callee.get("name") in ("eq", "ne"):
                    for a in so[1].args:
                        v = mir.o_const_value(x.origin(a))
                        if isinstance(v, str):
                            keys.add(v)
            for c in x.calls(normal_only=True):
                if c.callee.get("name") in ("eq", "ne"):
                    for a in c.args:
                        v = mir.o_const_value(x.origin(a))
                        if isinstance(v, str):
                            keys.add(v)
        if not {"trace_id", "span_id", "span_parent"} <= keys:
            return False, "ExcludeTraceparentProps drops %s, expected trace_id, span_id and span_parent" % sorted(keys), [], b.span
        def reads_check(x, o):
            o, _ = mir.norm_bool(o)
            if o[0] == "capture":
                o = common.capture_source(P, x, o)[0]
            return (mir.o_field_path(o)[1] or [None])[-1] == "check"
        chk_reads = [1 for x in bodies for bb, t in x.switches() if reads_check(x, x.switch_origin(bb))]
        if not chk_reads:
            return False, "the exclusion is not conditional on `check`", [], b.span
        return True, "", sorted(keys)
    chk.ob("C18.R5:ExcludeTraceparentProps", "the ids carried by the traceparent are not also stored as ambient props (dropped when check)", exclude_props)

    def ctxt_props_order():
        """The view a TraceparentCtxt hands out enumerates the ids synthesised from the active traceparent *before* the wrapped context's
        props: lookups are first-match-wins, so the other order lets a `trace_id`/`span_id` left in the wrapped context shadow the
        traceparent's - events and child spans then carry ids the outgoing header does not."""
        b = P.impl_method("emit_core::props::Props", "emit_traceparent::TraceparentCtxtProps<P>", "for_each")
        fe = [c for c in b.calls(normal_only=True) if c.callee.get("name") == "for_each"]
        own = [c for c in fe if (mir.o_field_path(b.origin(c.args[0]))[1] or [None])[-1] == "ctxt"]
        inner = [c for c in fe if "inner" in (mir.o_field_path(b.origin(c.args[0]))[1] or [])]
        if len(own) != 1 or len(inner) != 1:
            return False, ("TraceparentCtxtProps::for_each must enumerate the synthesised span context (field `ctxt`) and the wrapped props (field "
                           "`inner`) once each; found %d and %d" % (len(own), len(inner))), [], b.span
        if own[0].bb == inner[0].bb or not b.dominates(own[0].bb, inner[0].bb):
            return False, ("the wrapped context's props are enumerated before (or without) the ids synthesised from the active traceparent: an id key "
                           "stored in the wrapped context shadows the traceparent's"), [], inner[0].loc
        return True, "", [own[0].loc, inner[0].loc]
    chk.ob("C18.R5:props-order", "the active traceparent's ids are enumerated before (and so win over) the wrapped context's props", ctxt_props_order)

    # ---- R6 -------------------------------------------------------------------------------------------------------------
    def is_parent_of():
        b = P.body(TP + "ActiveTraceparent::is_parent_of") if P.has_body(TP + "ActiveTraceparent::is_parent_of") else None
        if b is None:
            ks = [k for k in P.bodies if k.startswith(TP) and k.endswith("::is_parent_of")]
            if not ks:
                raise mir.AnchorMissing("is_parent_of")
            b = P.body(ks[0])
        eqs = [c for c in b.calls(normal_only=True) if c.callee.get("name") == "eq"] + \
              [1 for bb, t in b.switches() if b.switch_origin(bb)[0] == "binop" and b.switch_origin(bb)[1] == "Eq"]
        r = b.origin(0)
        if not eqs and not (r[0] == "call" and r[1].callee.get("name") == "eq") and not (r[0] == "binop"):
            return False, "is_parent_of does not compare trace ids", [], b.span
        return True, "", [b.span]
    chk.ob("C18.R6:is_parent_of", "a span parent is kept only for the same trace id", is_parent_of)


    def is_sampled():
        b = P.body(TP + "TraceFlags::is_sampled")
        r = b.origin(0)
        # (self.0 & SAMPLED) == SAMPLED   or   (self.0 & SAMPLED) != 0
        def is_mask(o):
            if o[0] != "binop" or o[1] != "BitAnd":
                return False
            def cv(x):
                while x[0] == "field":  # TraceFlags::SAMPLED.0 is a field of an evaluated constant
                    x = x[1]
                return mir.o_const_value(x)
            vals = [cv(x) for x in (o[2], o[3])]
            has_self = any(("param", 1) in common.roots(x) for x in (o[2], o[3]))
            return has_self and 1 in vals
        if r[0] != "binop" or r[1] not in ("Eq", "Ne"):
            return False, "is_sampled() is %s, not a test of the sampled bit" % o_str(r), [], b.span
        sides = (r[2], r[3])
        masks = [x for x in sides if is_mask(x)]
        if not masks:
            return False, ("is_sampled() compares the whole flags byte (%s): an incoming header with the sampled bit and any other "
                           "bit set (e.g. -03) would be treated as unsampled although its flag must be inherited" % o_str(r)), [], b.span
        other = [mir.o_const_value(x) for x in sides if not is_mask(x)]
        if not ((r[1] == "Eq" and other == [1]) or (r[1] == "Ne" and other == [0])):
            return False, "is_sampled() tests the mask with %s %s" % (r[1], other), [], b.span
        return True, "", [b.span]
    chk.ob("C18.R3:is_sampled", "the sampled decision looks only at the sampled bit of the flags (mask with SAMPLED)", is_sampled)

    # a span or pushed header going out of scope restores the previous traceparent on every exit, also when unwinding:
    # frames are entered/exited only through the RAII guard (shared with C03/C04)
    from . import c03, c05
    c03.bracket_rules(chk, P, "C18")
    from . import witness
    witness.witness_rule(chk, "C18", 2)
    # inside an unsampled trace no span is emitted: a guard the filter rejected never runs a completion (shared with C05)
    c05.completion_rules(chk, P, "C18")

    common.arg_agreement_rule(chk, P, "C18", [("emit_traceparent", None)], 4)

    def push_arms_frame():
        """Traceparent::push / the free push: every path returns a frame whose slot holds the pushed traceparent and which is marked active -
        also when that traceparent equals the current one (the frame is what carries it to another thread or task; an inert frame swaps
        nothing in there, so the worker has no traceparent, its spans are new roots and the sampler runs again)."""
        ev = []
        for k in ("emit_traceparent::Traceparent::push", "emit_traceparent::push"):
            if not P.has_body(k):
                raise mir.AnchorMissing(k)
            b = P.body(k)
            slot = [(bb, st) for bb, j, st in b.statements(normal_only=True) if st["k"] == "assign" and st["place"].get("p") and
                    [p.get("n") for p in st["place"]["p"] if isinstance(p, dict) and "n" in p][-1:] == ["slot"]]
            act = [(bb, st) for bb, j, st in b.statements(normal_only=True) if st["k"] == "assign" and st["place"].get("p") and
                   [p.get("n") for p in st["place"]["p"] if isinstance(p, dict) and "n" in p][-1:] == ["active"]]
            if len(slot) != 1 or len(act) != 1:
                return False, "%s must set the frame's slot and active flag once each (found %d / %d)" % (k, len(slot), len(act)), [], b.span
            if not b.must_pass([slot[0][0]]) or not b.must_pass([act[0][0]]):
                return False, ("%s can return a frame whose slot was never filled (an early return before the slot is set): entering that frame "
                               "installs nothing, so the pushed traceparent does not travel with it" % k), [], b.span
            so = b.origin(slot[0][1]["rv"]["op"]) if slot[0][1]["rv"]["k"] == "use" else ("unknown",)
            if not (so[0] == "agg" and so[1].get("variant") == "Some"):
                return False, "%s stores %s in the slot, not Some(the pushed traceparent)" % (k, o_str(so)), [], b.span
            if mir.o_const_value(b.origin(act[0][1]["rv"]["op"])) is not True:
                return False, "%s does not mark the frame active" % k, [], b.span
            ev.append(b.span)
        return True, "", ev
    chk.ob("C18.R6:push-arms-frame", "a pushed traceparent always travels in the frame (slot filled, frame active) on every path", push_arms_frame)

    def filter_returns_decision():
        """TraceparentFilter::matches: for a span whose incoming traceparent was computed (the Some arm of incoming_traceparent's result) the
        answer *is* that traceparent's sampled flag - every such path returns is_sampled() of it, never a constant."""
        bs = [b for b in P.find(trait="emit_core::filter::Filter", method="matches") if not b.is_closure and "TraceparentFilter" in (b.self_ty or "")]
        if not bs:
            raise mir.AnchorMissing("impl Filter for TraceparentFilter")
        b = bs[0]
        inc = [c for c in b.calls(normal_only=True) if c.callee.get("name") == "incoming_traceparent"]
        if len(inc) != 1:
            return False, "TraceparentFilter::matches must compute the incoming traceparent once (found %d)" % len(inc), [], b.span
        checked = 0
        for rb in b.return_blocks():
            for path in b.acyclic_paths(0, rb, limit=4000):
                if inc[0].bb not in path:
                    continue
                ps = mir.PathSummary(b, path)
                some = False
                for sbb, o, vals in ps.decisions():
                    if o[0] == "discr":
                        r = mir.o_root(o[1])
                        if r[0] == "call" and r[1].bb == inc[0].bb and tuple(str(v) for v in vals) == ("1",):
                            some = True
                if not some:
                    continue
                checked += 1
                ret = ps.ret()
                if not (ret[0] == "call" and ret[1].callee.get("name") == "is_sampled"):
                    return False, ("TraceparentFilter::matches returns %s for a span whose incoming traceparent was computed: the sampling decision is "
                                   "ignored, so spans of an unsampled trace are enabled" % o_str(ret)), [], inc[0].loc
                rr = mir.o_root(b.origin(ret[1].args[0], through_calls=("trace_flags", "deref", "as_ref")))
                if not (rr[0] == "call" and rr[1].bb == inc[0].bb):
                    return False, "the sampled flag returned is that of %s, not of the incoming traceparent" % o_str(rr), [], ret[1].loc
        if checked < 1:
            return False, "no path of TraceparentFilter::matches uses the computed incoming traceparent", [], b.span
        return True, "", ["%d span paths return the incoming traceparent's sampled flag" % checked]
    chk.ob("C18.R2:filter-returns-decision", "for a span the filter's answer is the sampled flag of its incoming traceparent", filter_returns_decision)

    def who_sets_active():
        """The thread's active traceparent is replaced only by TraceparentCtxt::enter and ::exit (which swap it with the frame's slot, so every
        replacement is undone in stack order): a further caller of set_active_traceparent - a reset, a direct install - is not restored when a
        span or pushed header goes out of scope."""
        callers = set()
        for k, b in P.bodies.items():
            if b.crate != "emit_traceparent" or "::tests::" in k:
                continue
            for c in b.calls(normal_only=True):
                if c.callee.get("name") == "set_active_traceparent":
                    callers.add(k.split("::{closure")[0])
            for c in b.calls(normal_only=True):
                for a in c.args:
                    o = b.origin(a)
                    if o[0] == "const" and str(o[1].get("def", "")).endswith("::ACTIVE_TRACEPARENT") and not k.split("::{closure")[0].endswith(("set_active_traceparent", "get_active_traceparent")):
                        callers.add(k.split("::{closure")[0] + " (direct)")
        if not callers:
            raise mir.AnchorMissing("callers of set_active_traceparent")
        extra = sorted(x for x in callers if not re.search(r"TraceparentCtxt<C> as emit_core::ctxt::Ctxt>::(enter|exit)$", x))
        if extra:
            return False, "%s replaces the thread's active traceparent outside TraceparentCtxt::enter / exit" % extra[0], [], None
        return True, "", sorted(callers)
    chk.ob("C18.R4:who-sets-active", "only TraceparentCtxt::enter and ::exit replace the thread's active traceparent", who_sets_active)
    if not getattr(chk, "_overlay", None):
        from . import c04
        c04.setup_before_begin_rule(chk, P, "C18.R7:setup-before-begin")
    # an unsampled root is recorded by TraceparentCtxt::open_disabled: every wrapper / bridge a runtime may put around the context
    # (references, Box, Arc, Option, the erased bridges of the ambient runtime) must hand open_disabled on, not fall back to the
    # provided default (open_push of nothing), or children of an unsampled root are sampled afresh
    common.wrapper_family_rule(chk, P, "C18", CTXT, 6, forward=False, allow={
        ("emit_core::runtime::AssertInternal<", "open_disabled"): "the internal runtime's context is never the traceparent context"})
    from . import shapes
    shapes.exclude_props_polarity(chk, P, "C18.R5:exclude-props-polarity")
    _is_some = lambda fld: (lambda o, b: o[0] == "call" and o[1].callee.get("name") == "is_some" and fld in o_str(b.origin(o[1].args[0])))
    shapes.conjunction_rule(chk, P, "C18.R1:is_valid", "a traceparent is valid only with both a trace id and a span id", TP + "Traceparent::is_valid",
                            [("trace_id.is_some()", _is_some("trace_id")), ("span_id.is_some()", _is_some("span_id"))],
                            "a header with one id missing would count as an active trace: the sampler is skipped for it and children inherit a half-empty context")
    shapes.conjunction_rule(chk, P, "C18.R6:is_parent_of", "an active traceparent is the parent of incoming props only if it has a trace id and that id equals theirs",
                            TP + "ActiveTraceparent::is_parent_of",
                            [("trace_id.is_some()", _is_some("trace_id")), ("trace_id == incoming", lambda o, b: o[0] == "call" and o[1].callee.get("name") == "eq")],
                            "a span of another trace (or of none) would keep the active span as its parent")
    return chk
