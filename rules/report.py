"""Obligations, evidence files, violation records, known findings."""
import json
import os
import sys
import time
import traceback

from . import mir

VERIF = os.path.dirname(os.path.dirname(os.path.abspath(__file__)))
# the self-test runs checks against scratch copies in parallel; their evidence goes elsewhere
EVID = os.environ.get("VERIF_EVIDENCE") or os.path.join(VERIF, "evidence")


def load_known():
    p = os.path.join(VERIF, "known_findings.json")
    if not os.path.exists(p):
        return {"findings": [], "fixed": []}
    with open(p) as fh:
        return json.load(fh)


class Check:
    """One run of one property's rules.

    with chk.rule("C01.R4", "emit is guarded by the filter") as r:
        r.ob("instance", lambda: ..., sites=[...])     # or r.ok(...)/r.fail(...)
    """

    def __init__(self, pid, tier="quick"):
        self.pid = pid
        self.tier = tier
        self.t0 = time.time()
        self.obligations = []  # dicts: key, rule, text, status, sites, detail
        self.explanations = []
        self.configs = {}
        self.assumptions = []
        self.trusted = []
        self.floors = []
        self.known = load_known()
        self.seed = int(os.environ.get("VERIF_SEED", "0") or 0)
        self.exhaustive = None
        self.extra = {}
        # overlay: the same rules evaluated again over another build configuration (thorough tier).  Keys get the
        # configuration as a prefix; constructs that do not exist in that configuration are recorded as absent
        # (they are decided in K1), floors are recorded but not enforced (they were counted in K1).
        self._overlay = None
        self.overlay_stats = {}

    def overlay(self, name):
        self._overlay = name
        if name:
            self.overlay_stats[name] = dict(discharged=0, absent=0, violated=0)

    def _k(self, key):
        return "%s/%s" % (self._overlay, key) if self._overlay else key

    # -- recording ---------------------------------------------------------------------------------
    def explain(self, text):
        if self._overlay:
            return
        self.explanations.append(text)

    def assume(self, text):
        if text not in self.assumptions:
            self.assumptions.append(text)

    def trust(self, text):
        if text not in self.trusted:
            self.trusted.append(text)

    def use_program(self, prog):
        self.configs[prog.config] = {
            "tree_hash": getattr(prog, "tree_hash", None),
            "bodies": {c: len(bs) for c, bs in prog.by_crate.items()},
        }

    def ok(self, key, text, sites=(), construct=None):
        if self._overlay:
            self.overlay_stats[self._overlay]["discharged"] += 1
        self.obligations.append(dict(key=self._k(key), text=text, status="discharged",
                                     sites=[str(s) for s in sites][:12], construct=construct))

    def fail(self, key, text, detail, loc=None, construct=None, path=None):
        if self._overlay:
            if str(detail).startswith("anchor missing"):
                self.overlay_stats[self._overlay]["absent"] += 1
                self.obligations.append(dict(key=self._k(key), text=text, status="absent-in-config", sites=[],
                                             construct=str(detail)[:200]))
                return
            self.overlay_stats[self._overlay]["violated"] += 1
        self.obligations.append(dict(key=self._k(key), text=text, status="violated", detail=detail, loc=loc,
                                     construct=construct, path=path, sites=[]))

    def ob(self, key, text, fn, loc=None):
        """Evaluate fn(): returns (ok: bool, detail: str, sites: list) or raises AnchorMissing."""
        try:
            r = fn()
        except mir.AnchorMissing as e:
            self.fail(key, text, "anchor missing: %s (the construct this rule is phrased over no longer "
                      "exists under that name; the rule cannot be decided and fails closed)" % e, loc=loc)
            return False
        except Exception as e:  # a rule that crashes decides nothing: fail closed, visibly
            self.fail(key, text, "rule could not be evaluated (%s: %s)\n%s" % (
                type(e).__name__, e, traceback.format_exc(limit=4)), loc=loc)
            return False
        if isinstance(r, tuple):
            okv = r[0]
            detail = r[1] if len(r) > 1 else ""
            sites = r[2] if len(r) > 2 else ()
            vloc = r[3] if len(r) > 3 else loc
        else:
            okv, detail, sites, vloc = bool(r), "", (), loc
        if okv:
            self.ok(key, text, sites=sites, construct=detail or None)
        else:
            self.fail(key, text, detail, loc=vloc)
        return okv

    def floor(self, what, measured, minimum):
        """A rule that matches fewer instances than were confirmed by hand must not pass."""
        if self._overlay:
            self.floors.append(dict(what="%s/%s" % (self._overlay, what), measured=measured, floor=0))
            return
        self.floors.append(dict(what=what, measured=measured, floor=minimum))
        key = "%s.floor:%s" % (self.pid, what)
        if measured < minimum:
            self.fail(key, "instance floor for %s" % what,
                      "matched %d instances, fewer than the %d confirmed by hand: the rule would pass "
                      "vacuously" % (measured, minimum))
        else:
            self.ok(key, "instance floor for %s (%d >= %d)" % (what, measured, minimum))

    # -- finishing ------------------------------------------------------------------------------------
    def finish(self):
        vdir = os.path.join(EVID, "violations", self.pid)
        os.makedirs(vdir, exist_ok=True)
        for f in os.listdir(vdir):
            try:
                os.remove(os.path.join(vdir, f))
            except OSError:
                pass
        known = {(k["property"], k["key"]): k for k in self.known.get("findings", [])}
        violations = []
        known_hit = []
        for o in self.obligations:
            if o["status"] != "violated":
                continue
            kf = known.get((self.pid, o["key"]))
            if kf is not None:
                o["status"] = "known-finding"
                known_hit.append((o, kf))
                continue
            violations.append(o)
        for o, kf in known_hit:
            print("KNOWN-FINDING: property=%s %s [%s]" % (self.pid, kf["what"], o["key"]))
        for o in violations:
            safe = "".join(ch if ch.isalnum() or ch in "._-" else "_" for ch in o["key"])[:150]
            p = os.path.join(vdir, safe + ".json")
            with open(p, "w") as fh:
                json.dump(dict(property=self.pid, key=o["key"], rule=o["text"], detail=o["detail"],
                               location=o.get("loc"), construct=o.get("construct"), path=o.get("path"),
                               tree_hashes={k: v.get("tree_hash") for k, v in self.configs.items()}),
                          fh, indent=1)
            print("VIOLATION property=%s replay=%s" % (self.pid, p))
            print("  rule %s: %s" % (o["key"], o["text"]))
            print("  at %s" % (o.get("loc") or "?"))
            for line in str(o["detail"]).splitlines()[:14]:
                print("  | " + line)
        total = len(self.obligations)
        discharged = sum(1 for o in self.obligations if o["status"] in ("discharged", "absent-in-config"))
        nontrivial = len({o["key"] for o in self.obligations if o["status"] == "discharged" and o.get("sites")})
        samples = []
        for o in self.obligations:
            if o.get("sites") and len(samples) < 12:
                samples.append(dict(key=o["key"], rule=o["text"], status=o["status"], sites=o["sites"][:6]))
        if not samples:
            samples = [dict(key=o["key"], rule=o["text"], status=o["status"]) for o in self.obligations[:5]]
        ev = {
            "property_id": self.pid,
            "tier": self.tier,
            "seed": self.seed,
            "level": "other",
            "coverage": {
                "explanation": " ".join(self.explanations) or "static rules over built MIR",
                "obligations": total,
                "discharged": discharged,
                "evaluations": total,
                "distinct_nontrivial": nontrivial,
                "rule": "one obligation per rule instance (function / impl / call site / ADT) enumerated from "
                        "the type-checked program; non-trivial = discharged and matched at least one concrete "
                        "site in the current tree; keys are distinct by construction",
                "samples": samples,
                "exhaustive": bool(self.exhaustive),
                "checker_cmd": "./check %s --tier %s" % (self.pid, self.tier),
                "trusted_base": self.trusted,
                "configs": self.configs,
                "floors": self.floors,
                "known_findings_reported": [o["key"] for o, _ in known_hit],
                "violated": [o["key"] for o in violations],
                "all_obligations": [dict(key=o["key"], status=o["status"], rule=o["text"], sites=len(o.get("sites") or []))
                                    for o in self.obligations],
            },
            "assumptions": self.assumptions,
            "wall_s": round(time.time() - self.t0, 2),
            "violations": len(violations),
        }
        try:
            od = os.path.join(os.environ.get("VERIF_WORK") or os.path.join(VERIF, ".work"), "obligations")
            os.makedirs(od, exist_ok=True)
            with open(os.path.join(od, "%s.json" % self.pid), "w") as fh:
                json.dump([dict(key=o["key"], status=o["status"], sites=o.get("sites") or [], construct=str(o.get("construct") or "")[:300])
                           for o in self.obligations], fh)
        except OSError:
            pass
        ev["coverage"].update(self.extra)
        os.makedirs(EVID, exist_ok=True)
        p = os.path.join(EVID, "%s.json" % self.pid)
        tmp = p + ".tmp%d" % os.getpid()
        with open(tmp, "w") as fh:
            json.dump(ev, fh, indent=1)
        os.replace(tmp, p)
        print("%s [%s]: %d obligations, %d discharged, %d known findings, %d violations (%.1fs)" % (
            self.pid, self.tier, total, discharged, len(known_hit), len(violations), time.time() - self.t0))
        return 1 if violations else 0
