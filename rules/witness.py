"""Type-level witnesses: compile_fail doctests (with compiling `no_run` twins) in engines/witness, decided by
`cargo +nightly test --doc` (the error code of `compile_fail,E0xxx` is only honoured on nightly).  Nothing from emit
is executed: every test is either expected not to compile or marked no_run.  Results are cached per tree hash."""
import fcntl
import json
import os
import re
import shutil
import subprocess

from . import facts

WDIR = os.path.join(facts.VERIF, "engines", "witness")


def results():
    th = facts.tree_hash()
    try:
        with open(os.path.join(WDIR, "src", "lib.rs"), "rb") as fh:
            import hashlib
            th = th + "-" + hashlib.sha256(fh.read()).hexdigest()[:8]
    except OSError:
        pass
    cdir = os.path.join(facts.WORK, "witness")
    os.makedirs(cdir, exist_ok=True)
    cache = os.path.join(cdir, th + ".json")
    if os.path.exists(cache):
        return json.load(open(cache))
    lock = open(os.path.join(facts.WORK, "witness.lock"), "w")
    fcntl.flock(lock, fcntl.LOCK_EX)
    try:
        if os.path.exists(cache):
            return json.load(open(cache))
        wdir = WDIR
        if facts.REPO != "/repo":
            # self-test against a scratch copy of the repository: same witnesses, path dependencies rewritten
            wdir = os.path.join(facts.WORK, "witness-crate")
            shutil.rmtree(wdir, ignore_errors=True)
            shutil.copytree(WDIR, wdir, ignore=shutil.ignore_patterns("target", "Cargo.lock"))
            t = open(os.path.join(wdir, "Cargo.toml")).read().replace('"/repo', '"' + facts.REPO)
            open(os.path.join(wdir, "Cargo.toml"), "w").write(t)
        shutil.copy(os.path.join(facts.REPO, "Cargo.lock"), os.path.join(wdir, "Cargo.lock"))
        env = dict(os.environ, CARGO_TARGET_DIR=os.path.join(facts.WORK, "witness-target"), CARGO_NET_OFFLINE="true")
        p = subprocess.run(["cargo", "+nightly", "test", "--doc", "--offline"], cwd=wdir, env=env, text=True,
                           stdout=subprocess.PIPE, stderr=subprocess.STDOUT)
        out = {"tests": {}, "ok": p.returncode == 0, "tail": p.stdout[-3000:]}
        for m in re.finditer(r"^test src/lib\.rs - (\S+) \(line (\d+)\)( - compile fail| - compile)? \.\.\. (\w+)", p.stdout, re.M):
            name, line, kind, res = m.group(1), m.group(2), (m.group(3) or "").strip(" -"), m.group(4)
            out["tests"]["%s@%s[%s]" % (name, line, kind or "run")] = (res == "ok")
        for f in os.listdir(cdir):
            if f != th + ".json":
                try:
                    os.remove(os.path.join(cdir, f))
                except OSError:
                    pass
        json.dump(out, open(cache, "w"))
        return out
    finally:
        fcntl.flock(lock, fcntl.LOCK_UN)
        lock.close()


def witness_rule(chk, pid, floor):
    if chk._overlay:
        return  # witnesses are decided once, against the default features
    r = results()
    pre = pid.lower() + "_"
    mine = {k: v for k, v in r["tests"].items() if k.startswith(pre)}
    chk.floor("type-level witnesses (compile_fail doctests + compiling twins)", len(mine), floor)
    if not r["tests"]:
        chk.fail("%s.witness" % pid, "the witness crate builds", "no doctest results: %s" % r.get("tail", "")[-800:])
        return
    ordinal = {}
    for k, ok in sorted(mine.items(), key=lambda kv: (kv[0].split("@")[0], int(re.search(r"@(\d+)", kv[0]).group(1)))):
        name = k.split("@")[0]
        kind = "must not compile" if "compile fail" in k else "twin must compile"
        base = re.sub(r"@\d+", "", k)
        ordinal[base] = ordinal.get(base, 0) + 1
        key = "%s.witness:%s#%d" % (pid, base, ordinal[base])
        if ok:
            chk.ok(key, "type-level witness %s (%s)" % (name, kind), sites=[k])
        else:
            chk.fail(key, "type-level witness %s (%s)" % (name, kind),
                     "doctest %s did not behave as required: %s. A compile_fail witness that now compiles means the API lets a "
                     "violating program type-check (e.g. a guard that can be completed twice, a second receiver, a Send guard)" % (k, kind),
                     loc="engines/witness/src/lib.rs")
