"""C17 — level filtering follows the most specific module rule."""
import re

from . import common, mir
from .mir import o_str

FILTER = "emit_core::filter::Filter"
ML = "emit::level::MinLevelFilter<L>"
PM = "emit::level::alloc_support::MinLevelPathMap<L>"


def self_field(o):
    r, names = mir.o_field_path(o)
    if r[0] == "param" and r[1] == 1:
        return names
    return None


OVERLAYS = ('K2b',)


def span_filter_sees_level(chk, P, key):
    """The filter a span macro consults before it begins (`__PrivateBeginSpanFilter`, built by `__private_begin_span`) judges the span's event *with
    the macro-assigned level attached*: every Filter::matches call in it - the call-site `when` as well as the runtime's filter, on every path -
    is given an event that went through `map_props(.. and_props(lvl prop))`, the level prop being derived from the hook's `lvl` field.
    Otherwise `#[emit::warn_span(when: min_filter(Warn))]` is judged as an unleveled (Info) event.  Shared with C01 (the effective filter sees
    the event as destinations will)."""
    def f():
        ks = [k for k in P.bodies if "__PrivateBeginSpanFilter" in k and k.endswith("as emit_core::filter::Filter>::matches")]
        if not ks:
            raise mir.AnchorMissing("<__PrivateBeginSpanFilter as Filter>::matches")
        b = P.body(ks[0])
        ms = [c for c in b.calls(normal_only=True) if c.callee.get("name") == "matches" and (c.callee.get("trait") or "").endswith("filter::Filter")]
        if not ms:
            return False, "the span's begin filter consults no filter", [], b.span
        for c in ms:
            eo = b.origin(c.args[1])
            mp = None
            x, d = eo, 0
            while d < 8:
                d += 1
                if x[0] == "call" and x[1].callee.get("name") == "map_props":
                    mp = x[1]
                    break
                if x[0] == "call" and x[1].args:
                    x = b.origin(x[1].args[0])
                    continue
                if x[0] in ("ref", "deref", "copy"):
                    x = x[1]
                    continue
                break
            ok = False
            if mp is not None:
                clo = b.origin(mp.args[1])
                if clo[0] == "agg" and clo[1].get("ak") == "closure" and P.has_body(clo[1].get("def")):
                    cb = P.body(clo[1]["def"])
                    ap = [y for y in cb.calls(normal_only=True) if y.callee.get("name") == "and_props"]
                    caps = [common.capture_source(P, cb, cb.origin(a))[0] if cb.origin(a)[0] == "capture" else cb.origin(a) for y in ap for a in y.args]
                    def from_lvl(o, dd=0):
                        if dd > 10:
                            return False
                        if (mir.o_field_path(o)[1] or [None])[-1] == "lvl" and mir.o_is_param(mir.o_root(o), idx=1):
                            return True
                        if o[0] == "call":
                            return any(from_lvl(o[1].body.origin(a), dd + 1) for a in o[1].args[:1])
                        if o[0] in ("ref", "deref", "copy", "field", "downcast"):
                            return from_lvl(o[1], dd + 1)
                        return False
                    ok = any(from_lvl(o) for o in caps)
            if not ok:
                return False, ("the filter consulted at %s judges the span's event without the macro-assigned level attached (%s): a levelled span is filtered as "
                               "if it had no level" % (c.loc, mir.o_str(eo)[:100])), [], c.loc
        return True, "", [c.loc for c in ms]
    chk.ob(key, "every filter a span macro consults before beginning sees the span's event with its macro-assigned level", f)


def level_parse_rule(chk, P, key):
    """The lenient level parser walks the input and the expected spelling in lock step (shared with C15: a level's text parses back to it).
    Both cursors are re-sliced `[1..]` together - once before the loop (the first letter was matched by the caller) and once per matched
    letter, behind the comparison - and a letter that differs, or a letter beyond the expected spelling, is an error on the spot.  A re-slice
    missing on one side compares every later letter against the wrong one (or never ends)."""
    def f():
        b = P.body("emit::level::parse")
        def reslices(l):
            out = []
            for d in b.defs().get(l, ()):
                if b.blocks[d[0]]["cleanup"] or d[2] == "partial":
                    continue
                o = b._origin_def(d, 0, (), set())
                if o[0] == "call" and o[1].callee.get("name") == "index" and "RangeFrom" in (o[1].callee.get("full") or ""):
                    start = None
                    ao = b.origin(o[1].args[1])
                    if ao[0] == "agg" and ao[2]:
                        start = mir.o_const_value(ao[2][0])
                    src = mir.o_root(b.origin(o[1].args[0]))
                    out.append((d[0], start, b.in_cycle(d[0])))
                else:
                    out.append((d[0], "other:" + mir.o_str(o)[:40], b.in_cycle(d[0])))
            return out
        a, e = reslices(1), reslices(2)
        sig = lambda xs: sorted((st, cyc) for bb, st, cyc in xs)
        if sig(a) != sig(e) or sig(a) != [(1, False), (1, True)]:
            return False, ("the input is re-sliced %s and the expected spelling %s (start, inside the loop): the two must advance together, by one, once before "
                           "the loop and once per matched letter" % (sig(a), sig(e))), [], b.span
        # the comparison: differing letter -> Err at once; and both in-loop re-slices lie behind its equal edge
        cmp_ = None
        for bb, t in b.switches():
            so, pos = mir.norm_bool(b.switch_origin(bb))
            if so[0] == "binop" and so[1] in ("Ne", "Eq") and any(x[0] == "call" and x[1].callee.get("name") == "to_ascii_uppercase" for x in (so[2], so[3])):
                cmp_ = (bb, t, so, pos)
        if cmp_ is None:
            raise mir.AnchorMissing("the letter comparison of emit::level::parse")
        bb, t, so, pos = cmp_
        for v, tgt in [(v, n) for v, n in t["targets"]] + [("otherwise", t["otherwise"])]:
            truth = (str(v) != "0") == pos
            differ = truth if so[1] == "Ne" else not truth
            if differ:
                rets = [mir.PathSummary(b, [bb] + p_).ret() for rb in b.return_blocks() for p_ in b.acyclic_paths(tgt, rb, limit=50)]
                if not rets or not all(r[0] == "agg" and r[1].get("variant") == "Err" for r in rets) or any(b.in_cycle(x) and x != bb for x in b.reachable_from(tgt) if x in [q for q, _ in b.switches()]):
                    return False, "a letter that differs from the expected spelling does not end the parse with an error", [], b.span
            else:
                for xs in (a, e):
                    inloop = [q for q, st, cyc in xs if cyc]
                    if not all(b.edge_dominates(bb, tgt, q) or q == tgt for q in inloop):
                        return False, "a cursor is advanced without the letter having matched", [], b.span
        return True, "", [b.span]
    chk.ob(key, "the lenient level parser advances input and expected spelling together and fails on the first differing letter", f)


def run(chk):
    P = mir.Program("K1")
    chk.use_program(P)
    chk.explain("Rules over built MIR of emit::level and emit_core::path: R1 MinLevelFilter::matches compares "
                "pull::<L>(\"lvl\").or_else(self.default).unwrap_or(L::default()) with `>= &self.min` in that operand order; R2 "
                "Level is declared Debug < Info < Warn < Error with derived ordering and default Info; R3 the only mutation of "
                "PathNode::children is Vec::insert at the Err index of a binary_search_by_key on the same vector, and insertion "
                "and lookup use the same key projection (sorted invariant of binary search); R4 lookup keeps the deepest level "
                "(child.min_level.or(previous)), starts from the root's level, stops (break) at the first missing segment, and "
                "delegates to Option's Filter impl; R5 Path::segments splits on \"::\"; registration overwrites the node's level; "
                "FromValue for Level is downcast-then-Value::parse.")
    chk.trust("rustc nightly; binary_search_by_key needs a slice sorted by that key; Option::or/or_else contracts")
    chk.assume("the language accepted by the lenient level parser is not decided")
    chk.exhaustive = True

    # ---- R1 -------------------------------------------------------------------------------------------------------
    def r1():
        b = P.impl_method(FILTER, ML, "matches")
        r = b.origin(0)
        if not (r[0] == "call" and r[1].callee.get("name") in ("ge", "gt", "le", "lt", "eq", "ne", "cmp")):
            return False, "MinLevelFilter::matches returns %s, not a comparison" % o_str(r), [], b.span
        op = r[1].callee["name"]
        lhs = b.origin(r[1].args[0])
        rhs = b.origin(r[1].args[1])
        lnames = []
        def chain(o):
            out = []
            d = 0
            while o[0] == "call" and d < 12:
                out.append(o[1].callee.get("name"))
                o = b.origin(o[1].args[0])
                d += 1
            return out, o
        lch, lroot = chain(lhs)
        rfield = self_field(rhs)
        if rfield != ["min"]:
            # maybe operands reversed with le
            rch, rroot = chain(rhs)
            if self_field(lhs) == ["min"] and op == "le" and "pull" in rch:
                lch = rch
            else:
                return False, ("the event's level (left) is compared with %s (right) using `%s`; the filter must accept exactly "
                               "when level >= self.min" % (o_str(rhs), op)), [], r[1].loc
        elif op != "ge":
            return False, "the comparison is `level %s min`; events at exactly the minimum level must pass (>=)" % op, [], r[1].loc
        for need in ("pull", "or_else", "unwrap_or"):
            if need not in lch and not (need == "or_else" and "or" in lch) and not (need == "unwrap_or" and ("unwrap_or_default" in lch or "unwrap_or_else" in lch)):
                return False, "the level compared is built by %s; expected pull(lvl).or_else(default).unwrap_or(L::default())" % list(reversed(lch)), [], r[1].loc
        pulls = [c for c in b.calls(normal_only=True) if c.callee.get("name") == "pull"]
        if len(pulls) != 1 or mir.o_const_value(b.origin(pulls[0].args[1])) != "lvl":
            return False, "the level is not pulled from the `lvl` property", [], b.span
        # order: event's own level first, configured default second, type default last
        if lch.index("pull") < lch.index("or_else" if "or_else" in lch else "or"):
            return False, "the configured default takes precedence over the event's own level", [], b.span
        oe = [c for c in b.calls(normal_only=True) if c.callee.get("name") in ("or_else", "or")]
        clo = b.origin(oe[0].args[1])
        if clo[0] == "agg" and clo[1].get("ak") == "closure":
            cb = P.body(clo[1]["def"])
            ro = cb.origin(0, through_calls=("as_ref",))
            if ro[0] == "capture":
                src, _sb = common.capture_source(P, cb, ro)
                nm = (mir.o_field_path(src)[1] or [None])[-1]   # the field of self that was captured, not the capture's name
            else:
                nm = (mir.o_field_path(ro)[1] or [None])[-1]
            if "default" not in str(nm):
                return False, "the fallback for unleveled events is %s, not self.default" % o_str(ro), [], cb.span
        uo = [c for c in b.calls(normal_only=True) if c.callee.get("name") == "unwrap_or"]
        if uo:
            d = b.origin(uo[0].args[1])
            if not (mir.o_is_call(d, name="default")):
                return False, "the last resort level is %s, not L::default()" % o_str(d), [], uo[0].loc
        return True, "", [r[1].loc]
    chk.ob("C17.R1:MinLevelFilter::matches", "accept iff (own level, else configured default, else L::default()) >= min", r1)

    def builder():
        b = P.body("emit::level::MinLevelFilter::<L>::treat_unleveled_as")
        ws = [s for bb, j, s in b.statements(normal_only=True) if s["k"] == "assign" and "p" in s["place"]
              and [p.get("n") for p in s["place"]["p"] if isinstance(p, dict) and "f" in p] == ["default"]]
        if len(ws) != 1:
            return False, "treat_unleveled_as must set self.default", [], b.span
        o = b.origin(ws[0]["rv"]["op"]) if ws[0]["rv"]["k"] == "use" else ("unknown",)
        if not (o[0] == "agg" and o[1].get("variant") == "Some" and mir.o_is_param(o[2][0], idx=2)):
            return False, "default is set to %s" % o_str(o), [], b.span
        n = P.body("emit::level::MinLevelFilter::<L>::new")
        no = n.origin(0)
        f = dict(zip(no[1]["fields"], no[2])) if no[0] == "agg" else {}
        if not (f and mir.o_is_param(f["min"], idx=1) and f["default"][0] == "agg" and f["default"][1].get("variant") == "None"):
            return False, "MinLevelFilter::new builds %s" % o_str(no), [], n.span
        return True, "", [b.span, n.span]
    chk.ob("C17.R1:builders", "new(min) stores the minimum with no unleveled default; treat_unleveled_as stores the default", builder)

    # ---- R2 ---------------------------------------------------------------------------------------------------------
    def level_order():
        a = P.adt("emit::level::Level")
        names = [v["name"] for v in a["variants"]]
        if names != ["Debug", "Info", "Warn", "Error"]:
            return False, "Level variants are declared in the order %s; derived ordering needs Debug < Info < Warn < Error" % names, [], a["span"]
        ords = [i for i in P.impls if i["self_ty"] == "emit::level::Level" and i.get("trait") in ("core::cmp::Ord", "core::cmp::PartialOrd")]
        if len(ords) != 2:
            return False, "Level must implement Ord and PartialOrd", [], a["span"]
        # derived impls compare discriminants: the bodies call the intrinsic on discriminant values
        for i in ords:
            for it in i["items"]:
                if it["name"] in ("cmp", "partial_cmp"):
                    b = P.bodies.get(it["key"])
                    if b is None:
                        continue
                    ds = [s for bb, j, s in b.statements(normal_only=True) if s["k"] == "assign" and s["rv"]["k"] == "discr"]
                    calls = [c.callee.get("name") for c in b.calls(normal_only=True)]
                    if not ds and "discriminant_value" not in calls:
                        return False, "%s for Level is not the derived discriminant comparison" % it["name"], [], b.span
        d = P.impl_method("core::default::Default", "emit::level::Level", "default")
        do = d.origin(0)
        if not (do[0] == "agg" and do[1].get("variant") == "Info"):
            return False, "Level::default() is %s, not Info" % o_str(do), [], d.span
        return True, "", names
    chk.ob("C17.R2:Level-order", "Debug < Info < Warn < Error by declaration order with derived Ord; default Info", level_order)

    # ---- R3 -----------------------------------------------------------------------------------------------------------
    def key_projection(body, c):
        """the closure given to binary_search_by_key: what it returns"""
        clo = body.origin(c.args[2])
        if clo[0] != "agg" or clo[1].get("ak") != "closure":
            return None
        cb = P.body(clo[1]["def"])
        r = cb.origin(0)
        s = []
        x = r
        while x[0] == "call":
            s.append(x[1].callee.get("name"))
            x = cb.origin(x[1].args[0])
        rr, names = mir.o_field_path(x)
        return (tuple(s), tuple(names), rr[0], rr[1] if rr[0] == "param" else None)

    def r3():
        ins = P.body("emit::level::alloc_support::MinLevelPathMap::<L>::min_level")
        look = P.impl_method(FILTER, PM, "matches")
        bi = [c for c in ins.calls(normal_only=True) if (c.callee.get("name") or "").startswith("binary_search")]
        bl = [c for c in look.calls(normal_only=True) if (c.callee.get("name") or "").startswith("binary_search")]
        if len(bi) != 1 or len(bl) != 1:
            return False, "expected one binary search in registration and one in lookup", [], ins.span
        if bi[0].callee["name"] != bl[0].callee["name"]:
            return False, "registration searches with %s, lookup with %s" % (bi[0].callee["name"], bl[0].callee["name"]), [], bl[0].loc
        ki, kl = key_projection(ins, bi[0]), key_projection(look, bl[0])
        if ki is None or kl is None or ki != kl:
            return False, "registration orders children by %s but lookup searches by %s: binary search needs one comparator" % (ki, kl), [], bl[0].loc
        # mutations of children
        muts = []
        for b in [ins] + P.closures_of(ins) + [look] + P.closures_of(look):
            for c in b.calls(normal_only=True):
                if c.callee.get("name") in ("push", "insert", "remove", "swap", "sort", "sort_by", "sort_by_key", "retain", "truncate", "clear", "swap_remove", "extend", "append", "drain") \
                        and "Vec" in (c.callee.get("full") or ""):
                    o = b.origin(c.args[0], through_calls=("deref_mut", "deref"))
                    if "children" in mir.o_field_path(o)[1]:
                        muts.append((b, c))
        if len(muts) != 1 or muts[0][1].callee["name"] != "insert":
            return False, ("children is mutated by %s; the sorted invariant needs a single Vec::insert at the binary search's Err index"
                           % [m[1].callee["name"] for m in muts]), [], (muts[0][1].loc if muts else ins.span)
        b, c = muts[0]
        io = b.origin(c.args[1])
        x = io
        while x[0] in ("field", "downcast", "index"):
            x = x[1]
        if not (x[0] == "call" and x[1].bb == bi[0].bb):
            return False, "the insertion index is %s, not the position reported by the binary search" % o_str(io), [], c.loc
        # on the Err edge
        okg = any(b.switch_origin(g)[0] == "discr" and b.switch_origin(g)[1][0] == "call" and b.switch_origin(g)[1][1].bb == bi[0].bb and list(v) == ["1"]
                  for g, v, n in b.guards_of(c.bb))
        if not okg:
            return False, "insert is not on the `not found` edge of the binary search", [], c.loc
        # searched key = the segment
        for body, c2 in ((ins, bi[0]), (look, bl[0])):
            ko = body.origin(c2.args[1])
            x = ko
            while x[0] in ("field", "downcast", "index"):
                x = x[1]
            if not (x[0] == "call" and x[1].callee.get("name") == "next"):
                return False, "the key searched for is %s, not the current path segment" % o_str(ko), [], c2.loc
        return True, "", [bi[0].loc, bl[0].loc, c.loc]
    chk.ob("C17.R3:sorted-trie", "children stay sorted: one insert at the search's Err index; registration and lookup use one comparator", r3)

    # ---- R4 ------------------------------------------------------------------------------------------------------------
    def r4():
        b = P.impl_method(FILTER, PM, "matches")
        bs = [c for c in b.calls(normal_only=True) if (c.callee.get("name") or "").startswith("binary_search")][0]
        ors = [c for c in b.calls(normal_only=True) if c.callee.get("name") in ("or", "or_else") and "Option" in (c.callee.get("full") or "")]
        if len(ors) != 1:
            return False, "expected one Option::or combining the child's level with the inherited one", [], b.span
        o = ors[0]
        recv = b.origin_at(o.args[0], o.bb, through_calls=("as_ref",))
        rroot, names = mir.o_field_path(recv)
        via_children = "children" in names
        if rroot[0] == "call" and rroot[1].callee.get("name") in ("index", "get", "get_unchecked") and rroot[1].args:
            via_children = "children" in mir.o_field_path(b.origin_at(rroot[1].args[0], o.bb, through_calls=("deref", "as_ref")))[1]
        if names[-1:] != ["min_level"] or not via_children:
            return False, ("the value that wins at each step is %s; the deeper (child) node's level must take precedence over the "
                           "inherited one: child.min_level.or(previous)" % o_str(recv)), [], o.loc
        alt = b.origin(o.args[1])
        if alt[0] not in ("phi", "local", "call", "field"):
            return False, "fallback is %s" % o_str(alt), [], o.loc
        if not b.in_cycle(o.bb):
            return False, "levels are not accumulated along the walk", [], o.loc
        # initial value: the root's level
        inits = [s for bb, j, s in b.statements(normal_only=True) if False]
        init_ok = False
        for c in b.calls(normal_only=True):
            if c.callee.get("name") == "as_ref" and not b.in_cycle(c.bb):
                nm = mir.o_field_path(b.origin(c.args[0]))[1]
                if nm == ["root", "min_level"]:
                    init_ok = True
        if not init_ok:
            return False, "the walk does not start from the map's default (root) level", [], b.span
        # ... and that level is what the walk *inherits*: every definition of the accumulator made before the loop that
        # reaches the combining step is the root's level (not `None` patched up afterwards for some nodes only)
        acc = b._op_local(o.args[1])
        hops = 0
        while acc is not None and hops < 6:
            ds = [d for d in b.defs().get(acc, ()) if d[2] != "partial" and not b.blocks[d[0]]["cleanup"]]
            if len(ds) == 1 and ds[0][2] == "assign" and ds[0][3]["k"] == "use" and b._op_local(ds[0][3]["op"]) is not None:
                acc = b._op_local(ds[0][3]["op"])
                hops += 1
                continue
            break
        if acc is not None:
            ds = [d for d in b.defs().get(acc, ()) if d[2] != "partial" and not b.blocks[d[0]]["cleanup"]]
            entry = [d for d in ds if not b.in_cycle(d[0]) and o.bb in b.reachable_from(d[0])]
            if len(ds) > 1 and not entry:
                return False, "no value is inherited when the walk starts", [], o.loc
            for d in entry:
                io = b._origin_def(d, 0, ("as_ref",), frozenset())
                if mir.o_field_path(io)[1] != ["root", "min_level"]:
                    return False, ("the level inherited at the start of the walk is %s, not the map's default (root) level: a module "
                                   "that reaches an intermediate node without a level of its own would escape the default" % o_str(io)), [], o.loc
        # a missing segment ends the walk: from the search's Err edge no further search is reachable
        for gbb, t in b.switches():
            so = b.switch_origin(gbb)
            if so[0] == "discr" and so[1][0] == "call" and so[1][1].bb == bs.bb:
                for v, tgt in t["targets"] + [["otherwise", t["otherwise"]]]:
                    if v == "0" or (v == "otherwise" and any(x == "1" for x, _ in t["targets"])):
                        continue
                    if v == "1" or v == "otherwise":
                        reach = b.reachable_from(tgt)
                        if bs.bb in reach:
                            return False, ("when a segment of the event's module is not registered the walk continues with the next "
                                           "segment instead of stopping: a rule for `db` would apply to `app::db`"), [], "%s:%s" % (b.file, t.get("line"))
        # final decision delegates to Option<&MinLevelFilter>::matches with the event
        ms = [c for c in b.calls(normal_only=True) if c.callee.get("name") == "matches"]
        if len(ms) != 1 or "Option" not in (ms[0].callee.get("self_ty") or ""):
            return False, "the final decision is not `filter.matches(evt)` on the optional filter", [], b.span
        r = b.origin(0)
        if not (r[0] == "call" and r[1].bb == ms[0].bb):
            return False, "returns %s" % o_str(r), [], ms[0].loc
        # path walked is the event's module
        seg = [c for c in b.calls(normal_only=True) if c.callee.get("name") == "segments"]
        if len(seg) != 1 or not mir.o_is_call(b.origin(seg[0].args[0]), name="mdl"):
            return False, "the path walked is not the event's module", [], b.span
        return True, "", [o.loc, ms[0].loc]
    chk.ob("C17.R4:deepest-wins", "lookup starts at the root level, lets each registered child override it, stops at the first missing segment", r4)

    def registration():
        b = P.body("emit::level::alloc_support::MinLevelPathMap::<L>::min_level")
        ws = [(bb, s) for bb, j, s in b.statements(normal_only=True) if s["k"] == "assign" and "p" in s["place"]
              and [p.get("n") for p in s["place"]["p"] if isinstance(p, dict) and "f" in p][-1:] == ["min_level"]]
        if len(ws) != 1 or b.in_cycle(ws[0][0]):
            return False, "registration must set the level of the final node exactly once, after the walk", [], b.span
        o = b.origin(ws[0][1]["rv"]["op"]) if ws[0][1]["rv"]["k"] == "use" else ("unknown",)
        if not (o[0] == "agg" and o[1].get("variant") == "Some" and common.has_root(o, "param", 3)):
            return False, "the node's level is set to %s" % o_str(o), [], b.span
        d = P.body("emit::level::alloc_support::MinLevelPathMap::<L>::default_min_level")
        wd = [s for bb, j, s in d.statements(normal_only=True) if s["k"] == "assign" and "p" in s["place"]
              and [p.get("n") for p in s["place"]["p"] if isinstance(p, dict) and "f" in p] == ["root", "min_level"]]
        if len(wd) != 1:
            return False, "default_min_level must set the root's level", [], d.span
        # nodes created on the way to the registered path carry no level of their own (an intermediate module is not a rule)
        for bb, j, s2 in b.statements(normal_only=True):
            rv = s2.get("rv") if s2["k"] == "assign" else None
            if rv and rv["k"] == "agg" and (rv.get("adt") or "").endswith("PathNode"):
                f = dict(zip(rv.get("fields") or [], [b.origin(o) for o in rv["ops"]]))
                ml = f.get("min_level")
                if ml is None or not (ml[0] == "agg" and ml[1].get("variant") == "None"):
                    return False, "a node created for an intermediate segment starts with level %s, not None" % (o_str(ml) if ml else "?"), [], "%s:%s" % (b.file, s2.get("line"))
        # both stores are unconditional overwrites (a repeated registration replaces the earlier one, whichever level was there) of
        # exactly the level given
        if not b.must_pass([ws[0][0]]):
            return False, ("min_level sets the node's level only on some paths (e.g. only when none was registered): a repeated registration "
                           "would keep the first level instead of replacing it"), [], b.span
        wbb = [bb for bb, j, s2 in d.statements(normal_only=True) if s2 is wd[0]][0]
        od = d.origin(wd[0]["rv"]["op"]) if wd[0]["rv"]["k"] == "use" else ("unknown",)
        if not d.must_pass([wbb]) or not (od[0] == "agg" and od[1].get("variant") == "Some" and common.has_root(od, "param", 2)) or \
                any(c.callee.get("name") in ("take", "or", "or_else", "get_or_insert", "get_or_insert_with", "replace", "xor", "filter") for c in d.calls(normal_only=True)):
            return False, ("default_min_level does not simply overwrite the root's level with the one given (it stores %s): repeating the call "
                           "must replace the earlier default" % o_str(od)[:100]), [], d.span
        return True, "", [b.span, d.span]
    chk.ob("C17.R5:registration", "registering a path sets (overwrites) the level of exactly that node; the default sets the root", registration)

    def from_iter():
        """collecting pairs into a map is the same as registering them one by one, in the order given"""
        bs = [b for k, b in P.bodies.items() if "MinLevelPathMap" in k and k.endswith("::from_iter") and "FromIterator" in k]
        if not bs:
            raise mir.AnchorMissing("impl FromIterator for MinLevelPathMap")
        # an inherent function of the same name would be picked ahead of the trait's by every `MinLevelPathMap::from_iter(..)` call
        # an inherent function of the same name is picked ahead of the trait's by every `MinLevelPathMap::from_iter(..)` call: it is held to
        # the same discipline
        shadow = [b2 for k, b2 in P.bodies.items() if "MinLevelPathMap" in k and re.search(r"::from_iter$", k) and "FromIterator" not in k and not b2.is_closure]
        def check_one(b):
            NEUTRAL = ("new", "default", "into_iter", "next", "min_level", "into", "from", "drop", "drop_in_place", "for_each", "by_ref")
            bodies = [b] + P.closures_of(b)
            for x in bodies:
                for c in x.calls(normal_only=True):
                    if c.callee.get("name") not in NEUTRAL:
                        return False, ("MinLevelPathMap::from_iter passes the pairs through %s at %s before registering them: reordering, "
                                       "de-duplicating or dropping pairs changes which of two registrations of one path wins "
                                       "(min_level overwrites, so the last one must)" % (c.callee.get("name"), c.loc)), [], c.loc
            regs = [(x, c) for x in bodies for c in x.calls(normal_only=True) if c.callee.get("name") == "min_level"]
            if len(regs) != 1:
                return False, "MinLevelPathMap::from_iter registers through %d min_level calls (expected one per pair)" % len(regs), [], b.span
            x, reg = regs[0]
            if x is b:
                nx = [c for c in b.calls(normal_only=True) if c.callee.get("name") == "next"]
                if len(nx) != 1 or not b.in_cycle(nx[0].bb) or not b.in_cycle(reg.bb):
                    return False, "MinLevelPathMap::from_iter does not register inside one loop over the input", [], reg.loc
                it = b.origin(nx[0].args[0], through_calls=("by_ref",))
                while it[0] in ("ref", "deref"):
                    it = it[1]
                if not (it[0] == "call" and it[1].callee.get("name") == "into_iter" and mir.o_is_param(b.origin(it[1].args[0]), idx=1)):
                    return False, "MinLevelPathMap::from_iter iterates %s, not the input itself" % o_str(it), [], nx[0].loc
                # every pair the iterator yields is registered before the next is taken
                some = [n for v, n in b.blocks[[i for i, t in b.switches() if (lambda so: so[0] == "discr" and so[1][0] == "call" and so[1][1].bb == nx[0].bb)(b.switch_origin(i))][0]]["term"]["targets"] if v == "1"]
                if not some or not b.must_pass([reg.bb], start=some[0], ends=[nx[0].bb]):
                    return False, "a pair taken from the input can reach the next iteration without being registered", [], reg.loc
                for i, want in ((1, "0"), (2, "1")):
                    o = b.origin(reg.args[i])
                    f = o
                    while f[0] in ("cast", "copy"):
                        f = f[1]
                    if not (f[0] == "field" and str(f[2]) == want and (lambda r: r[0] == "call" and r[1].bb == nx[0].bb)(mir.o_root(f[1]))):
                        return False, "min_level argument %d is %s, not component %s of the pair just taken" % (i, o_str(o), want), [], reg.loc
            else:
                fe = [c for c in b.calls(normal_only=True) if c.callee.get("name") == "for_each"]
                if len(fe) != 1:
                    return False, "MinLevelPathMap::from_iter registers from a closure that is not the body of one for_each", [], reg.loc
                it = b.origin(fe[0].args[0])
                if not (it[0] == "call" and it[1].callee.get("name") == "into_iter" and mir.o_is_param(b.origin(it[1].args[0]), idx=1)):
                    return False, "MinLevelPathMap::from_iter iterates %s, not the input itself" % o_str(it), [], fe[0].loc
                if not x.must_pass([reg.bb]):
                    return False, "the for_each body can return without registering its pair", [], reg.loc
            recv = mir.o_root(x.origin(reg.args[0]))
            ret = mir.o_root(b.origin(0))
            if not (ret[0] == "call" and ret[1].callee.get("name") in ("new", "default")):
                return False, "MinLevelPathMap::from_iter returns %s, not the map it filled" % o_str(ret), [], b.span
            return True, "", ["%s: one min_level(pair.0, pair.1) per item of into_iter(input), in input order, into the returned map" % reg.loc]
        out = []
        for b in bs[:1] + shadow:
            r = check_one(b)
            if not r[0]:
                return r
            out += r[2]
        return True, "", out
    chk.ob("C17.R5:from_iter", "collecting (path, level) pairs registers each pair once, in the order given (so the last of two "
           "registrations of one path wins, as it does for min_level calls)", from_iter)

    def segments():
        b = P.body("emit_core::path::Path::<'a>::segments")
        sp = [c for c in b.calls(normal_only=True) if c.callee.get("name") in ("split", "split_terminator", "rsplit", "splitn")]
        if not sp or any(c.callee["name"] != "split" or mir.o_const_value(b.origin(c.args[1])) != "::" for c in sp):
            return False, "Path::segments must split on \"::\"", [], b.span
        return True, "", [c.loc for c in sp]
    chk.ob("C17.R5:Path::segments", "module paths are split at `::` boundaries only", segments)

    def option_filter():
        b = P.impl_method(FILTER, "core::option::Option<F>", "matches")
        return True, "checked in C01.S2.option (None behaves as Empty: accept)", [b.span]
    chk.ob("C17.R4:unregistered-accepts", "no applicable rule means accept (Option<Filter>::None == Empty, see C01)", option_filter)

    common.fromvalue_rule(chk, P, "C17", ["emit::level::Level"])
    common.arg_agreement_rule(chk, P, "C17", [("emit", "src/level.rs")], 1)
    common.builder_rules(chk, P, "C17", lambda b: b.key.startswith("emit::level::MinLevelFilter::<"), 1)
    common.level_parser_table(chk, P, "C17")
    level_parse_rule(chk, P, "C17.R2:level-parse")
    span_filter_sees_level(chk, P, "C17.R6:span-filter-sees-level")
    if not getattr(chk, "_overlay", None):
        from . import shapes
        shapes.macro_level_used(chk, P, "C17.R6:macro-level-used")
    return chk
