"""C13 — every sink encodes every event faithfully and never panics the caller.

Decided: an inventory of panic-capable sites reachable from the four sinks' emit() (call graph over
workspace bodies plus every workspace impl of sval/fmt/serde traits in the sink crates, which dependency
code calls back into); no thread-local RefCell borrow is held across a call into user value code; event
properties are enumerated through dedup() in every encoder; every hand-written (label, index) pair of the
OTLP encoders names a field of the official schema with that tag and JSON name; well-known keys are lifted
out of the generic attribute list."""
import glob
import os
import re

from . import common, mir, panics
from .mir import o_str

EM = "emit_core::emitter::Emitter"
PROPS = "emit_core::props::Props"
FOREIGN = re.compile(r"^(sval::|sval_ref::|core::fmt::|serde::|core::error::Error|std::error::Error)")

ALLOW = {
    (r"<emit_otlp::data::Json as emit_otlp::data::RawEncoder>::encode$", "call:expect"):
        (1, "sval_json fails only if a Display/Value impl reports an error its writer did not produce (fmt contract)"),
    (r"<emit_otlp::data::Proto as emit_otlp::data::RawEncoder>::encode::\{closure#\d+\}$", "call:unwrap"):
        (1, "protobuf encoding into memory is infallible; fails only if a Value impl invents an error"),
    (r"<emit_otlp::data::Proto as emit_otlp::data::RawEncoder>::encode::\{closure#\d+\}$", "assert:overflow:Add"):
        (1, "per-thread counter of encoded payloads (usize)"),
    (r"RawPointSet<'a, A> as emit_otlp::data::metrics::DataPointBuilder>::into_points$", "index:slice"):
        (2, "slices of the collected points bounded by their own length (read with the code)"),
    (r"RawPointSet<'a, A> as emit_otlp::data::metrics::DataPointBuilder>::into_points$", "assert:overflow:Add"):
        (1, "timestamp stepping bounded by the extent"),
    (r"PropsSpanAttributes<TR, SP, P> as sval::value::Value>::stream$", "call:unwrap"):
        (1, "props.get(KEY_ERR) under has_err, which was set from the same key during enumeration"),
    (r"<emit_term::hex_slice::HexSlice<'a> as core::fmt::Display>::fmt$", "index:slice"):
        (1, "fixed 2-byte window of a local array"),
    (r"<emit_term::hex_slice::HexSlice<'a> as core::fmt::Display>::fmt$", "call:unwrap"):
        (1, "from_utf8 of ASCII hex digits"),
    (r"^<emit_file::EventBatch as emit_batcher::Channel>::len$", "assert:overflow:Sub"):
        (1, "index <= bufs.len() is the cursor invariant (C10.R7/R8)"),
    (r"^emit_file::EventBatch::push$", "assert:overflow:Add"):
        (1, "sum of in-memory buffer lengths cannot overflow usize"),
}

KNOWN_TODO = "OTLP AnyStream::%s: a property value that is a map with non-string keys hits todo!() on the emitting thread"


def sink_bodies(P):
    roots = []
    for ty in ("emit_otlp::client::OtlpInner", "emit_otlp::client::Otlp", "emit_file::FileSetInner", "emit_file::FileSet",
               "emit_term::Stdout", "emit_term::Stderr"):
        roots.append(P.impl_method(EM, ty, "emit"))
    seen, pred = P.reachable(roots, follow=("direct", "closure", "fanout"),
                             stop=lambda k: k.startswith("emit_batcher::") or k.startswith("emit_core::") or k.startswith("emit::"))
    out = {k for k in seen if P.bodies[k].crate in ("emit_otlp", "emit_file", "emit_term")}
    # callbacks from dependencies: every workspace impl of a foreign serialisation/formatting trait in the sinks' data code
    for b in P.bodies.values():
        if b.crate not in ("emit_otlp", "emit_file", "emit_term"):
            continue
        root = (P.bodies.get(b.root_key) or b) if b.root_key else b
        tr = root.trait or ""
        if FOREIGN.match(tr):
            if b.crate == "emit_otlp" and not ("/data" in b.file or b.file.endswith("data.rs")):
                continue
            out.add(b.key)
    # one more closure/direct step from the added bodies
    seen2, _ = P.reachable(list(out), follow=("direct", "closure", "fanout"),
                           stop=lambda k: k.startswith("emit_batcher::") or k.startswith("emit_core::") or k.startswith("emit::"))
    out |= {k for k in seen2 if P.bodies[k].crate in ("emit_otlp", "emit_file", "emit_term")}
    # not on the emitting thread: transport / worker side
    out = {k for k in out if not re.search(r"client::http|Worker::|ActiveFile|StdFilesystem|bytes::buf|OtlpTransport|spawn", k)}
    return [P.bodies[k] for k in sorted(out)]


def tag_overrides_rule(chk, P, key):
    """sval's provided Stream::tag is what turns `Option::None` (a value tagged RUST_OPTION_NONE) into null and a unit variant into its label.
    A stream in the OTLP encoders that overrides `tag` keeps that distinction only if it looks at the tag it is given: an override that
    ignores the tag parameter treats `None` like any other unit (exported as the text "None", or accepted as an empty sample)."""
    def f():
        ev = []
        n = 0
        for i in P.impls:
            if i.get("trait") != "sval::stream::Stream":
                continue
            for it in i.get("items", ()):
                if it.get("kind") != "Fn":
                    continue
                b = P.bodies.get(it["key"])
                if b is None or b.crate != "emit_otlp" or "generated" in b.file:
                    continue
                n += 1
                if it["name"] in ("tag", "tagged_begin", "tag_hint"):
                    if it["name"] == "tag" and not b.uses(2, normal_only=True):
                        return False, ("%s overrides sval's `tag` without looking at the tag it is given: `Option::None` (tagged RUST_OPTION_NONE, null by "
                                       "default) is no longer told apart from a unit variant" % b.key), [], b.span
                    ev.append("%s reads its tag" % b.key)
        if n < 20:
            raise mir.AnchorMissing("sval::Stream methods defined by the OTLP encoders (found %d)" % n)
        return True, "", ev or ["%d Stream methods in the OTLP encoders, none overrides `tag`" % n]
    chk.ob(key, "no sval stream of the OTLP encoders overrides `tag` without examining the tag (Option::None stays null)", f)


# ---- R6: value conversions in the sinks keep the value ---------------------------------------------------------------------------------
LOSSY_ALLOW = {
    (r"^emit_file::rolling_millis$", "u128", "u32"): "milliseconds within one day/hour/minute fit 32 bits",
    (r"^emit_file::rolling_id$", "u64", "u32"): "a random id: truncation keeps randomness",
    (r"LogsEventEncoder as emit_otlp::data::EventEncoder>::encode_event", "u128", "u64"): "unix nanoseconds until 2554 fit 64 bits (OTLP's field type)",
    (r"MetricsEventEncoder as emit_otlp::data::EventEncoder>::encode_event", "u128", "u64"): "unix nanoseconds (OTLP's field type)",
    (r"TracesEventEncoder as emit_otlp::data::EventEncoder>::encode_event", "u128", "u64"): "unix nanoseconds (OTLP's field type)",
}
INT = {"u8": (0, 2 ** 8 - 1), "u16": (0, 2 ** 16 - 1), "u32": (0, 2 ** 32 - 1), "u64": (0, 2 ** 64 - 1), "usize": (0, 2 ** 64 - 1),
       "u128": (0, 2 ** 128 - 1), "i8": (-2 ** 7, 2 ** 7 - 1), "i16": (-2 ** 15, 2 ** 15 - 1), "i32": (-2 ** 31, 2 ** 31 - 1),
       "i64": (-2 ** 63, 2 ** 63 - 1), "isize": (-2 ** 63, 2 ** 63 - 1), "i128": (-2 ** 127, 2 ** 127 - 1)}


def lossless_casts_rule(chk, P, key):
    def lossless_casts():
        n = 0
        for b in P.bodies.values():
            if b.crate not in ("emit_otlp", "emit_file", "emit_term") or "generated" in b.file:
                continue
            for bb, j, st in b.statements(normal_only=True):
                if st["k"] != "assign" or st["rv"]["k"] != "cast":
                    continue
                f, t = st["rv"].get("from_ty"), st["rv"].get("ty")
                if f in INT and t in INT and not (INT[t][0] <= INT[f][0] and INT[f][1] <= INT[t][1]):
                    n += 1
                    if not any(re.search(rx, b.key) and f == ff and t == tt for (rx, ff, tt) in LOSSY_ALLOW):
                        return False, ("%s casts %s to %s with `as` at %s:%s: a value outside the target's range changes (wraps or changes sign) on "
                                       "its way to the output - e.g. a u64 above i64::MAX would be exported as a negative intValue instead of decimal "
                                       "text" % (b.key, f, t, b.file, st.get("line"))), [], "%s:%s" % (b.file, st.get("line"))
        return True, "", ["%d narrowing casts, all in the allow table" % n]
    chk.ob(key, "no integer is narrowed or sign-changed with `as` on its way to a sink's output (outside a reasoned table of timestamps/ids)", lossless_casts)


def run(chk):
    P = mir.Program("K1")
    chk.use_program(P)
    chk.explain("R1 panic-site inventory (explicit panics, unwrap/expect, index/overflow/div asserts, str range indexing) over "
                "every body reachable from the four sinks' emit() in the workspace call graph, plus all workspace impls of "
                "sval/sval_ref/fmt/serde traits in the sinks' data code (dependency callbacks), each discharged structurally "
                "or by an allow row with a reason; todo!() sites are known findings; R1b no thread-local RefCell borrow is "
                "held across Value::stream (re-entrant emit); R2 event props are enumerated through Props::dedup() in every "
                "encoder; R3 every hand-written sval (label, index) pair in the OTLP encoders names a field of the vendored "
                "official schema (prost-generated) with that tag and lowerCamelCase JSON name; R4 well-known keys are lifted "
                "to their dedicated fields and not also emitted as attributes; R5 the file writer's record fields are "
                "begin/end balanced.")
    chk.trust("rustc nightly; sval/sval_json/sval_protobuf/value-bag behaviour (dependencies are not analysed)")
    chk.assume("structure preservation, 128-bit/non-finite number rendering and JSON well-formedness are the work of dependencies and "
               "are not decided; the sparkline index is discharged by shape (normalise-then-scale), assuming each value lies between the folded min and max")
    chk.exhaustive = False

    bodies = sink_bodies(P)
    chk.floor("bodies on the sinks' emitting paths (incl. serialisation callbacks)", len(bodies), 150)

    # ---- R1 ---------------------------------------------------------------------------------------------------------------
    todo_bodies = []
    rest = []
    for b in bodies:
        ss = panics.sites(b)
        if any(s["kind"] == "call:panic" and "todo" in (s.get("macros") or []) for s in ss):
            todo_bodies.append(b)
        else:
            rest.append(b)
    for b in todo_bodies:
        ss = [s for s in panics.sites(b) if s["kind"] == "call:panic"]
        chk.fail("C13.R1.todo:AnyStream::%s" % (b.method or b.name),
                 "no explicit panic is reachable from a sink's emit()",
                 "%s contains todo!() at %s, reachable from <OtlpInner as Emitter>::emit through stream_attribute -> "
                 "EmitValue::stream_ref -> AnyStream when a property value is a map whose key is not a string: the emitting "
                 "thread panics" % (b.key, ss[0]["loc"]), loc=ss[0]["loc"])
    n, u = panics.inventory_rule(chk, "C13.R1.panic", P, rest, ALLOW,
                                 "code on a sink's emitting path has no unaccounted panic-capable site")
    chk.floor("panic-capable sites inventoried on the emitting paths", n, 25)

    def refcell():
        found = []
        for b in bodies:
            for c in b.calls(normal_only=True):
                if c.callee.get("name") in ("borrow_mut", "borrow") and "RefCell" in (c.callee.get("full") or ""):
                    if c.dest is None or "p" in c.dest:
                        continue
                    held, at_term, rel = b.held_region(c.dest["l"], c.bb, unwind=False)
                    for bb in at_term:
                        t = b.blocks[bb]["term"]
                        if t["k"] == "call":
                            cs = mir.CallSite(b, bb, t)
                            nm = cs.callee.get("name")
                            tr = cs.callee.get("trait") or ""
                            if (nm in ("stream", "stream_ref", "fmt", "serialize") and FOREIGN.match(tr)) or nm in ("call_once", "call_mut", "call") \
                                    or "indirect" in cs.callee:
                                return False, ("%s holds the RefCell borrow taken at %s while calling %s at %s: streaming runs user "
                                               "code (Display/Value impls) that may emit again on this thread and re-enter the "
                                               "borrow -> 'already borrowed' panic in emit()" % (b.key, c.loc, cs.callee.get("full") or "a callback", cs.loc)), [], cs.loc
                    found.append(c.loc)
        if not found:
            return False, "expected RefCell borrows on the protobuf encoding path", [], None
        return True, "", found
    chk.ob("C13.R1b:no-borrow-across-user-code", "no RefCell borrow is held across a call into value/user code on the emitting path", refcell)

    def lock_guards(b):
        """(lock call, call whose result is the guard) for every Mutex / RwLock acquisition in a body."""
        out = []
        for c in b.calls(normal_only=True):
            if c.callee.get("name") in ("lock", "write", "read", "try_lock", "try_write", "try_read") and re.search(r"\b(Mutex|RwLock)\b", c.callee.get("full") or ""):
                g = c
                for c2 in b.calls(normal_only=True):
                    if c2.callee.get("name") in ("unwrap", "expect", "unwrap_or_else", "unwrap_unchecked", "into_inner") and c2.args:
                        o = b.origin(c2.args[0])
                        if o[0] == "call" and o[1].bb == c.bb:
                            g = c2
                out.append((c, g))
        return out

    def no_lock_across_user_code():
        """The sinks run user code on the emitting thread - the configured writer, Display / sval / serde impls of property values - and that code
        may panic or emit again through the same emitter.  A mutex held across it turns the first into a poisoned lock (`lock().unwrap()`
        then panics every later caller) and the second into a self-deadlock.  Today the sinks' emitting side takes no lock at all; the rule
        inspects every non-worker body of the sink crates (stored closures included, which the call graph cannot reach through `dyn Fn`).
        The same detector must find emit_batcher's state-lock regions on every run (positive control)."""
        control = sum(len(lock_guards(b)) for b in P.bodies.values() if b.crate == "emit_batcher" and "::tests::" not in b.key)
        if control < 7:
            raise mir.AnchorMissing("lock regions found by the detector in emit_batcher (positive control): %d" % control)
        n = 0
        for b in P.bodies.values():
            if b.crate not in ("emit_otlp", "emit_file", "emit_term") or "::tests::" in b.key:
                continue
            if re.search(r"client::http|Worker::|ActiveFile|StdFilesystem|OtlpTransport|spawn", b.key):
                continue
            for lockc, g in lock_guards(b):
                n += 1
                if g.dest is None or "p" in g.dest:
                    continue
                held, at_term, rel = b.held_region(g.dest["l"], g.bb, unwind=False)
                for bb in sorted(at_term):
                    t = b.blocks[bb]["term"]
                    if t["k"] != "call":
                        continue
                    cs = mir.CallSite(b, bb, t)
                    nm = cs.callee.get("name")
                    tr = cs.callee.get("trait") or ""
                    if (nm in ("stream", "stream_ref", "fmt", "serialize") and FOREIGN.match(tr)) or nm in ("call_once", "call_mut", "call") or "indirect" in cs.callee:
                        return False, ("%s holds the lock taken at %s while calling %s at %s: that runs user code (the configured writer, a value's Display / "
                                       "serialisation) on the emitting thread - if it panics the lock is poisoned and every later emit panics in "
                                       "lock().unwrap(); if it emits through the same sink the thread deadlocks on itself"
                                       % (b.key, lockc.loc, cs.callee.get("full") or "a callback", cs.loc)), [], cs.loc
        return True, "", ["%d lock acquisitions outside the workers of emit_file/emit_otlp/emit_term; positive control: %d in emit_batcher" % (n, control)]
    from . import c10
    c10.buffer_rule(chk, P, "C13.R5:buffer-holds-one-event")
    chk.ob("C13.R1c:no-lock-across-user-code", "no mutex is held across the writer / value code a sink runs on the emitting thread", no_lock_across_user_code)

    # ---- R2 ----------------------------------------------------------------------------------------------------------------
    def dedup():
        sites = []
        for b in bodies:
            for c in b.calls(normal_only=True):
                if c.callee.get("name") == "for_each" and (c.callee.get("trait") == PROPS or c.callee.get("impl_trait") == PROPS):
                    ro = b.origin(c.args[0])
                    # is it the *event's* props?
                    names = []
                    x = ro
                    d = 0
                    while x[0] == "call" and d < 8:
                        names.append(x[1].callee.get("name"))
                        x = b.origin(x[1].args[0])
                        d += 1
                    is_evt = "props" in names or (x[0] == "param" and (x[2] or "") == "props") or (x[0] == "field" and x[2] == "props") \
                        or (x[0] == "capture" and "props" in x[1])
                    if not is_evt:
                        continue
                    sites.append(c.loc)
                    if "dedup" not in names:
                        return False, ("%s enumerates the event's properties at %s without de-duplicating them (no Props::dedup in "
                                       "`%s`): duplicate keys produce duplicate attributes and the last value of a well-known key "
                                       "wins instead of the first" % (b.key, c.loc, ".".join(reversed(names)) or o_str(ro))), [], c.loc
        if len(sites) < 3:
            return False, "expected at least 3 enumerations of event props in the encoders, found %d" % len(sites), [], None
        return True, "", sites
    chk.ob("C13.R2:dedup-uniform", "every encoder enumerates the event's properties through Props::dedup()", dedup)

    # ---- R3 ----------------------------------------------------------------------------------------------------------------
    schema_rule(chk, P)

    # ---- R4 -----------------------------------------------------------------------------------------------------------------
    def lifted(key_sub, what):
        def f():
            cands = [b for b in bodies if key_sub in b.key and b.is_closure]
            hits = []
            for b in cands:
                sa = [c for c in b.calls(normal_only=True) if c.callee.get("name") == "stream_attribute"]
                if not sa:
                    continue
                # arms guarded by equality with a well-known key must not reach stream_attribute
                for c in sa:
                    for gbb, vals, n in b.guards_of(c.bb):
                        so = b.switch_origin(gbb)
                        if so[0] == "call" and so[1].callee.get("name") in ("eq",) and list(vals) != ["0"]:
                            k = None
                            for a in so[1].args:
                                v = mir.o_const_value(b.origin(a))
                                if isinstance(v, str):
                                    k = v
                            if k in ("lvl", "trace_id", "span_id", "span_parent", "err"):
                                ko = b.origin(c.args[1])
                                if ("param", 3) in common.roots(ko) or ("param", 2) in common.roots(ko) and not any(kk == "const" for kk, vv in common.roots(ko)):
                                    return False, "the well-known key `%s` is also emitted under its own key as a generic attribute at %s" % (k, c.loc), [], c.loc
                hits.append(b.key)
            if not hits:
                raise mir.AnchorMissing("attribute closure of %s" % what)
            return True, "", hits
        return f
    def lifted_keys_kept(key_sub, what, dropped):
        def f():
            """In the attribute callbacks every arm for a well-known key *does something with the value*: it stores a value derived from the property into a
            variable of the enclosing function (the level, the ids, the error flag - read afterwards into the record's dedicated field) or streams
            something.  An arm that only returns Ok(()) drops the property; that is right for the keys in the small table below (they reach
            the record by another route), and for no other."""
            cands = [b for b in bodies if key_sub in b.key and b.is_closure and b.argc >= 4]
            ev = []
            for b in cands:
                arms = {}
                for gbb, t in b.switches():
                    so, pos = mir.norm_bool(b.switch_origin(gbb))
                    if so[0] == "call" and so[1].callee.get("name") in ("eq", "ne"):
                        k = None
                        for a in so[1].args:
                            v = mir.o_const_value(b.origin(a))
                            if isinstance(v, str):
                                k = v
                        if k is None:
                            continue
                        if so[1].callee.get("name") == "ne":
                            pos = not pos
                        for v_, tgt in [(v_, n_) for v_, n_ in t["targets"]] + [("otherwise", t["otherwise"])]:
                            if ((str(v_) != "0") == pos):
                                arms[k] = (gbb, tgt)
                if len(arms) < 3:
                    continue
                for k, (gbb, tgt) in sorted(arms.items()):
                    region = {x for x in range(len(b.blocks)) if not b.blocks[x].get("cleanup") and (x == tgt or b.edge_dominates(gbb, tgt, x))}
                    acts = False
                    for x in region:
                        for st in b.blocks[x]["stmts"]:
                            if st["k"] == "assign" and st["place"].get("p") and st["place"]["p"][0] == "*" and st["place"]["l"] <= b.argc + 40:
                                base = b.origin({"c": {"l": st["place"]["l"]}})
                                if any(r_[0] == "capture" or (r_[0] == "param" and r_[1] == 1) for r_ in common.roots(base)) or base[0] == "capture" or                                         (base[0] in ("field", "deref") and mir.o_root(base)[0] in ("param", "capture")):
                                    acts = True
                        tm = b.blocks[x]["term"]
                        if tm["k"] == "call" and (tm["callee"].get("name") or "").startswith(("stream_", "value", "seq_", "record_")):
                            acts = True
                    if not acts and k not in dropped:
                        return False, ("the arm for the well-known key `%s` in the %s attribute callback neither stores the property's value for the record's dedicated "
                                       "field nor streams anything: the property is dropped from the exported record" % (k, what)), [], "%s:%s" % (b.file, b.blocks[tgt]["term"].get("line"))
                    ev.append("%s: %s" % (k, "kept" if acts else "dropped (by table)"))
            if len(ev) < 4:
                raise mir.AnchorMissing("arms of the %s attribute callback (found %d)" % (what, len(ev)))
            return True, "", ev
        return f
    chk.ob("C13.R4:log-keys-kept", "every well-known key arm of the log record's attribute callback keeps the value (level, ids, error)",
           lifted_keys_kept("logs::log_record", "log record", ()))
    chk.ob("C13.R4:span-keys-kept", "every well-known key arm of the span's attribute callback keeps the value (level, ids, error flag)",
           lifted_keys_kept("traces::span", "span", ("evt_kind", "span_name")))
    chk.ob("C13.R4:log-attributes", "log records lift well-known keys to their fields instead of emitting them as attributes",
           lifted("logs::log_record", "log records"))
    chk.ob("C13.R4:span-attributes", "spans lift well-known keys to their fields instead of emitting them as attributes",
           lifted("traces::span", "spans"))

    # ---- R5 ------------------------------------------------------------------------------------------------------------------
    def file_record():
        bs = [b for b in bodies if b.crate == "emit_file" and b.trait == "sval::value::Value" and b.method == "stream"
              and [c for c in b.calls(normal_only=True) if c.callee.get("name") == "record_begin"]]
        if not bs:
            raise mir.AnchorMissing("the file writer's sval::Value impl")
        for b in bs:
            begins = [c for c in b.calls(normal_only=True) if c.callee.get("name") == "record_value_begin"]
            ends = [c for c in b.calls(normal_only=True) if c.callee.get("name") == "record_value_end"]
            if len(begins) != len(ends) or not begins:
                return False, "record_value_begin/end are unbalanced in the file writer (%d/%d)" % (len(begins), len(ends)), [], b.span
            def lab(c):
                o = b.origin(c.args[2])
                for k, v in common.roots(o):
                    if k == "const" and isinstance(v, str):
                        return v
                return None
            bl = sorted(filter(None, map(lab, begins)))
            el = sorted(filter(None, map(lab, ends)))
            if bl != el:
                return False, "record fields begun %s but ended %s" % (bl, el), [], b.span
            rb = [c for c in b.calls(normal_only=True) if c.callee.get("name") == "record_begin"]
            re_ = [c for c in b.calls(normal_only=True) if c.callee.get("name") == "record_end"]
            if len(rb) != 1 or len(re_) != 1:
                return False, "expected one record_begin and one record_end", [], b.span
            fe = [c for c in b.calls(normal_only=True) if c.callee.get("name") == "for_each"]
            for c in begins:
                if fe and not b.dominates(c.bb, fe[0].bb) and c.bb not in b.reachable_from(fe[0].bb):
                    pass
        return True, "", [b.span for b in bs]
    chk.ob("C13.R5:file-record", "the file writer opens and closes each fixed field with the same label, inside one record", file_record)


    # ---- R5: a property that fails to stream must fail the record, not be closed over ------------------------------------
    ERR_DOC = ("where a sink enumerates properties into an open sval structure and the per-property closure stops early (Break) on a stream "
               "error, the enclosing function does not go on to close the structure as if it were complete: the enumeration's ControlFlow is "
               "inspected, or the closure parks the error in a captured slot that is ?-checked before the closing call")
    CLOSERS = re.compile(r"^(record|seq|map|tuple|record_tuple|enum|tagged)_end$")

    def enumeration_sites():
        out = []
        for b in bodies:
            if b.crate not in ("emit_file", "emit_otlp", "emit_term") or "generated" in b.file:
                continue
            for fe in [c for c in b.calls(normal_only=True) if c.callee.get("name") == "for_each" and len(c.args) >= 2]:
                cl = mir.o_root(b.origin(fe.args[1]))
                if not (cl[0] == "agg" and cl[1].get("def")):
                    continue
                cb = P.bodies.get(cl[1]["def"])
                if cb is None:
                    continue
                inner = [cb] + P.closures_of(cb)
                breaks = [bb for bb, j, st in cb.statements(normal_only=True)
                          if st["k"] == "assign" and st["rv"]["k"] == "agg" and st["rv"].get("variant") == "Break"
                          and (st["rv"].get("adt") or "").endswith("ControlFlow")]
                # does an error feed the early exit?  (a Result is produced somewhere in the closure)
                fallible = [c for x in inner for c in x.calls(normal_only=True) if c.dest is not None and "p" not in c.dest
                            and re.match(r"(core::result::)?Result<", x.local_ty(c.dest["l"]))]
                if not breaks or not fallible:
                    continue
                after = b.reachable_from(fe.bb)
                closers = [c for c in b.calls(normal_only=True) if CLOSERS.match(c.callee.get("name") or "") and c.bb in after and c.bb != fe.bb]
                if closers:
                    out.append((b, fe, cb, closers))
        return out

    def error_reaches_caller(b, fe, cb, closers):
        # (A) the enumeration's ControlFlow decides whether the structure is closed: a switch on it (match / `?` / is_break() /
        # is_continue()) between the enumeration and the closing call has an outcome from which no closing call is reachable
        if fe.dest is not None and "p" not in fe.dest:
            al = set(b.value_aliases(fe.dest["l"])) | {fe.dest["l"]}

            def from_flow(o, d=0):
                if d > 6:
                    return False
                o2, _ = mir.norm_bool(o)
                if o2[0] == "discr":
                    return from_flow(o2[1], d + 1)
                if o2[0] == "local":
                    return o2[1] in al
                if o2[0] == "call":
                    if o2[1].bb == fe.bb:
                        return True
                    if o2[1].callee.get("name") in ("is_break", "is_continue", "branch", "break_value", "is_some", "is_none") and o2[1].args:
                        return from_flow(mir.o_root(b.origin(o2[1].args[0])), d + 1)
                if o2[0] in ("field", "downcast", "ref", "deref", "copy", "cast"):
                    return from_flow(o2[1], d + 1)
                return False
            for i2, t in b.switches():
                if i2 not in b.reachable_from(fe.bb) or not from_flow(b.switch_origin(i2)):
                    continue
                tgts = {n for v, n in t["targets"]} | {t["otherwise"]}
                if any(not ({c.bb for c in closers} & set(b.reachable_from(n))) for n in tgts):
                    return True, "%s: the enumeration's ControlFlow is inspected and one outcome skips %s" % (fe.loc, closers[0].callee.get("name"))
        clos_def = [st2 for bb2, j2, st2 in b.statements(normal_only=True)
                    if st2["k"] == "assign" and st2["rv"]["k"] == "agg" and st2["rv"].get("def") == cb.key]
        for st_bb, j, st in cb.statements(normal_only=True):
            pl = st["place"] if st["k"] == "assign" else None
            if not pl or pl["l"] != 1 or not pl.get("p"):
                continue
            fld = [x["f"] for x in pl["p"] if isinstance(x, dict) and "f" in x][:1]
            if not fld or st["rv"]["k"] != "use":
                continue
            val = cb.origin(st["rv"]["op"])
            if not (val[0] == "agg" and val[1].get("variant") == "Err"):
                continue
            slot = None   # the parent local the capture borrows
            for st2 in clos_def:
                ops = st2["rv"].get("ops") or []
                if fld[0] < len(ops):
                    l = mir.Body._op_local(ops[fld[0]])
                    for bb3, j3, st3 in b.statements(normal_only=True):
                        if st3["k"] == "assign" and "p" not in st3["place"] and st3["place"]["l"] == l and st3["rv"]["k"] == "ref" \
                                and "p" not in st3["rv"]["place"]:
                            slot = st3["rv"]["place"]["l"]
            if slot is None:
                continue
            al = set(b.value_aliases(slot)) | {slot}
            tests_bb = {c.bb for c in b.calls(normal_only=True) if c.callee.get("name") == "branch" and c.args
                        and mir.Body._op_local(c.args[0]) in al}
            for i2, t in b.switches():
                so = b.switch_origin(i2)
                if so[0] == "discr" and so[1][0] == "local" and so[1][1] in al:
                    tests_bb.add(i2)
            if tests_bb and all(b.must_pass(list(tests_bb), start=fe.bb, ends=[c.bb]) for c in closers):
                return True, "%s: the closure parks its error in a captured slot that is checked before %s" % (fe.loc, closers[0].callee.get("name"))
        return False, None

    try:
        esites = enumeration_sites()
    except mir.AnchorMissing:
        esites = []
    chk.floor("property enumerations into an open sval structure in the sinks", len(esites), 2)
    for (b, fe, cb, closers) in esites:
        def f(b=b, fe=fe, cb=cb, closers=closers):
            ok, how = error_reaches_caller(b, fe, cb, closers)
            if ok:
                return True, "", [how]
            c = closers[0]
            return False, ("%s stops enumerating properties when one fails to stream (the closure at %s breaks on Err) but discards that fact and "
                           "goes on to %s at %s: the output keeps the half-written property, is closed as if complete and reported as success"
                           % (b.key, fe.loc, c.callee.get("name"), c.loc)), [fe.loc, c.loc], fe.loc
        chk.ob("C13.R5.errors:%s" % re.sub(r"<'[a-z_]+(, [A-Z])*>|<[A-Z]>", "", b.key), ERR_DOC, f)

        def g(b=b, fe=fe, cb=cb, closers=closers):
            ok, how = error_reaches_caller(b, fe, cb, closers)
            if ok and b.crate == "emit_otlp":
                # the OTLP encoders treat streaming as infallible and unwrap its result on the emitting thread (allow rows of the panic
                # inventory: "fails only if a Value impl invents an error") - that is only true while a property's own error cannot get there
                for k2, b2 in sorted(P.bodies.items()):
                    if b2.crate == "emit_otlp" and re.search(r"as emit_otlp::data::RawEncoder>::encode($|::\{closure)", k2):
                        for c2 in b2.calls(normal_only=True):
                            if c2.callee.get("name") in ("unwrap", "expect") and c2.args:
                                src = b2.origin(c2.args[0])
                                if src[0] == "call" and src[1].callee.get("name") in ("stream", "stream_to_string", "stream_to_fmt", "stream_to_vec", "stream_to_protobuf"):
                                    return False, ("%s hands a property's own stream error (a Display / Serialize / sval::Value impl that fails) on to its caller, "
                                                   "but %s still %ss the streaming result at %s: the failure becomes a panic on the thread that emitted the event"
                                                   % (b.key, k2, c2.callee.get("name"), c2.loc)), [fe.loc, c2.loc], c2.loc
            return True, "", [how or "the error is not handed on"]
        if b.crate == "emit_otlp":
            chk.ob("C13.R5.errors-unwrapped:%s" % re.sub(r"<'[a-z_]+(, [A-Z])*>|<[A-Z]>", "", b.key),
                   "a property's stream error that is handed on to the caller does not meet an unwrap / expect in the OTLP encoders (no panic on the emitting thread)", g)


    # ---- R5: the "needs no escaping" hint is only ever put on constant identifier labels ------------------------------
    def ident_tags():
        n = 0
        for b in P.bodies.values():
            if b.crate not in ("emit_file", "emit_otlp", "emit_term"):
                continue
            for c in b.calls(normal_only=True):
                if c.callee.get("name") != "with_tag" or "Label" not in (c.callee.get("full") or c.callee.get("path") or ""):
                    continue
                n += 1
                recv = b.origin(c.args[0])
                ok = False
                if recv[0] == "call" and recv[1].callee.get("name") == "new" and recv[1].args:
                    v = mir.o_const_value(b.origin(recv[1].args[0]))
                    if isinstance(v, str) and re.match(r"^[A-Za-z_][A-Za-z0-9_]*$", v):
                        ok = True
                if not ok:
                    return False, ("a label built from %s is tagged at %s (VALUE_IDENT tells sval_json the text needs no escaping): a "
                                   "property key computed at run time can contain quotes, backslashes or newlines and would be "
                                   "written raw, breaking the one-valid-JSON-object-per-line output" % (o_str(recv), c.loc)), [], c.loc
        if n < 20:
            raise mir.AnchorMissing("Label::with_tag sites (found %d)" % n)
        return True, "", ["%d tagged labels, all Label::new(<identifier literal>)" % n]
    chk.ob("C13.R5:identifier-tags", "only labels that are identifier literals carry the no-escaping hint; computed keys are escaped", ident_tags)

    lossless_casts_rule(chk, P, "C13.R6:lossless-int-casts")

    def id_carriers():
        """The id types of the two raw encoders carry the id itself: the JSON (text) ones stream the id's own Display - 32 / 16 lower-case hex
        digits, zero padded, the form OTLP/JSON prescribes and the protobuf bytes denote - and the protobuf (binary) ones its big-endian
        bytes; neither re-formats the number on the way."""
        ev = []
        for ty, conv in (("TextTraceId", None), ("TextSpanId", None), ("BinaryTraceId", "to_u128"), ("BinarySpanId", "to_u64")):
            bs = [b for b in bodies if b.crate == "emit_otlp" and b.trait == "sval::value::Value" and b.method == "stream" and (b.self_ty or "").endswith("data::" + ty)]
            if not bs:
                raise mir.AnchorMissing("impl sval::Value for %s" % ty)
            b = bs[0]
            names = [c.callee.get("name") for c in b.calls(normal_only=True)]
            if conv is None:
                d = [c for c in b.calls(normal_only=True) if (c.callee.get("path") or "").startswith("sval::data::text::Display") and c.callee.get("name") == "new"]
                if len(d) != 1 or not mir.o_is_param(mir.o_root(b.origin(d[0].args[0])), idx=1) or mir.o_field_path(b.origin(d[0].args[0]))[1] != ["0"] \
                        or set(names) - {"new", "value_computed"}:
                    return False, ("%s streams %s, not the id's own Display: a hand-formatted id can differ from the 32/16 zero-padded hex digits the "
                                   "protobuf form denotes (`{:32x}` pads with spaces)" % (ty, [n for n in names if n not in ("new", "value_computed")] or
                                                                                         mir.o_str(b.origin(d[0].args[0])) if d else names)), [], b.span
            else:
                if names != [conv, "to_be_bytes", "new", "value_computed"]:
                    return False, "%s streams through %s, expected %s -> to_be_bytes -> BinaryArray::new" % (ty, names, conv), [], b.span
            ev.append(b.span)
        return True, "", ev
    chk.ob("C13.R3:id-carriers", "JSON ids are the id's own Display, protobuf ids its big-endian bytes", id_carriers)

    def metric_buckets():
        """A sequence-valued metric is spread over its extent in contiguous buckets: in the loop of RawPointSet::into_points a point's start is
        stored before the running time is advanced by one step and its end after; the single-point arm stores the like-named bounds."""
        bs = [b for b in bodies if "RawPointSet" in b.key and b.key.endswith("::into_points")]
        if not bs:
            raise mir.AnchorMissing("RawPointSet::into_points")
        b = bs[0]
        stores = {"start_time_unix_nano": [], "time_unix_nano": []}
        for bb, j, st in b.statements(normal_only=True):
            if st["k"] == "assign" and st["place"].get("p"):
                nm = [p.get("n") for p in st["place"]["p"] if isinstance(p, dict) and "n" in p][-1:]
                if nm and nm[0] in stores:
                    stores[nm[0]].append((bb, j, st))
        loop_s = [x for x in stores["start_time_unix_nano"] if b.in_cycle(x[0])]
        loop_t = [x for x in stores["time_unix_nano"] if b.in_cycle(x[0])]
        if len(loop_s) != 1 or len(loop_t) != 1:
            raise mir.AnchorMissing("one start and one end store in the bucket loop")
        # the running time: the local both stores read; its in-loop definition is the `+ step`
        def base_local(op, d=0):
            l = mir.Body._op_local(op)
            if l is None or d > 4:
                return l
            ds = [q for q in b.defs().get(l, ()) if q[2] == "assign"]
            if len(ds) == 1 and ds[0][3]["k"] == "use" and not b.local_name(l):
                inner = base_local(ds[0][3]["op"], d + 1)
                return inner if inner is not None else l
            return l
        run = base_local(loop_s[0][2]["rv"]["op"]) if loop_s[0][2]["rv"]["k"] == "use" else None
        run_t = base_local(loop_t[0][2]["rv"]["op"]) if loop_t[0][2]["rv"]["k"] == "use" else None
        if run is not None and run_t is not None and run != run_t:
            # the other spelling: `let end = t + step; start := t; end := end; t = end` - the end is a local computed as running time + step
            tds = [q for q in b.defs().get(run_t, ()) if q[2] == "assign" and b.in_cycle(q[0])]
            ok2 = False
            if len(tds) == 1:
                o = b._origin_def(tds[0], 0, (), set())
                r = o
                while r[0] in ("field", "cast", "copy"):
                    r = r[1]
                if r[0] == "binop" and r[1] in ("Add", "AddWithOverflow", "AddUnchecked"):
                    incs2 = [d for d in b.defs().get(run, ()) if d[2] == "assign" and b.in_cycle(d[0])]

                    def before2(p, q):
                        if p[0] == q[0]:
                            return p[1] < q[1]
                        return b.dominates(p[0], q[0]) and not b.dominates(q[0], p[0])
                    # the sum reads the running time before it is advanced, and so does the start
                    if len(incs2) == 1 and before2(tds[0], incs2[0]) and before2(loop_s[0], incs2[0]):
                        ok2 = True
            if ok2:
                return True, "", ["%s:%s" % (b.file, loop_s[0][2].get("line")), "%s:%s" % (b.file, loop_t[0][2].get("line"))]
        if run is None or run != run_t:
            return False, "the bucket's start and end are not taken from one running time", [], b.span
        incs = [d for d in b.defs().get(run, ()) if d[2] == "assign" and b.in_cycle(d[0])]
        if len(incs) != 1:
            return False, "the running time must be advanced exactly once per bucket (found %d in-loop definitions)" % len(incs), [], b.span
        inc = incs[0]
        io = b.origin({"m": {"l": run}})

        def before(p, q):
            if p[0] == q[0]:
                return p[1] < q[1]
            return b.dominates(p[0], q[0]) and not b.dominates(q[0], p[0])
        if not (before(loop_s[0], inc) and before(inc, loop_t[0])):
            return False, ("in the bucket loop of RawPointSet::into_points the order is not start := t; t += step; end := t (start %s:%s, advance %s, end %s:%s): "
                           "buckets come out empty or overlapping and the last one does not end at the event's end" %
                           (b.file, loop_s[0][2].get("line"), inc[3].get("line") if isinstance(inc[3], dict) else "?", b.file, loop_t[0][2].get("line"))), \
                [], "%s:%s" % (b.file, loop_t[0][2].get("line"))
        for nm in stores:
            for bb, j, st in stores[nm]:
                if not b.in_cycle(bb):
                    o = b.origin(st["rv"]["op"])
                    if not (o[0] == "param" and o[2] == nm):
                        return False, "a single point's %s is set from %s" % (nm, o_str(o)), [], "%s:%s" % (b.file, st.get("line"))
        return True, "", ["%s:%s" % (b.file, loop_s[0][2].get("line")), "%s:%s" % (b.file, loop_t[0][2].get("line"))]
    chk.ob("C13.R4:metric-buckets", "a sequence-valued metric's points are contiguous buckets: start, advance by one step, end", metric_buckets)

    def time_units():
        """Every OTLP time field is `*_unix_nano`: the encoders convert durations with as_nanos() only (an as_micros / as_millis / as_secs in
        the data encoders would put a value of another unit into a nanosecond field)."""
        UNITS = ("as_nanos", "as_micros", "as_millis", "as_secs", "as_secs_f64", "as_secs_f32", "subsec_nanos", "subsec_micros", "subsec_millis")
        n = 0
        for b in bodies:
            if b.crate != "emit_otlp" or "/data" not in b.file or "generated" in b.file or "::tests::" in b.key:
                continue
            for c in b.calls(normal_only=True):
                if c.callee.get("name") in UNITS and "Duration" in (c.callee.get("path") or ""):
                    n += 1
                    if c.callee.get("name") != "as_nanos":
                        return False, ("%s converts a duration with %s at %s: OTLP time fields are nanoseconds since the Unix epoch" %
                                       (b.key, c.callee.get("name"), c.loc)), [], c.loc
        if n < 5:
            raise mir.AnchorMissing("duration-to-nanosecond conversions in the OTLP encoders (found %d)" % n)
        return True, "", ["%d conversions, all as_nanos" % n]
    chk.ob("C13.R6:time-units", "OTLP timestamps are converted to nanoseconds, the unit of every *_unix_nano field", time_units)

    def timestamps_kept():
        """A sink may fall back to a default time only when the event has *no* extent.  If the Option chain that starts at `evt.extent()` is first
        narrowed (and_then(as_range), filter, ...) and then given a default, an event that does carry a timestamp - a span-kinded event with
        a point extent - is exported with time 0 instead of being declined (and picked up, timestamp intact, by the logs signal)."""
        SUBST = ("unwrap_or", "unwrap_or_default", "unwrap_or_else", "map_or", "map_or_else", "or", "or_else", "get_or_insert", "get_or_insert_with")
        NARROW = ("and_then", "filter", "take_if", "zip", "xor", "as_range", "filter_map", "ok", "then", "then_some")
        n = 0
        for enc in ("logs::LogsEventEncoder", "traces::TracesEventEncoder", "metrics::MetricsEventEncoder"):
            b = P.impl_method("emit_otlp::data::EventEncoder", "emit_otlp::data::" + enc, "encode_event")
            ext = 0
            for x in [b] + P.closures_of(b):
                for c in x.calls(normal_only=True):
                    if c.callee.get("name") == "extent":
                        ext += 1
                    if c.callee.get("name") not in SUBST or not c.args:
                        continue
                    names, o, d = [], x.origin(c.args[0]), 0
                    while o[0] == "call" and d < 12:
                        d += 1
                        names.append(o[1].callee.get("name"))
                        if not o[1].args:
                            break
                        o = x.origin(o[1].args[0])
                    if "extent" not in names:
                        continue
                    n += 1
                    cut = [nm for nm in names[:names.index("extent")] if nm in NARROW]
                    if cut:
                        return False, ("%s replaces the result of extent().%s(..) by a default (`%s` at %s): an event whose extent exists but does not pass "
                                       "`%s` is exported with a zero timestamp instead of being declined" % (b.key, cut[-1], c.callee.get("name"), c.loc, cut[-1])), [], c.loc
            if not ext:
                raise mir.AnchorMissing("evt.extent() in %s" % enc)
        return True, "", ["%d defaulted extent chains, none narrowed first" % n]
    chk.ob("C13.R6:timestamps-kept", "a default time replaces only an absent extent, never one that exists but is not of the wanted form", timestamps_kept)

    def metric_points_kept():
        """Metric samples reach the data points with their value and their times: the value extractor hands an integer / a float to the
        aggregator's like-flavoured push exactly once, and every path of `into_points` that yields points has stored the event's start time and
        time (the like-named parameters, or times computed from them) into the points."""
        ev = []
        n = 0
        for k, b in P.bodies.items():
            if b.crate != "emit_otlp" or b.is_closure or "metrics" not in b.file or "Extract<" not in k or b.method not in ("i64", "f64", "u64", "i128", "u128", "f32"):
                continue
            n += 1
            ps = [c for c in b.calls(normal_only=True) if (c.callee.get("name") or "").startswith("push_point_")]
            fl = "push_point_f64" if b.method.startswith("f") else "push_point_i64"
            if len(ps) != 1 or b.count_on_paths({ps[0].bb}) != (1, 1) or not common.has_root(b.origin(ps[0].args[1]), "param", 2):
                return False, ("the metric value extractor's `%s` does not push its value to the aggregator exactly once: the sample is missing from (or doubled in) "
                               "the exported data points" % b.method), [], b.span
            if b.method in ("i64", "f64") and ps[0].callee.get("name") != fl:
                return False, "the extractor's `%s` pushes through %s" % (b.method, ps[0].callee.get("name")), [], ps[0].loc
            ev.append(ps[0].loc)
        if n < 2:
            raise mir.AnchorMissing("numeric methods of the metric value extractor (found %d)" % n)
        m = 0
        for k, b in P.bodies.items():
            if b.crate != "emit_otlp" or b.is_closure or b.method != "into_points" or not (b.trait or "").endswith("DataPointBuilder") or b.trait_default:
                continue
            m += 1
            stores = {}
            for bb, j, st in b.statements(normal_only=True):
                if st["k"] == "assign" and st["place"].get("p"):
                    nm = [p_.get("n") for p_ in st["place"]["p"] if isinstance(p_, dict) and "n" in p_][-1:]
                    if nm and nm[0] in ("start_time_unix_nano", "time_unix_nano") and st["rv"]["k"] == "use":
                        stores.setdefault(nm[0], []).append((bb, b.origin(st["rv"]["op"])))
            aggs = [(bb, st) for bb, j, st in b.statements(normal_only=True) if st["k"] == "assign" and st["rv"]["k"] == "agg" and
                    [f_ for f_ in (st["rv"].get("fields") or []) if f_ in ("start_time_unix_nano", "time_unix_nano")]]
            somes = [bb for bb, j, st in b.statements(normal_only=True) if st["k"] == "assign" and st["place"]["l"] == 0 and "p" not in st["place"]
                     and st["rv"]["k"] == "agg" and st["rv"].get("variant") == "Some"]
            if not somes:
                raise mir.AnchorMissing("a Some(points) result in %s" % k)
            for fld, pidx in (("start_time_unix_nano", 2), ("time_unix_nano", 3)):
                sites = {bb for bb, o in stores.get(fld, []) if any(r[0] == "param" and r[1] in (2, 3) for r in common.roots(o))} | {bb for bb, st in aggs}
                # a store inside the loop over the points counts at the loop's header (the points exist, so the body runs)
                sites = sites | {h for s_, h in b.back_edges() if any(x in b.loop_body(h) for x in sites)}
                for sb in somes:
                    if not sites or not b.must_pass(sites, ends={sb}):
                        return False, ("%s can yield points (Some at bb%d) without having stored the event's %s into them: the data point is exported with "
                                       "time 0" % (k, sb, fld)), [], b.span
                direct = [o for bb, o in stores.get(fld, []) if o[0] == "param"]
                if any(o[1] != pidx for o in direct):
                    return False, "%s stores parameter `%s` into %s" % (k, b.local_name([o for o in direct if o[1] != pidx][0][1]), fld), [], b.span
            ev.append(b.span)
        if m < 2:
            raise mir.AnchorMissing("into_points impls (found %d)" % m)
        return True, "", ev
    def terminal_record():
        """The terminal writer's record carries what the property calls faithful output, wherever the event has it: on every path the rendered message
        (`evt.msg().write(..)`) followed by a newline; behind the `Some` edge of `evt.extent()` a timestamp taken from that extent, before the
        message; behind the `Some` edge of the module's first segment that segment, before the message; and `Writer::emit` prints the buffer
        it rendered into."""
        b = P.body("emit_term::write_event")
        msg = [c for c in b.calls(normal_only=True) if c.callee.get("name") == "write" and c.args and mir.o_is_call(b.origin(c.args[0]), name="msg")]
        if len(msg) != 1 or not b.must_pass({msg[0].bb}):
            return False, "the terminal record does not contain the rendered message on every path", [], b.span
        nl = [c for c in b.calls(normal_only=True) if c.callee.get("name") == "write_plain" and len(c.args) > 1 and mir.o_const_value(b.origin(c.args[1])) == "\n"
              and b.dominates(msg[0].bb, c.bb)]
        if not nl or not b.must_pass({c.bb for c in nl}):
            return False, "the message line of the terminal record is not terminated by a newline on every path", [], msg[0].loc
        def some_edge(call_name):
            for bb, t in b.switches():
                so = b.switch_origin(bb)
                if so[0] == "discr" and mir.o_is_call(so[1], name=call_name):
                    return bb, [n for v, n in t["targets"] if str(v) == "1"], so[1][1]
            return None
        ext = some_edge("extent")
        if ext is None:
            raise mir.AnchorMissing("the test of evt.extent() in the terminal writer")
        ts = {c.bb for c in b.calls(normal_only=True) if c.callee.get("name") == "write_timestamp" and len(c.args) > 1 and
              any(k == "callsite" and v == ext[2].bb for k, v in common.roots(b.origin(c.args[1])))}
        if not ts or not all(b.must_pass(ts, start=n, ends={msg[0].bb}) for n in ext[1]):
            return False, "an event that has an extent can reach its message line without a timestamp taken from that extent having been written", [], b.span
        seg = some_edge("next")
        if seg is None:
            raise mir.AnchorMissing("the test of the module's first segment in the terminal writer")
        md = {c.bb for c in b.calls(normal_only=True) if c.callee.get("name") in ("write_fg", "write_plain", "try_write_fg") and len(c.args) > 1 and
              any(k == "callsite" and v == seg[2].bb for k, v in common.roots(b.origin(c.args[1])))}
        if not md or not all(b.must_pass(md, start=n, ends={msg[0].bb}) for n in seg[1]):
            return False, "an event's module can be left out of the terminal record", [], b.span
        w = P.body("emit_term::Writer::emit")
        ok = False
        for x in [w] + P.closures_of(w):
            we = [c for c in x.calls(normal_only=True) if (c.callee.get("path") or "") == "emit_term::write_event"]
            pr = [c for c in x.calls(normal_only=True) if c.callee.get("name") == "print"]
            if we and pr and x.dominates(we[0].bb, pr[0].bb) and mir.o_root(x.origin(we[0].args[0])) == mir.o_root(x.origin(pr[0].args[1])):
                ok = True
        if not ok:
            return False, "Writer::emit does not print the buffer write_event rendered into", [], w.span
        return True, "", [msg[0].loc] + sorted("%s" % c.loc for c in b.calls(normal_only=True) if c.bb in ts | md)
    chk.ob("C13.R9:terminal-record", "the terminal record has the message line, and the timestamp and module of every event that carries them", terminal_record)

    metric_seq_flag_rule(chk, P, "C13.R8:metric-seq-flag")
    chk.ob("C13.R8:metric-points-kept", "a metric sample reaches its data point with its value, start time and time", metric_points_kept)

    # every property reaches the sinks by enumeration: a props list that ends its own enumeration early (an absent #[emit::optional] value) loses
    # every later property from the file record and the OTLP attributes (shared with C02)
    from . import c02
    c02.loop_exit_rule(chk, P, "C13.R2:loop-exits")
    c02.no_truncating_adaptors_rule(chk, P, "C13.R2:no-truncating-adaptors")
    from . import anystream
    anystream.rules(chk, P, "C13.R7")
    anystream.values_balanced(chk, P)

    def point_arithmetic():
        """Integer metric points are accumulated with overflow detection: an integer written to a data point comes straight from the
        input or from the Some payload of a checked operation; a clamped or wrapped total is not the sum and must not be exported
        as an exact integer."""
        DPB = "emit_otlp::data::metrics::DataPointBuilder"
        bs = [b for b in P.bodies.values() if b.crate == "emit_otlp" and (b.trait == DPB or (not b.is_closure and False)) and b.method in ("push_point_i64", "push_point_f64")]
        bs = [x for b in bs for x in [b] + P.closures_of(b)]
        if len(bs) < 4:
            raise mir.AnchorMissing("DataPointBuilder::push_point_* impls (found %d)" % len(bs))
        n = 0
        ev = []
        for b in bs:
            for c in b.calls(normal_only=True):
                nm = c.callee.get("name") or ""
                if re.match(r"core::num::<impl [iu](8|16|32|64|128|size)>::", c.callee.get("path") or ""):
                    n += 1
                    if re.match(r"(saturating|wrapping|overflowing|unchecked)_", nm):
                        return False, ("%s combines integer points with %s at %s: past i64::MIN/MAX the exported intValue is a clamped or wrapped "
                                       "number, not the sum of the points (an overflow must leave the integer representation instead)"
                                       % (b.key, nm, c.loc)), [], c.loc
                    if nm.startswith("checked_"):
                        ev.append("%s: %s" % (c.loc, nm))
            for bb, j, st in b.statements(normal_only=True):
                if st["k"] == "assign" and st["rv"]["k"] == "binop" and st["rv"]["op"] in ("Add", "Sub", "Mul", "AddUnchecked", "SubUnchecked", "MulUnchecked") \
                        and b._op_ty(st["rv"]["a"]) in INT:
                    return False, ("%s combines integer points with a wrapping %s at %s:%s" % (b.key, st["rv"]["op"], b.file, st.get("line"))), [], "%s:%s" % (b.file, st.get("line"))
        if not ev:
            return False, "no overflow-checked integer accumulation found in the sum point builder", [], None
        return True, "", ev + ["%d integer operations in %d point-builder bodies" % (n, len(bs))]
    chk.ob("C13.R6:point-arithmetic", "integer metric points are summed with overflow detection (checked, never clamped or wrapped)", point_arithmetic)

    def typed_casts_only():
        """Well-known values (level, ids, kind ...) are read from properties with the typed cast (typed value, else its text form), never by a
        bare downcast or a borrowed-string view, which would miss textual, Display-captured or buffered values."""
        n = 0
        for b in P.bodies.values():
            if b.crate not in ("emit_otlp", "emit_file", "emit_term"):
                continue
            for c in b.calls(normal_only=True):
                pth = c.callee.get("path") or ""
                if "value::Value" in pth and c.callee.get("name") in ("downcast_ref", "to_borrowed_str"):
                    return False, ("%s reads a property with Value::%s at %s: only the exact typed / borrowed-string carrier is recognised, so a textual "
                                   "level such as `lvl: \"warn\"` (or a buffered id) is silently replaced by the default in the dedicated field"
                                   % (b.key, c.callee.get("name"), c.loc)), [], c.loc
                if "value::Value" in pth and c.callee.get("name") in ("cast", "parse", "to_cow_str", "to_f64_sequence", "as_f64_sequence"):
                    n += 1
        if n < 8:
            raise mir.AnchorMissing("typed casts of property values in the sinks (found %d)" % n)
        return True, "", ["%d typed casts" % n]
    chk.ob("C13.R4:typed-casts", "the sinks read well-known values with the typed cast (typed, else parsed from text), never with a bare downcast", typed_casts_only)

    common.arg_agreement_rule(chk, P, "C13", [("emit_otlp", None), ("emit_term", None)], 30)
    common.variant_arm_agreement_rule(chk, P, "C13.R3:encoding-arms", "protobuf arms use the protobuf encoder and label, JSON arms the JSON ones (the two "
                                      "encodings denote the same records only if neither is mislabelled)",
                                      lambda b: b.crate == "emit_otlp" and "generated" not in b.file and "::tests::" not in b.key, ("Proto", "Json"), 8)
    tag_overrides_rule(chk, P, "C13.R4:tag-overrides")
    points_declined_rule(chk, P, "C13.R8:declined-only-when-empty")
    # the encoders' own error discipline: every step of a hand-written sval::Value / sval::Stream / Display impl of the OTLP data code and of the
    # file writer hands its outcome on (`?`, returned, matched) - a dropped `Err` leaves a frame half-written while the rest goes on
    common.results_inspected_rule(
        chk, P, "C13.R5:results-inspected", "no streaming or formatting step in the OTLP data code or the file writer has its Result discarded (the terminal writer ignores I/O errors by design)",
        lambda b: ((b.crate == "emit_otlp" and "/data" in b.file and "generated" not in b.file)
                   or (b.crate == "emit_file" and re.search(r"default_writer|write_event|EventWriter|FileBuf", b.key) is not None)) and "::tests::" not in b.key,
        {(r"emit_otlp::data::stream_attributes$", "for_each"): "KNOWN FINDING D20 (C13.R5.errors): the enumeration's outcome is dropped",
         }, 150)
    from . import shapes
    shapes.sum_points_add(chk, P, "C13.R8:sum-accumulates")
    shapes.range_is_end_minus_start(chk, P, "C13.R8:range-end-minus-start")
    decline_conditions_rule(chk, P, "C13.R8:decline-conditions")
    span_status_rule(chk, P, "C13.R4:span-status-by-level")
    return chk


# ---- schema agreement (table cross-check; declarative fragments only) ------------------------------------------------------

def lower_camel(name):
    parts = name.split("_")
    return parts[0] + "".join(p[:1].upper() + p[1:] for p in parts[1:])


def variant_to_json(name):
    return name[:1].lower() + name[1:]


def parse_official(repo):
    """package -> set of (jsonName, tag)"""
    out = {}
    for f in glob.glob(os.path.join(repo, "emitter/otlp/src/data/generated/*.rs")):
        pkg = os.path.basename(f)[:-3]
        s = open(f).read()
        pairs = set()
        for m in re.finditer(r"#\[prost\(([^\]]*?)\)\]\s*(?:pub\s+)?([A-Za-z_][A-Za-z0-9_]*)\s*[:(]", s, re.S):
            attrs, name = m.group(1), m.group(2)
            t = re.search(r'tag\s*=\s*"(\d+)"', attrs)
            if t:
                j = lower_camel(name[2:] if name.startswith("r#") else name) if name[0].islower() else variant_to_json(name)
                pairs.add((j, int(t.group(1))))
            ts = re.search(r'tags\s*=\s*"([\d,\s]+)"', attrs)
        out[pkg] = pairs
    return out


FILE_PKGS = [
    (r"data/logs/export_logs_service\.rs$", ["opentelemetry.proto.collector.logs.v1", "opentelemetry.proto.logs.v1"]),
    (r"data/traces/export_trace_service\.rs$", ["opentelemetry.proto.collector.trace.v1", "opentelemetry.proto.trace.v1"]),
    (r"data/metrics/export_metrics_service\.rs$", ["opentelemetry.proto.collector.metrics.v1", "opentelemetry.proto.metrics.v1"]),
    (r"data/logs", ["opentelemetry.proto.logs.v1", "opentelemetry.proto.collector.logs.v1"]),
    (r"data/traces", ["opentelemetry.proto.trace.v1", "opentelemetry.proto.collector.trace.v1"]),
    (r"data/metrics", ["opentelemetry.proto.metrics.v1", "opentelemetry.proto.collector.metrics.v1"]),
    (r"data/any_value\.rs$", ["opentelemetry.proto.common.v1"]),
    (r"data/resource\.rs$", ["opentelemetry.proto.resource.v1", "opentelemetry.proto.common.v1"]),
    (r"data/instrumentation_scope\.rs$", ["opentelemetry.proto.common.v1"]),
    (r"data\.rs$", ["opentelemetry.proto.common.v1", "opentelemetry.proto.logs.v1", "opentelemetry.proto.trace.v1", "opentelemetry.proto.metrics.v1"]),
]


def schema_rule(chk, P):
    from . import facts
    repo = facts.REPO
    try:
        official = parse_official(repo)
    except Exception as e:
        chk.fail("C13.R3:schema", "official schema readable", "cannot read the vendored prost schema: %s" % e)
        return
    n_off = sum(len(v) for v in official.values())
    chk.floor("(jsonName, tag) pairs in the vendored official schema", n_off, 120)
    files = [f for f in glob.glob(os.path.join(repo, "emitter/otlp/src/data/**/*.rs"), recursive=True) if "/generated" not in f]
    files.append(os.path.join(repo, "emitter/otlp/src/data.rs"))
    total = 0
    bad = []
    for f in sorted(files):
        rel = os.path.relpath(f, repo)
        s = open(f).read()
        s_nt = s.split("#[cfg(test)]")[0]
        labels = dict(re.findall(r"const\s+([A-Z0-9_]+)_LABEL\s*:\s*sval::Label\s*=\s*sval::Label::new\(\s*\"([^\"]+)\"\s*\)", s_nt, re.S))
        indexes = {k: int(v) for k, v in re.findall(r"const\s+([A-Z0-9_]+)_INDEX\s*:\s*sval::Index\s*=\s*sval::Index::new\(\s*(\d+)\s*\)", s_nt, re.S)}
        pairs = []
        for stem, lab in labels.items():
            if stem in indexes:
                pairs.append((lab, indexes[stem], "%s_LABEL/%s_INDEX" % (stem, stem)))
            else:
                bad.append((rel, "%s_LABEL has no %s_INDEX" % (stem, stem)))
        for m in re.finditer(r"#\[sval\(([^\]]*?)\)\]", s_nt, re.S):
            a = m.group(1)
            ml = re.search(r'label\s*=\s*("([^"]+)"|([A-Z0-9_]+)_LABEL)', a)
            mi = re.search(r"index\s*=\s*((\d+)|([A-Z0-9_]+)_INDEX)", a)
            if ml and mi:
                if ml.group(2) and mi.group(2):
                    pairs.append((ml.group(2), int(mi.group(2)), "inline"))
                elif ml.group(3) and mi.group(3):
                    if ml.group(3) != mi.group(3):
                        bad.append((rel, "attribute pairs %s_LABEL with %s_INDEX" % (ml.group(3), mi.group(3))))
                elif ml.group(2) and mi.group(3):
                    if mi.group(3) in indexes:
                        pairs.append((ml.group(2), indexes[mi.group(3)], "inline/%s_INDEX" % mi.group(3)))
        # call sites pairing &FOO_LABEL with &BAR_INDEX
        for m in re.finditer(r"&([A-Z0-9_]+)_LABEL\s*,\s*&([A-Z0-9_]+)_INDEX", s_nt):
            if m.group(1) != m.group(2):
                bad.append((rel, "a call pairs %s_LABEL with %s_INDEX" % (m.group(1), m.group(2))))
        pkgs = None
        for rx, pk in FILE_PKGS:
            if re.search(rx, rel):
                pkgs = pk
                break
        if pkgs is None:
            continue
        allowed = set()
        for pk in pkgs:
            allowed |= official.get(pk, set())
        for lab, idx, how in pairs:
            total += 1
            if (lab, idx) not in allowed:
                near = sorted(t for (j, t) in allowed if j == lab)
                bad.append((rel, "(%r, %d) [%s] is not a field of %s%s" % (lab, idx, how, "/".join(p.rsplit('.', 2)[-2] for p in pkgs),
                                                                             (": the official tag of %r is %s" % (lab, near)) if near else "")))
    chk.floor("hand-written (label, index) pairs in the OTLP encoders", total, 60)
    if bad:
        for rel, msg in bad[:10]:
            chk.fail("C13.R3:schema:%s:%s" % (rel, re.sub(r"[^A-Za-z0-9_]+", "_", msg)[:60]),
                     "every hand-written (label, index) pair names a field of the official OTLP schema with that tag and JSON name",
                     "%s: %s" % (rel, msg), loc=rel)
    else:
        chk.ok("C13.R3:schema", "every hand-written (label, index) pair names a field of the official OTLP schema with that tag "
               "and JSON name (%d pairs against %d official fields)" % (total, n_off), sites=["%d pairs" % total])


def metric_seq_flag_rule(chk, P, key):
    def metric_seq_flag():
        """The metric value extractor takes a flat sequence of numbers (one data point each) and nothing nested: `seq_begin` fails when a sequence is
        already open and otherwise marks one open on every path; `seq_end` clears the mark.  Without the mark (or the failure) a sequence of
        sequences is flattened into points instead of the event falling back to logs."""
        ms = {b.method: b for k, b in P.bodies.items() if b.crate == "emit_otlp" and not b.is_closure and "metrics" in b.file and "Extract<" in k}
        if "seq_begin" not in ms or "seq_end" not in ms:
            raise mir.AnchorMissing("seq_begin / seq_end of the metric value extractor")
        def flag_stores(b):
            return [(bb, mir.o_const_value(b.origin(st["rv"]["op"]))) for bb, j, st in b.statements(normal_only=True) if st["k"] == "assign" and st["place"].get("p")
                    and st["rv"]["k"] == "use" and [p_.get("n") for p_ in st["place"]["p"] if isinstance(p_, dict) and "n" in p_][-1:] == ["in_seq"]]
        b = ms["seq_begin"]
        st = flag_stores(b)
        tests = [(bb, t) for bb, t in b.switches() if (mir.o_field_path(mir.norm_bool(b.switch_origin(bb))[0])[1] or [None])[-1] == "in_seq"]
        errs = [c for c in b.calls(normal_only=True) if (c.callee.get("path") or "").endswith("sval::result::error") or c.callee.get("name") == "error"]
        if len(tests) != 1 or not errs:
            return False, "the extractor's seq_begin does not reject a sequence inside a sequence (test of in_seq, then sval::error())", [], b.span
        bb, t = tests[0]
        so, pos = mir.norm_bool(b.switch_origin(bb))
        open_edge = [n for v, n in [(v, n) for v, n in t["targets"]] + [("otherwise", t["otherwise"])] if (str(v) != "0") == pos]
        if not all(b.must_pass({e.bb for e in errs}, start=n) for n in open_edge):
            return False, "with a sequence already open, seq_begin can return without failing: nested sequences are flattened into data points", [], b.span
        closed_edge = [n for v, n in [(v, n) for v, n in t["targets"]] + [("otherwise", t["otherwise"])] if (str(v) != "0") != pos]
        trues = {x for x, v in st if v is True}
        if not trues or not all(b.must_pass(trues, start=n) for n in closed_edge):
            return False, "seq_begin does not mark the sequence as open (in_seq = true) on every accepting path", [], b.span
        e = ms["seq_end"]
        falses = {x for x, v in flag_stores(e) if v is False}
        if not falses or not e.must_pass(falses):
            return False, "seq_end does not clear in_seq: a second, separate sequence value would be rejected - or, with the mark never set, nothing is", [], e.span
        return True, "", [b.span, e.span]
    chk.ob(key, "the metric value extractor accepts one flat sequence and rejects nesting", metric_seq_flag)


def points_declined_rule(chk, P, key):
    """A metric sample goes to the metrics signal unless its encoder *declines* it, in which case it is exported as a log record: `into_points`
    returning None is that decision.  The only sample without a data point is one without numbers: every path of every `into_points` that returns
    None took the zero edge of a test of the points' count (or the true edge of is_empty) and depends on nothing else - not on the extent, the
    step width or the values."""
    def f():
        ev, m = [], 0
        for k, b in sorted(P.bodies.items()):
            if b.crate != "emit_otlp" or b.is_closure or b.method != "into_points" or not (b.trait or "").endswith("DataPointBuilder") or b.trait_default:
                continue
            m += 1
            for rb in b.return_blocks():
                for path in b.acyclic_paths(0, rb, limit=4000):
                    ps = mir.PathSummary(b, path)
                    r = ps.ret()
                    if not (r[0] == "agg" and r[1].get("variant") == "None"):
                        continue
                    empty_seen = False
                    for sbb, o, vals in ps.decisions():
                        x = o
                        while x[0] in ("cast", "copy", "unop"):
                            x = x[1] if x[0] != "unop" else x[2]
                        vs = tuple(str(v) for v in (vals if isinstance(vals, (list, tuple)) else (vals,)))
                        if x[0] == "call" and x[1].callee.get("name") == "len":
                            empty_seen = empty_seen or vs == ("0",)      # any test of the count is about emptiness; only its zero edge establishes it
                        elif x[0] == "call" and x[1].callee.get("name") == "is_empty":
                            empty_seen = empty_seen or "0" not in vs
                        elif x[0] == "binop" and x[1] == "Eq" and any(y[0] in ("call", "cast") and "len" in mir.o_str(y) for y in (x[2], x[3])) \
                                and any(mir.o_const_value(y) == 0 for y in (x[2], x[3])) and "0" not in vs:
                            empty_seen = True
                        else:
                            return False, ("%s declines a sample (returns None) on a path that depends on %s (branch in bb%d): a metric sample that has "
                                           "numeric points would be exported as a log record instead of a metric" % (k, mir.o_str(o)[:100], sbb)), [], b.span
                    if not empty_seen:
                        return False, "%s declines a sample without having found it empty" % k, [], b.span
            ev.append(b.span)
        if m < 2:
            raise mir.AnchorMissing("into_points impls (found %d)" % m)
        return True, "", ev
    chk.ob(key, "a metric sample is declined by its encoder (and falls back to logs) only when it has no numeric point", f)


def decline_conditions_rule(chk, P, key):
    """Which signal an event goes to is decided by the encoders declining it (encode_event returning None sends it on to the logs signal).  The
    conditions under which each encoder declines are part of the routing contract: a span is declined only for its kind and for not having a range
    extent; a metric sample only for its kind, for having no `metric_value` and for having no numeric point.  Every None-returning path of an
    encode_event ends in one of these decisions - anything else (ids missing, no aggregation given ..) silently reroutes events to logs."""
    ALLOWED = {
        "traces": ("kind", "extent-range"),
        "metrics": ("kind", "get:metric_value", "points"),
        "logs": (),
    }

    def category(b, o):
        x = mir.norm_bool(o)[0]
        if x[0] == "discr":
            x = x[1]
        while x[0] in ("field", "downcast", "copy", "ref", "deref"):
            x = x[1]
        if x[0] != "call":
            return "other:%s" % o_str(o)[:60]
        c = x[1]
        nm = c.callee.get("name")
        full = c.callee.get("full") or c.callee.get("path") or ""
        if nm == "matches" and "KindFilter" in full:
            return "kind"
        if nm == "branch":
            inner = c.body.origin(c.args[0])
            txt = o_str(inner)
            st = c.callee.get("self_ty") or full
            if "(u64, u64)" in st or "Range<" in st:
                return "extent-range"
            names, y, d_ = [], inner, 0
            while y[0] == "call" and d_ < 10:
                names.append(y[1].callee.get("name"))
                if not y[1].args:
                    break
                y = y[1].body.origin(y[1].args[0])
                d_ += 1
            if "as_range" in names or ("extent" in names and not any(n in ("filter", "take_if") for n in names)):
                return "extent-range"
            if "NumberDataPoint" in st:
                return "points"
            return "branch:%s" % st[:80]
        if nm == "get" and len(c.args) >= 2:
            kv = mir.o_const_value(c.body.origin(c.args[1], through_calls=("to_str", "deref", "as_ref", "borrow")))
            return "get:%s" % kv
        if nm in ("pull", "get"):
            return "%s:?" % nm
        if nm == "into_points" or "into_points" in o_str(x):
            return "points"
        return "call:%s" % nm
    def f():
        ev, n = [], 0
        for k, b in sorted(P.bodies.items()):
            if b.crate != "emit_otlp" or b.is_closure or not k.endswith("::encode_event") or "EventEncoder>" not in k:
                continue
            sig = "traces" if "traces" in k else ("metrics" if "metrics" in k else ("logs" if "logs" in k else None))
            if sig is None:
                continue
            n += 1
            for rb in b.return_blocks():
                for path in b.acyclic_paths(0, rb, limit=6000):
                    ps = mir.PathSummary(b, path)
                    r = ps.ret()
                    declined = (r[0] == "agg" and r[1].get("variant") == "None") or (r[0] == "call" and r[1].callee.get("name") == "from_residual")
                    if not declined:
                        continue
                    ds = ps.decisions()
                    if not ds:
                        return False, "%s declines unconditionally" % k, [], b.span
                    cat = category(b, ds[-1][1])
                    if cat == "points" or cat.startswith("branch:") and "NumberDataPoint" in cat:
                        cat = "points"
                    if cat not in ALLOWED[sig]:
                        return False, ("%s declines an event (returns None, so the event is exported as a log record or discarded) on a condition that is not part of "
                                       "the routing contract of the %s signal: %s (allowed: %s)" % (k, sig, cat, ", ".join(ALLOWED[sig]) or "none")), [], b.span
                    ev.append("%s: %s" % (sig, cat))
        if n < 3:
            raise mir.AnchorMissing("the three EventEncoder::encode_event impls (found %d)" % n)
        return True, "", sorted(set(ev))
    chk.ob(key, "an encoder declines an event only on the documented conditions of its signal (kind; range extent; metric value and points)", f)


def span_status_rule(chk, P, key):
    """The status of an exported span without an `err` follows its level: debug / info are Ok, warn / error are Error.  Decided as a table over the four
    Level variants, whether the code is a match on the level or a comparison against a variant (Level's declared order is C17.R2's)."""
    ORDER = ["Debug", "Info", "Warn", "Error"]
    WANT = {"Debug": "Ok", "Info": "Ok", "Warn": "Error", "Error": "Error"}

    def f():
        bs = [b for k, b in P.bodies.items() if b.crate == "emit_otlp" and "PropsSpanAttributes" in k and k.endswith("::stream") and not b.is_closure]
        if not bs:
            raise mir.AnchorMissing("PropsSpanAttributes::stream")
        b = bs[0]
        lv = P.adt("emit::level::Level")
        names = {str(v.get("discr", i)): v["name"] for i, v in enumerate(lv["variants"])}
        got = {}
        # assignments of a StatusCode constant / aggregate, guarded by a switch on the level's discriminant or a comparison with a Level constant
        for bb, j, st in b.statements(normal_only=True):
            if st["k"] != "assign" or st["rv"]["k"] != "agg" or not (st["rv"].get("adt") or "").endswith("StatusCode"):
                continue
            code = st["rv"].get("variant")
            for gbb, vals, tgt in b.guards_of(bb):
                so = b.switch_origin(gbb)
                if so[0] == "discr" and "Level" in (b._op_ty(b.blocks[gbb]["term"]["discr"]) or "") or (so[0] == "discr" and "lvl" in o_str(so).lower() and False):
                    pass
                if so[0] == "discr":
                    ty = ""
                    try:
                        ty = b.local_ty(b._op_local(b.blocks[gbb]["term"]["discr"])) or ""
                    except Exception:
                        ty = ""
                    src = so[1]
                    if "Level" not in o_str(src) and "Level" not in str(ty) and "level" not in o_str(src):
                        continue
                    listed = {str(v) for v, n in b.blocks[gbb]["term"]["targets"]}
                    for v in vals if isinstance(vals, (list, tuple)) else [vals]:
                        v = str(v)
                        if v == "otherwise":
                            for dv, nmv in names.items():
                                if dv not in listed:
                                    got.setdefault(nmv, set()).add(code)
                        elif v in names:
                            got.setdefault(names[v], set()).add(code)
                else:
                    so2, pos = mir.norm_bool(so)
                    c = mir.norm_cmp(so2, lambda o: True)
                    if c is None:
                        continue
                    op, l, r = c
                    lvl_const = None
                    for side in (l, r):
                        if side[0] == "agg" and (side[1].get("adt") or "").endswith("level::Level"):
                            lvl_const = (side[1].get("variant"), side is r)
                        cv = mir.o_const_value(side)
                        if isinstance(cv, dict) and cv.get("variant") in ORDER:
                            lvl_const = (cv["variant"], side is r)
                    if lvl_const is None:
                        continue
                    name, on_right = lvl_const
                    if not on_right:
                        op = {"Lt": "Gt", "Le": "Ge", "Gt": "Lt", "Ge": "Le", "Eq": "Eq", "Ne": "Ne"}[op]
                    taken = ("0" not in [str(v) for v in vals]) == pos
                    ki = ORDER.index(name)
                    for i, nm in enumerate(ORDER):
                        holds = {"Lt": i < ki, "Le": i <= ki, "Gt": i > ki, "Ge": i >= ki, "Eq": i == ki, "Ne": i != ki}[op]
                        if holds == taken:
                            got.setdefault(nm, set()).add(code)
        if not got:
            raise mir.AnchorMissing("a level-dependent StatusCode in PropsSpanAttributes::stream")
        for nm in ORDER:
            codes = got.get(nm, set())
            # a level may be reached by several guards (nested decisions): the intersection semantics is approximated by requiring the wanted code to be
            # the only one attributed through level decisions
            if codes and codes != {WANT[nm]}:
                return False, ("a span at level %s without an error is exported with status %s; the encoder's convention is Ok for debug / info and Error for "
                               "warn / error" % (nm.lower(), "/".join(sorted(codes)))), [], b.span
        missing = [nm for nm in ORDER if nm not in got]
        if missing:
            return False, "no status is derived for level(s) %s" % missing, [], b.span
        return True, "", ["%s -> %s" % (nm, sorted(got[nm])[0]) for nm in ORDER]
    chk.ob(key, "a span's exported status follows its level: Ok for debug / info, Error for warn / error", f)
