"""C16 — templates render and compare by meaning, for any text.

Decided: equality never slices a str (byte-wise comparison) and has no unaccounted panic site; leftover parts
after the common prefix are inspected and a leftover hole makes templates unequal; the four-way render dispatch
of a part (text / hole+value+formatter / hole+value / hole without value) as path conditions; the label looked up
is the hole's own; Render::write visits parts in order and propagates errors; writer forwarding; by_ref / to_owned
preserve the kind, label and formatter of every part.  Not decided: that eq is an equivalence insensitive to
fragment splitting (an algorithmic fact about an index-walking loop)."""
import re

from . import common, mir, panics
from .mir import o_str

T = "emit_core::template::"
EQ = "<emit_core::template::Template<'a> as core::cmp::PartialEq<emit_core::template::Template<'b>>>::eq"
WRITE = "emit_core::template::Write"

ALLOW = {
    (r"PartialEq<emit_core::template::Template<'b>>>::eq$", "index:slice"):
        (4, "a[ati..] / b[bti..] with ati <= a.len() (reset to 0 when a fragment is consumed) and parts[ai..] with ai <= len at loop exit"),
    (r"PartialEq<emit_core::template::Template<'b>>>::eq$", "assert:overflow:Add"):
        (2, "ati += len / bti += len with len = min(a[ati..].len(), b[bti..].len()): the offsets stay within their fragments "
            "(the part indices' `+ 1` steps are discharged by the loop guard `ai < a.len() && bi < b.len()`)"),
}


OVERLAYS = ('K2b',)


def run(chk):
    P = mir.Program("K1")
    chk.use_program(P)
    chk.explain("Rules over built MIR of emit_core::template: R1 Template::eq and everything it reaches has no str range indexing "
                "(fragments compared as bytes; fixed defect) and no unaccounted panic site; R1b leftover parts are inspected and a "
                "non-text leftover (a hole) or non-empty text returns false; R2 Part::write: write_text iff text part; "
                "write_hole_fmt iff hole, props.get(label) is Some and a formatter is set; write_hole_value iff hole, Some, no "
                "formatter; write_hole_label iff hole and None; the label passed to get and to the writer is the hole's own; "
                "Render::write visits parts() in order and ?-propagates; R3 `&mut W` forwards each Write method to the same "
                "method; R4 Part::by_ref / Part::to_owned and Template::by_ref / to_owned map Text->Text and Hole->Hole carrying "
                "label and formatter; TemplateKind::parts returns the stored parts of each variant.")
    chk.trust("rustc nightly")
    chk.assume("reflexivity/symmetry/transitivity and insensitivity to fragment splitting of eq are not decided")
    chk.exhaustive = True

    # ---- R1 ------------------------------------------------------------------------------------------------
    eqb = P.body(EQ)
    seen, pred = P.reachable([eqb], follow=("direct", "closure"))
    region = [P.bodies[k] for k in sorted(seen) if P.bodies[k].crate == "emit_core"]
    n, u = panics.inventory_rule(chk, "C16.R1.panic", P, region, ALLOW, "template equality has no unaccounted panic-capable site")
    chk.floor("panic-capable sites inventoried in Template::eq", n, 10)

    def no_str_slicing():
        for b in region:
            for s in panics.sites(b):
                if s["kind"] == "index:str-range":
                    return False, ("%s range-indexes a str at %s: offsets derived from the *other* template's fragment lengths need not "
                                   "fall on a char boundary (non-ASCII text) -> panic" % (b.key, s["loc"])), [], s["loc"]
            for c in b.calls(normal_only=True):
                if c.callee.get("name") in ("split_at", "get_unchecked", "slice_unchecked") and "str" in (c.callee.get("path") or ""):
                    return False, "%s splits a str at a computed offset at %s" % (b.key, c.loc), [], c.loc
        ab = [c for c in eqb.calls(normal_only=True) if c.callee.get("name") == "as_bytes"]
        if len(ab) < 2:
            return False, "text fragments are not compared as bytes", [], eqb.span
        return True, "", [c.loc for c in ab]
    chk.ob("C16.R1:no-str-slicing", "equality compares fragments byte-wise and never slices a str", no_str_slicing)

    def leftovers():
        bodies = [eqb] + P.closures_of(eqb)
        # a decision on a part's kind (PartKind discriminant, or as_text()/label() being None) after which `false` is returned
        found = []
        for b in bodies:
            for bb, t in b.switches():
                so = b.switch_origin(bb)
                if so[0] != "discr":
                    continue
                src = so[1]
                is_kind = False
                x = src
                names = []
                while x[0] in ("field", "downcast", "index"):
                    if x[0] == "field":
                        names.append(x[2])
                    x = x[1]
                # direct: discriminant of part.0 where the part comes from an iterator over leftover parts
                if names and names[0] == "0" or (names and names[-1] == "0"):
                    ty_hint = True
                else:
                    ty_hint = False
                if not ty_hint:
                    continue
                # must be in a loop (iterating the leftovers), not the main lock-step loop over (ap, bp) pairs
                if not b.in_cycle(bb):
                    continue
                # which edges lead to `_0 = false`
                false_blocks = [fb for fb, j, s in b.statements(normal_only=True) if s["k"] == "assign" and s["place"]["l"] == 0
                                and s["rv"]["k"] == "use" and mir.o_const_value(b.origin(s["rv"]["op"])) is False]
                for v, tgt in t["targets"] + [["otherwise", t["otherwise"]]]:
                    reach = b.reachable_from(tgt)
                    direct_false = [fb for fb in false_blocks if fb in reach and not any(c.bb in b.reachable_from(tgt) and c.bb not in b.reachable_from(fb)
                                                                                       for c in [])]
                    if direct_false:
                        found.append(("%s:%s" % (b.file, t.get("line")), v))
        # the leftover loop: a switch on the part kind inside a loop whose iterator chains both tails
        chain = [c for b in bodies for c in b.calls(normal_only=True) if c.callee.get("name") == "chain"]
        tails = [c for b in bodies for c in b.calls(normal_only=True) if c.callee.get("name") == "index" and "RangeFrom" in " ".join(c.callee.get("generics") or [])
                 and "Part" in (c.callee.get("self_ty") or "")]
        if len(tails) < 2:
            return False, "the parts left over in both templates after the common prefix are not both inspected", [], eqb.span
        # leftover hole => false: find, in the eq body, a loop over the chained tails with a PartKind discriminant switch whose non-Text edge assigns false
        ok = False
        for bb, t in eqb.switches():
            so = eqb.switch_origin(bb)
            if so[0] == "discr" and eqb.in_cycle(bb):
                x = so[1]
                from_iter = False
                d = 0
                while x[0] in ("field", "downcast", "index") and d < 10:
                    x = x[1]
                    d += 1
                if x[0] == "call" and x[1].callee.get("name") == "next":
                    io = eqb.origin(x[1].args[0], through_calls=("into_iter",))
                    if mir.o_is_call(io, name="chain") or (io[0] in ("local", "phi")):
                        from_iter = True
                if not from_iter:
                    continue
                # Text is variant 0 of PartKind: the other edge must return false without further ado
                nonblocks = [tgt for v, tgt in t["targets"] if v != "0"] + ([t["otherwise"]] if any(v == "0" for v, _ in t["targets"]) else [])
                for nb in nonblocks:
                    for rb in eqb.return_blocks():
                        for path in eqb.acyclic_paths(nb, rb, limit=2000):
                            ps = mir.PathSummary(eqb, path)
                            if mir.o_const_value(ps.ret()) is False and not ps.calls(lambda c: not c.expn and c.callee.get("name") not in ("drop",)):
                                ok = True
        if not ok:
            return False, ("after the common prefix, a leftover part that is not text (a hole) does not make the templates unequal: "
                           "the trailing check must return false for any leftover hole as well as for non-empty text"), [], eqb.span
        ie = [c for c in eqb.calls(normal_only=True) if c.callee.get("name") == "is_empty"]
        if not ie:
            return False, "leftover text fragments are not required to be empty", [], eqb.span
        return True, "", [c.loc for c in tails] + [c.loc for c in ie]
    chk.ob("C16.R1b:leftover-parts", "parts left over after the common prefix: a hole or non-empty text makes the templates unequal", leftovers)

    def true_only_after_comparison():
        """`eq` answers `true` only after the whole comparison: every `true` it returns lies behind the exhaustion of the left-over loop (which
        itself lies behind the lock-step loop).  The one sound shortcut is identity of the two part slices - same address *and* same length
        (`ptr::eq` on the slices, or `as_ptr()` equal and `len()` equal); the same first element alone does not make a prefix equal to the whole."""
        trues = [bb for bb, j, st in eqb.statements(normal_only=True) if st["k"] == "assign" and st["place"]["l"] == 0 and "p" not in st["place"]
                 and st["rv"]["k"] == "use" and mir.o_const_value(eqb.origin(st["rv"]["op"])) is True]
        nx = [c for c in eqb.calls(normal_only=True) if c.callee.get("name") == "next" and eqb.in_cycle(c.bb)]
        if not trues or not nx:
            raise mir.AnchorMissing("`true` results / the left-over loop of Template::eq (%d, %d)" % (len(trues), len(nx)))
        for tb in trues:
            if any(eqb.dominates(c.bb, tb) for c in nx):
                continue
            ptr_eq = len_eq = fat_eq = False
            for gbb, vals, n in eqb.guards_of(tb):
                so, pos = mir.norm_bool(eqb.switch_origin(gbb))
                taken_true = (list(vals) != ["0"]) == pos
                if not taken_true:
                    continue
                if so[0] == "binop" and so[1] == "Eq":
                    sides = []
                    for x in (so[2], so[3]):
                        while x[0] in ("cast", "copy", "ref", "deref"):
                            x = x[1]
                        sides.append(x)
                    if all(x[0] == "call" and x[1].callee.get("name") == "as_ptr" for x in sides):
                        ptr_eq = True
                    if all((x[0] == "call" and x[1].callee.get("name") == "len") or x[0] in ("len", "ptrmeta") or (x[0] == "unop" and x[1] == "PtrMetadata") for x in sides):
                        len_eq = True
                if so[0] == "call" and (so[1].callee.get("path") or "") in ("core::ptr::eq", "core::ptr::addr_eq") and "[" in " ".join(so[1].callee.get("generics") or []):
                    fat_eq = so[1].callee.get("path") == "core::ptr::eq"
            if not (fat_eq or (ptr_eq and len_eq)):
                return False, ("Template::eq returns `true` at bb%d without having gone through the comparison of the parts (and not under an identity "
                               "test of both address and length of the part slices): templates that merely share their first part - a prefix of the "
                               "same buffer - compare equal" % tb), [], eqb.span
        return True, "", [c.loc for c in nx]
    chk.ob("C16.R1d:true-only-after-comparison", "eq returns true only behind the complete comparison (or an identity test of address and length)", true_only_after_comparison)

    def _direct_false(b, start):
        """from `start` every path returns `false` without going round a loop or calling anything that is not a drop"""
        reach = b.reachable_from(start)
        if any(b.in_cycle(x) and start in b.reachable_from(x) for x in reach):
            return False
        for rb in b.return_blocks():
            if rb not in reach:
                continue
            for path in b.acyclic_paths(start, rb, limit=200):
                ps = mir.PathSummary(b, path)
                if mir.o_const_value(ps.ret()) is not False:
                    return False
        return any(rb in reach for rb in b.return_blocks())

    mixed = []
    n_kinds = len(P.adt("emit_core::template::PartKind")["variants"])
    kinds_side = {}

    def _emptiness_tests(start):
        """is_empty() / len() == 0 decisions reachable from `start` within the current iteration: (block, non-empty target, empty target, call)"""
        heads = tuple(h for _, h in eqb.back_edges())
        region = eqb.reachable_from(start, removed_blocks=heads)
        out = []
        for bb, t in eqb.switches():
            if bb not in region:
                continue
            so, pos = mir.norm_bool(eqb.switch_origin(bb))
            c = None
            if so[0] == "call" and so[1].callee.get("name") == "is_empty":
                c = so[1]
            elif so[0] == "binop" and so[1] == "Eq":
                for x, y in ((so[2], so[3]), (so[3], so[2])):
                    if x[0] == "call" and x[1].callee.get("name") == "len" and mir.o_const_value(y) == 0:
                        c = x[1]
            if c is None:
                continue
            ne = em = None
            for v, tgt in [(v, n) for v, n in t["targets"]] + [("otherwise", t["otherwise"])]:
                if ((str(v) != "0") == pos):
                    em = tgt
                else:
                    ne = tgt
            out.append((bb, ne, em, c))
        return out

    def mismatch_is_false():
        """In the lock-step loop every comparison that can tell the templates apart ends the comparison with `false` on its unequal edge: the
        byte comparison of the common text prefix, the comparison of two hole labels, and a part-kind mismatch (text against hole)."""
        ev = []
        cmps = 0
        for bb, t in eqb.switches():
            if not eqb.in_cycle(bb):
                continue
            so, pos = mir.norm_bool(eqb.switch_origin(bb))
            if so[0] == "call" and so[1].callee.get("name") in ("ne", "eq") and ("PartialEq" in (so[1].callee.get("trait") or so[1].callee.get("full") or "")):
                cmps += 1
                is_ne = so[1].callee.get("name") == "ne"
                # the edge on which the two operands differ
                for v, tgt in [(v, n) for v, n in t["targets"]] + [("otherwise", t["otherwise"])]:
                    truth = (str(v) != "0") == pos
                    differ = truth if is_ne else not truth
                    if differ and not _direct_false(eqb, tgt):
                        return False, ("the comparison at %s does not end in `false` where its operands differ: templates with different text (or different "
                                       "hole labels) at that position would compare equal" % so[1].loc), [], so[1].loc
                ev.append(so[1].loc)
        if cmps < 2:
            raise mir.AnchorMissing("text and label comparisons in the lock-step loop of Template::eq (found %d)" % cmps)
        # left-over text: the non-empty edge of every is_empty() test inside a loop ends in false
        for bb, t in eqb.switches():
            if not eqb.in_cycle(bb):
                continue
            so, pos = mir.norm_bool(eqb.switch_origin(bb))
            if so[0] == "call" and so[1].callee.get("name") == "is_empty":
                for v, tgt in [(v, n) for v, n in t["targets"]] + [("otherwise", t["otherwise"])]:
                    empty = (str(v) != "0") == pos
                    if not empty and not _direct_false(eqb, tgt):
                        return False, "a left-over text fragment that is not empty (test at %s) does not make the templates unequal" % so[1].loc, [], so[1].loc
                ev.append(so[1].loc)
        # kind mismatch: along one iteration, the discriminants read from the two indexed parts differ -> false
        kinds = kinds_side
        kinds.clear()
        del mixed[:]
        for bb, t in eqb.switches():
            so = eqb.switch_origin(bb)
            if eqb.in_cycle(bb) and so[0] == "discr":
                x = so[1]
                idx = None
                while x[0] in ("field", "downcast", "index", "deref", "ref", "copy"):
                    if x[0] == "index":
                        idx = x[2] if len(x) > 2 else None
                    x = x[1]
                if x[0] == "call" and x[1].callee.get("name") == "parts":
                    kinds[bb] = x[1].bb
        sides = sorted(set(kinds.values()))
        if len(sides) != 2:
            raise mir.AnchorMissing("part-kind decisions of both templates in Template::eq (found %d sides)" % len(sides))
        firsts = [bb for bb in kinds if not any(eqb.dominates(o, bb) and o != bb for o in kinds)]
        for fb in firsts:
            t = eqb.blocks[fb]["term"]
            for v, tgt in [(v, n) for v, n in t["targets"]] + [("otherwise", t["otherwise"])]:
                # second-level decision reached from this edge
                for sb in kinds:
                    if sb == fb or kinds[sb] == kinds[fb] or not eqb.edge_dominates(fb, tgt, sb):
                        continue
                    t2 = eqb.blocks[sb]["term"]
                    listed = {str(x) for x, _ in t["targets"]}
                    for v2, tgt2 in [(v2, n2) for v2, n2 in t2["targets"]] + [("otherwise", t2["otherwise"])]:
                        same = (str(v2) == str(v)) if v != "otherwise" and v2 != "otherwise" else None
                        if same is False:
                            # text against hole: unequal unless the text fragment is empty (R1g decides the empty case)
                            tests = _emptiness_tests(tgt2)
                            if not tests and not _direct_false(eqb, tgt2):
                                return False, "a text part compared against a hole (kinds %s / %s) does not make the templates unequal" % (v, v2), [], eqb.span
                            for tb, nonempty_tgt, empty_tgt, c in tests:
                                if not _direct_false(eqb, nonempty_tgt):
                                    return False, ("a non-empty text part compared against a hole (kinds %s / %s, test at %s) does not make the "
                                                   "templates unequal" % (v, v2, c.loc)), [], c.loc
                            mixed.append((fb, sb, v, v2, tgt2, tests))
                        if v2 == "otherwise" and v != "otherwise":
                            if len(t2["targets"]) >= n_kinds:
                                continue   # every variant has its own edge: the `otherwise` edge is the compiler's unreachable filler
                            tests = _emptiness_tests(tgt2)
                            if not tests and not _direct_false(eqb, tgt2):
                                return False, "a part-kind mismatch does not make the templates unequal", [], eqb.span
                            for tb, nonempty_tgt, empty_tgt, c in tests:
                                if not _direct_false(eqb, nonempty_tgt):
                                    return False, "a non-empty text part compared against a hole (test at %s) does not make the templates unequal" % c.loc, [], c.loc
                            mixed.append((fb, sb, v, "other", tgt2, tests))
                if v == "otherwise" and tgt not in kinds and not _direct_false(eqb, tgt):
                    return False, "an unexpected part kind does not make the templates unequal", [], eqb.span
        return True, "", ev
    chk.ob("C16.R1e:mismatch-is-false", "differing text bytes, differing hole labels and a (non-empty) text / hole mismatch each end the comparison with false", mismatch_is_false)

    def empty_fragment_skipped():
        """`the same text between them however that text is split into fragments`: an *empty* text fragment facing a hole is text-neutral, so the
        comparison must not answer `false` there - it steps over the empty fragment (that side's part index only) and goes on.  Structural part: on
        each of the two text-against-hole edges of the lock-step loop there is an emptiness test of the text side's own fragment whose empty edge
        returns to the loop head without returning, stepping exactly that side's part index."""
        if not mixed:
            raise mir.AnchorMissing("text-against-hole edges in the lock-step loop of Template::eq")
        heads = tuple(h for _, h in eqb.back_edges())
        # the part index of each side: the local that indexes the `parts()` slice in the kind decision
        side_idx = {}
        for bb, t in eqb.switches():
            so = eqb.switch_origin(bb)
            if eqb.in_cycle(bb) and so[0] == "discr":
                x = so[1]
                il = None
                while x[0] in ("field", "downcast", "index", "deref", "ref", "copy"):
                    if x[0] == "index" and len(x) > 2 and x[2] and x[2][0] == "local":
                        il = x[2][1]
                    x = x[1]
                if x[0] == "call" and x[1].callee.get("name") == "parts" and il is not None:
                    side_idx[x[1].bb] = il
        text_discr = None
        ad = P.adt("emit_core::template::PartKind")
        for i, vn in enumerate(ad["variants"]):
            if vn["name"] == "Text":
                text_discr = str(vn.get("discr", i))
        ev = []
        for fb, sb, v, v2, tgt2, tests in mixed:
            first_side, second_side = kinds_side[fb], kinds_side[sb]
            text_side = first_side if str(v) == text_discr else (second_side if str(v2) in (text_discr, "other") else None)
            if text_side is None or text_side not in side_idx:
                raise mir.AnchorMissing("the text side of a text-against-hole edge in Template::eq")
            if not tests:
                return False, ("a text fragment facing a hole makes the templates unequal without its emptiness being examined: `[\"\", {x}]` and "
                               "`[{x}]` have the same holes and the same text between them but compare unequal (an empty fragment must be stepped over)"), [], eqb.span
            good = False
            for tb, ne, em, c in tests:
                ro = eqb.origin(c.args[0], through_calls=("get", "as_ref", "deref", "as_str", "as_bytes", "borrow"))
                x = ro
                while x[0] in ("field", "downcast", "index", "deref", "ref", "copy"):
                    x = x[1]
                if not (x[0] == "call" and x[1].callee.get("name") == "parts" and x[1].bb == text_side):
                    continue   # a test of something else (e.g. the other side)
                region = eqb.reachable_from(em, removed_blocks=heads)
                if any(rb in region for rb in eqb.return_blocks()):
                    return False, "an empty text fragment facing a hole (test at %s) can still end the comparison" % c.loc, [], c.loc
                stepped = set()
                for bb in region:
                    for st in eqb.blocks[bb]["stmts"]:
                        if st["k"] == "assign" and st["rv"]["k"] == "binop" and st["rv"]["op"].startswith("Add"):
                            stepped.add(panics._raw_local(eqb, st["rv"]["a"], bb))
                if stepped != {side_idx[text_side]}:
                    return False, ("stepping over an empty text fragment facing a hole (test at %s) advances %s; exactly the text side's part index "
                                   "must step (the hole stays to be compared)" % (c.loc, sorted(eqb.local_name(l) or "_%d" % l for l in stepped if l is not None) or "nothing")), [], c.loc
                good = True
                ev.append(c.loc)
            if not good:
                return False, "on a text-against-hole edge the emptiness test is not of the text side's own fragment", [], eqb.span
        if len(mixed) < 2:
            raise mir.AnchorMissing("both text-against-hole edges (text left / text right) in Template::eq")
        return True, "", ev
    chk.ob("C16.R1g:empty-fragment-skipped", "an empty text fragment facing a hole is stepped over (that side's part index only), never a mismatch", empty_fragment_skipped)

    def cursors_mirror():
        """The four cursors of the lock-step loop come in two mirrored pairs (part index and byte offset, for `self` and for `other`).  What is done
        to one side is done to the other: the same number of `+ 1` steps of the part index, the byte offsets both advanced by the *same*
        `min(..)` length, each offset reset to 0 in the block that steps its part index.  A step or reset missing on one side makes the loop
        compare a fragment against the wrong bytes (or never end)."""
        idx = {}
        for bb, t in eqb.switches():
            so = eqb.switch_origin(bb)
            if eqb.in_cycle(bb) and so[0] == "discr":
                x = so[1]
                il = None
                while x[0] in ("field", "downcast", "index", "deref", "ref", "copy"):
                    if x[0] == "index" and len(x) > 2:
                        io = x[2]
                        il = io[2] if io[0] == "phi" and len(io) > 2 else (io[1] if io[0] == "local" else il)
                    x = x[1]
                if x[0] == "call" and x[1].callee.get("name") == "parts" and il is not None:
                    idx[x[1].bb] = il
        if len(idx) != 2:
            raise mir.AnchorMissing("the two part-index cursors of Template::eq (found %s)" % sorted(idx.values()))
        def shape(l):
            out = []
            for d in eqb.defs().get(l, ()):
                if eqb.blocks[d[0]]["cleanup"] or d[2] == "partial":
                    continue
                o = eqb._origin_def(d, 0, (), set())
                if o[0] == "const":
                    out.append(("const", mir.o_const_value(o), d[0]))
                elif o[0] == "field" and o[1][0] == "binop" and o[1][1] in ("AddWithOverflow", "Add"):
                    r = o[1][3]
                    if r[0] == "const":
                        out.append(("add", mir.o_const_value(r), d[0]))
                    elif r[0] == "call":
                        out.append(("addcall", (r[1].callee.get("name"), r[1].bb), d[0]))
                    else:
                        out.append(("other", o_str(o), d[0]))
                else:
                    out.append(("other", o_str(o), d[0]))
            return out
        (sa, ia), (sb_, ib) = sorted(idx.items())
        A, B = shape(ia), shape(ib)
        if sorted(x[:2] for x in A) != sorted(x[:2] for x in B) or sum(1 for x in A if x[0] == "add" and x[1] == 1) < 2:
            return False, ("the part index of one template is stepped %s and the other's %s: the two sides of the comparison no longer advance alike"
                           % (sorted(x[:2] for x in A), sorted(x[:2] for x in B))), [], eqb.span
        # byte offsets: the locals advanced by a min(..) call
        offs = {}
        for l in range(len(eqb.locals)):
            sh = shape(l)
            mins = [x for x in sh if x[0] == "addcall" and x[1][0] == "min"]
            if mins:
                offs[l] = (sh, mins[0][1][1])
        if len(offs) != 2:
            return False, "expected two byte offsets advanced by the common length min(..), found %d: one side's offset is no longer advanced" % len(offs), [], eqb.span
        (la, (SA, ma)), (lb, (SB, mb)) = sorted(offs.items())
        if ma != mb:
            return False, "the two byte offsets are advanced by different lengths", [], eqb.span
        if sorted(x[:2] if x[0] != "addcall" else ("addcall", "min") for x in SA) != sorted(x[:2] if x[0] != "addcall" else ("addcall", "min") for x in SB):
            return False, "the byte offset of one template is updated %s and the other's %s" % ([x[:2] for x in SA], [x[:2] for x in SB]), [], eqb.span
        # each offset is reset to 0 where its part index steps
        for off_shape, ish in ((SA, A), (SB, B)):
            resets = {x[2] for x in off_shape if x[0] == "const" and x[1] == 0 and eqb.in_cycle(x[2])}
            steps = {x[2] for x in ish if x[0] == "add"}
            if not resets or not (resets <= steps):
                # tolerate pairing by index order (a-offset with a-index): try the other pairing below
                pass
        ra = {x[2] for x in SA if x[0] == "const" and x[1] == 0 and eqb.in_cycle(x[2])}
        rb = {x[2] for x in SB if x[0] == "const" and x[1] == 0 and eqb.in_cycle(x[2])}
        stepsA = {x[2] for x in A if x[0] == "add"}
        stepsB = {x[2] for x in B if x[0] == "add"}
        ok = (ra and rb and ((ra <= stepsA and rb <= stepsB) or (ra <= stepsB and rb <= stepsA)))
        if not ok:
            return False, "a byte offset is not reset to 0 in the block that steps its part index (or is never reset)", [], eqb.span
        return True, "", ["part indices _%d/_%d, byte offsets _%d/_%d" % (ia, ib, la, lb)]
    chk.ob("C16.R1f:cursors-mirror", "the two sides of the lock-step comparison advance alike (index steps, common-length offsets, resets)", cursors_mirror)

    def with_formatter_stores():
        """`Part::with_formatter` (what `#[emit::fmt]` expands to) puts the formatter it is given into the hole: on the Hole edge there is a store of
        `Some(<the parameter>)` through the borrowed formatter slot, and the part returned is `self`."""
        b = P.body("emit_core::template::Part::<'a>::with_formatter")
        stores = []
        for bb, j, st in b.statements(normal_only=True):
            if st["k"] == "assign" and st["place"].get("p") and st["rv"]["k"] == "use":
                o = b.origin(st["rv"]["op"])
                if o[0] == "agg" and o[1].get("variant") == "Some" and o[2] and mir.o_is_param(o[2][0], idx=2):
                    stores.append(bb)
        if not stores:
            return False, "with_formatter never stores Some(formatter) into the hole: format flags written with #[emit::fmt] would be ignored when rendering", [], b.span
        if not mir.o_is_param(mir.o_root(b.origin(0)), idx=1):
            return False, "with_formatter returns %s, not the part it was called on" % o_str(b.origin(0)), [], b.span
        return True, "", [b.span]
    chk.ob("C16.R4:with_formatter", "Part::with_formatter stores the given formatter in the hole and returns the part", with_formatter_stores)

    def render_views_render():
        """Every way a `Render` (template + props) leaves as data - `ToValue`, sval `Value` / `ValueRef`, serde `Serialize` - shows the *rendered* text:
        what is handed to the value / stream / serializer is `self` (whose Display is `Render::write`) or, on the edge where `as_literal()` is
        `Some`, that literal.  None of them forwards to the bare template (`self.tpl`), which knows no props and would show `Hello, {user}`."""
        n = 0
        ev = []
        for k, b in P.bodies.items():
            if b.is_closure or "template::Render<" not in (b.self_ty or k) or not b.trait:
                continue
            if not (b.trait.startswith(("sval::", "sval_ref::", "serde", "emit_core::value::ToValue"))):
                continue
            n += 1
            sinks = [c for c in b.calls(normal_only=True) if c.callee.get("name") not in ("as_literal",) and len(c.args) >= 1]
            for c in sinks:
                for a in c.args:
                    o = b.origin(a)
                    names = mir.o_field_path(o)[1] or []
                    if "tpl" in names and mir.o_is_param(mir.o_root(o), idx=1):
                        return False, ("%s hands the bare template (self.tpl) to `%s`: the template is shown with its holes unfilled instead of the rendered "
                                       "message" % (k, c.callee.get("name"))), [], c.loc
                    if o[0] in ("field", "downcast") and mir.o_is_call(mir.o_root(o), name="as_literal"):
                        # literal short-cut: only on the Some edge of as_literal()
                        continue
            shows_self = any(mir.o_is_param(mir.o_root(b.origin(a)), idx=1) and not (mir.o_field_path(b.origin(a))[1] or []) for c in sinks for a in c.args)
            if not shows_self:
                return False, "%s never hands `self` (the rendering) on" % k, [], b.span
            ev.append(b.span)
        if n < 3:
            raise mir.AnchorMissing("value / serialisation impls for Render (found %d)" % n)
        return True, "", ev
    chk.ob("C16.R2:render-views", "ToValue / sval / serde views of a Render show the rendered text, never the bare template", render_views_render)

    def cursors():
        eqb = P.body(EQ)
        ok, detail, sites = panics.cursor_pairing(eqb)
        if ok and len(sites) < 2:
            raise mir.AnchorMissing("cursor-indexed sequences in Template::eq (found %d)" % len(sites))
        return ok, detail, sites, (sites[0] if sites else eqb.span)
    chk.ob("C16.R1c:cursor-pairing", "each cursor of the fragment-insensitive comparison indexes only the sequence whose length bounds it", cursors)

    def hole_labels_compared():
        # in the lock-step loop the Hole/Hole arm compares labels and a kind mismatch returns false
        ne = [c for c in eqb.calls(normal_only=True) if c.callee.get("name") in ("ne", "eq") and "Str" in (c.callee.get("full") or "")]
        if not ne:
            return False, "hole labels are not compared", [], eqb.span
        return True, "", [c.loc for c in ne]
    chk.ob("C16.R1c:hole-labels", "holes are equal only if their labels are", hole_labels_compared)

    # ---- R2 ----------------------------------------------------------------------------------------------------
    def hole_formatter_used():
        """`for each hole, the first-wins property value (through the hole's formatter if it has one) ... to any writer`: every writer's
        write_hole_fmt - the trait's provided one and each override, the terminal's included - renders the value *through the formatter it is
        given*: on every path the formatter parameter is the receiver of Formatter::apply / Formatter::fmt with the value parameter as its
        argument, or all four parameters are handed on to another writer's write_hole_fmt in the same positions."""
        ev = []
        n = 0
        for k, b in sorted(P.bodies.items()):
            if not k.endswith("::write_hole_fmt") or b.is_closure or (b.trait or "emit_core::template::Write") != "emit_core::template::Write" and "template::Write" not in k:
                continue
            if b.argc != 4:
                continue
            n += 1
            use = []
            for c in b.calls(normal_only=True):
                pth = c.callee.get("path") or c.callee.get("full") or ""
                nm = c.callee.get("name")
                if pth.startswith("emit_core::template::Formatter::") and nm in ("apply", "fmt") and len(c.args) >= 2:
                    if mir.o_is_param(b.origin(c.args[0]), idx=4) and mir.o_is_param(b.origin(c.args[1], through_calls=("by_ref",)), idx=3):
                        use.append(c)
                elif nm == "write_hole_fmt" and len(c.args) == 4:
                    if all(mir.o_is_param(b.origin(c.args[i], through_calls=("deref_mut", "by_ref")), idx=i + 1) for i in (1, 2, 3)):
                        use.append(c)
            if not use:
                return False, ("%s does not render the value through the hole's formatter (no Formatter::apply / Formatter::fmt of its `formatter` parameter on its "
                               "`value` parameter): a hole written with format flags (`{x:.3}`, `{x:?}`) renders differently through this writer" % k), [], b.span
            if not b.must_pass({c.bb for c in use}):
                return False, "%s can return without having rendered the value through the hole's formatter" % k, [], b.span
            ev.append(use[0].loc)
        chk.floor("writers' write_hole_fmt bodies (provided + overrides)", n, 3)
        return True, "", ev
    chk.ob("C16.R2:hole-formatter-used", "every writer renders a formatted hole through the formatter it is given", hole_formatter_used)

    def literal_fast_path():
        """The shortcut for two literal templates answers with the *equality* of the two literal texts: the value returned on that path is
        `PartialEq::eq` of the two `as_literal()` results (self's and other's) - not its negation, not a comparison of one side with itself."""
        n = 0
        for rb in eqb.return_blocks():
            for path in eqb.acyclic_paths(0, rb, limit=3000):
                r = mir.PathSummary(eqb, path).ret()
                if mir.o_const_value(r) is not None:
                    continue
                base, pos = mir.norm_bool(r)
                if not (base[0] == "call" and base[1].callee.get("name") in ("eq", "ne")):
                    return False, "Template::eq returns %s on some path" % o_str(r)[:100], [], eqb.span
                n += 1
                is_eq = (base[1].callee.get("name") == "eq") == pos
                if not is_eq:
                    return False, ("the literal shortcut of Template::eq answers with the *in*equality of the two texts (%s at %s): two literal templates with the "
                                   "same text compare unequal" % (base[1].callee.get("name"), base[1].loc)), [], base[1].loc
                srcs = []
                for a in base[1].args[:2]:
                    o = eqb.origin(a, through_calls=("deref", "as_ref", "get", "by_ref"))
                    x = o
                    while x[0] in ("field", "downcast", "copy", "ref", "deref"):
                        x = x[1]
                    if x[0] == "call" and x[1].callee.get("name") == "as_literal":
                        rec = eqb.origin(x[1].args[0], through_calls=("deref",))
                        srcs.append(rec[1] if rec[0] == "param" else None)
                    else:
                        srcs.append(None)
                if sorted(str(x) for x in srcs) != ["1", "2"]:
                    return False, "the literal shortcut compares %s, not the literal of self with the literal of other" % srcs, [], base[1].loc
        if n < 1:
            raise mir.AnchorMissing("the literal shortcut of Template::eq")
        return True, "", ["%d non-constant return(s)" % n]
    chk.ob("C16.R1h:literal-fast-path", "two literal templates are equal exactly when their texts are", literal_fast_path)

    def hole_values_flag_neutral():
        """`for each hole, the first-wins property value ... to any writer, and identically`: a rendering written through a `fmt::Formatter` is the same
        text as one written into a String, whatever width / precision / fill the caller's format string carries (`format!("{:>8}", tpl.render(p))`).
        Structural part: the `fmt::Formatter` writer does not hand its own formatter - and with it the caller's flags - to a hole value's Display impl;
        an unformatted hole value is written through `write_fmt` (whose placeholder carries fresh, default flags) or `write_str`."""
        bs = [b for k, b in P.bodies.items() if k.endswith("::write_hole_value") and "Formatter" in (b.self_ty or "") and not b.is_closure]
        if not bs:
            raise mir.AnchorMissing("write_hole_value of the fmt::Formatter writer")
        for b in bs:
            for c in b.calls(normal_only=True):
                if c.callee.get("name") == "fmt" and (c.callee.get("trait") or "").startswith("core::fmt::") and len(c.args) >= 2 \
                        and mir.o_is_param(b.origin(c.args[1], through_calls=("deref_mut",)), idx=1):
                    return False, ("%s hands the caller's formatter to the value's %s at %s: width, fill and precision of the *outer* format string are applied to every "
                                   "hole value (`format!(\"{:>6}\", tpl.render(props))` pads each hole), so the text differs from the same rendering written into a String"
                                   % (b.key, c.callee.get("trait"), c.loc)), [], c.loc
        return True, "", [b.span for b in bs]
    chk.ob("C16.R2:hole-values-flag-neutral", "a hole value written through a fmt::Formatter does not inherit the caller's format flags", hole_values_flag_neutral)

    def part_write():
        b = P.body(T + "Part::<'a>::write")
        calls = {n: [c for c in b.calls(normal_only=True) if c.callee.get("trait") == WRITE and c.callee.get("name") == n]
                 for n in ("write_text", "write_hole_fmt", "write_hole_value", "write_hole_label")}
        for n, cs in calls.items():
            if len(cs) != 1:
                return False, "expected exactly one %s call in Part::write, found %d" % (n, len(cs)), [], b.span
        gets = [c for c in b.calls(normal_only=True) if c.callee.get("name") == "get" and c.callee.get("trait") == "emit_core::props::Props"]
        if len(gets) != 1:
            return False, "expected one props.get(label)", [], b.span
        g = gets[0]
        adt = P.adt("emit_core::template::PartKind")
        vi = {v["name"]: str(i) for i, v in enumerate(adt["variants"])}

        def cond(c):
            out = {}
            for gbb, vals, n in b.guards_of(c.bb):
                so = b.switch_origin(gbb)
                if so[0] != "discr":
                    continue
                src = so[1]
                if src[0] == "call" and src[1].bb == g.bb:
                    out["value"] = list(vals) == ["1"]
                    continue
                r, names = mir.o_field_path(src)
                if r[0] == "param" and r[1] == 1 and names == ["0"]:
                    vs = list(vals)
                    out["kind"] = "Text" if vs == [vi["Text"]] else ("Hole" if vs == [vi["Hole"]] else vs)
                elif names and names[-1] == "formatter":
                    out["formatter"] = list(vals) == ["1"]
                else:
                    x = src
                    while x[0] in ("field", "downcast", "index"):
                        if x[0] == "field" and x[2] == "formatter":
                            out["formatter"] = list(vals) == ["1"]
                        x = x[1]
            return out
        want = {"write_text": {"kind": "Text"},
                "write_hole_fmt": {"kind": "Hole", "value": True, "formatter": True},
                "write_hole_value": {"kind": "Hole", "value": True, "formatter": False},
                "write_hole_label": {"kind": "Hole", "value": False}}
        for n, w in want.items():
            got = cond(calls[n][0])
            if got != w:
                return False, ("%s is reached under %s, expected %s (text verbatim; hole with value through its formatter if it has "
                               "one, else plainly; hole without value as its label)" % (n, got, w)), [], calls[n][0].loc
        # the label looked up and written is the hole's own
        lo = b.origin(g.args[1], through_calls=("get", "by_ref", "as_ref"))
        r, names = mir.o_field_path(lo)
        if "label" not in names:
            return False, "the property looked up is %s, not the hole's label" % o_str(lo), [], g.loc
        for n in ("write_hole_fmt", "write_hole_value", "write_hole_label"):
            c = calls[n][0]
            lo2 = b.origin(c.args[1], through_calls=("get", "by_ref", "as_ref"))
            if "label" not in mir.o_field_path(lo2)[1]:
                return False, "%s is given %s, not the hole's label" % (n, o_str(lo2)), [], c.loc
        for n in ("write_hole_fmt", "write_hole_value"):
            c = calls[n][0]
            if not common.has_root(b.origin(c.args[2]), "callsite", g.bb):
                return False, "%s writes %s, not the value found for the label" % (n, o_str(b.origin(c.args[2]))), [], c.loc
        t = calls["write_text"][0]
        if "value" not in mir.o_field_path(b.origin(t.args[1], through_calls=("get",)))[1]:
            return False, "write_text writes %s, not the fragment's text" % o_str(b.origin(t.args[1])), [], t.loc
        # each result is returned
        for n, cs in calls.items():
            if cs[0].dest is None or cs[0].dest.get("l") != 0:
                return False, "the result of %s is not returned" % n, [], cs[0].loc
        return True, "", [cs[0].loc for cs in calls.values()]
    chk.ob("C16.R2:Part::write", "render dispatch: text verbatim; hole -> formatted value / plain value / {label} by presence of value and formatter", part_write)

    def render_write():
        b = P.body(T + "Render::<'a, P>::write")
        pw = b.calls_to(path=T + "Part::<'a>::write")
        if len(pw) != 1 or not b.in_cycle(pw[0].bb):
            return False, "Render::write must write each part in a loop", [], b.span
        if not common.result_checked(b, pw[0]):
            return False, "a part's write error is ignored", [], pw[0].loc
        it = [c for c in b.calls(normal_only=True) if c.callee.get("name") == "parts"]
        if not it:
            return False, "Render::write does not iterate the template's parts()", [], b.span
        rev = [c for c in b.calls(normal_only=True) if c.callee.get("name") in ("rev", "rposition", "rfold")]
        if rev:
            return False, "parts are visited in reverse", [], rev[0].loc
        # the writer sees the template only through Part::write (which picks write_text / write_hole_* per part): no path
        # returns without entering the loop over the parts, and nothing else is called on the writer
        nx = [c for c in b.calls(normal_only=True) if c.callee.get("name") == "next" and b.in_cycle(c.bb)]
        if not nx or not b.must_pass([nx[0].bb]):
            return False, ("Render::write can return without visiting the parts: a shortcut that writes the text itself bypasses "
                           "the writer's write_text / write_hole_* hooks"), [], b.span
        for c in b.calls(normal_only=True):
            if c is pw[0] or c.bb == pw[0].bb:
                continue
            for a in c.args:
                if mir.o_is_param(mir.o_root(b.origin(a)), idx=2):
                    return False, ("Render::write hands the writer to %s at %s: every fragment must reach the writer through "
                                   "Part::write so the writer's own write_text / write_hole_* decide how it is rendered" % (c.callee.get("name"), c.loc)), [], c.loc
        return True, "", [pw[0].loc]
    chk.ob("C16.R2:Render::write", "parts are written in order, errors propagate", render_write)

    # ---- R3 ------------------------------------------------------------------------------------------------------
    nf = 0
    for b in P.find(trait=WRITE):
        if b.is_closure or not common.is_wrapper_self(b.self_ty):
            continue
        nf += 1
        chk.ob("C16.R3.forward:%s" % b.key, "`&mut W` forwards each Write method to the same method exactly once",
               lambda b=b: common.forward_check(b), loc=b.span)
    chk.floor("forwarding template::Write methods", nf, 3)

    # ---- R4 --------------------------------------------------------------------------------------------------------
    def part_conv(key, what):
        def f():
            b = P.body(key)
            aggs = [(bb, s) for bb, j, s in b.statements(normal_only=True) if s["k"] == "assign" and s["rv"]["k"] == "agg"
                    and (s["rv"].get("adt") or "").endswith("PartKind")]
            kinds = {}
            for bb, s in aggs:
                v = s["rv"]["variant"]
                fo = dict(zip(s["rv"]["fields"], [b.origin(o, through_calls=("by_ref", "to_owned", "clone", "to_shared")) for o in s["rv"]["ops"]]))
                # which arm: guard on discriminant of self.0
                arm = None
                for gbb, vals, n in b.guards_of(bb):
                    so = b.switch_origin(gbb)
                    if so[0] == "discr":
                        r, names = mir.o_field_path(so[1])
                        if r[0] == "param" and r[1] == 1 and names == ["0"]:
                            arm = list(vals)
                kinds[v] = (arm, fo)
            adt = P.adt("emit_core::template::PartKind")
            vi = {v["name"]: str(i) for i, v in enumerate(adt["variants"])}
            for v in ("Text", "Hole"):
                if v not in kinds:
                    return False, ("%s does not rebuild a %s part as a %s part with all of its fields (found constructions: %s): a hole "
                                   "converted through a helper that resets fields would lose its formatter" % (what, v, v, sorted(kinds))), [], b.span
                arm, fo = kinds[v]
                if arm != [vi[v]]:
                    return False, "%s builds a %s part on the arm for %s" % (what, v, arm), [], b.span
                for fname, o in fo.items():
                    names = []
                    x = o
                    while x[0] in ("field", "downcast", "index"):
                        if x[0] == "field":
                            names.append(x[2])
                        x = x[1]
                    if fname not in names:
                        return False, "%s sets %s.%s from %s, not from the same field of the source part" % (what, v, fname, o_str(o)), [], b.span
            return True, "", [b.span]
        return f
    chk.ob("C16.R4:Part::by_ref", "borrowing a part keeps its kind, text/label and formatter", part_conv(T + "Part::<'a>::by_ref", "Part::by_ref"))
    chk.ob("C16.R4:Part::to_owned", "owning a part keeps its kind, text/label and formatter",
           part_conv(T + "alloc_support::<impl emit_core::template::Part<'a>>::to_owned", "Part::to_owned"))

    def kind_parts():
        b = P.body(T + "TemplateKind::<'a>::parts")
        rets = set()
        for rb in b.return_blocks():
            for path in b.acyclic_paths(0, rb):
                r = mir.PathSummary(b, path).ret(through_calls=("deref", "as_ref", "as_slice", "borrow"))
                x = r
                while x[0] in ("field", "downcast", "index", "cast"):
                    if x[0] == "downcast":
                        rets.add(x[2])
                    x = x[1]
                if not (x[0] == "param" and x[1] == 1):
                    return False, "parts() returns %s, not the stored parts" % o_str(r), [], b.span
        adt = P.adt("emit_core::template::TemplateKind")
        if rets != {v["name"] for v in adt["variants"]}:
            return False, "parts() covers variants %s of %s" % (sorted(rets), [v["name"] for v in adt["variants"]]), [], b.span
        return True, "", [b.span]
    chk.ob("C16.R4:TemplateKind::parts", "every template representation yields its own stored parts", kind_parts)

    def tpl_to_owned():
        ks = [k for k in P.bodies if re.search(r"template::alloc_support::<impl emit_core::template::Template<'a>>::to_owned$", k)]
        if not ks:
            raise mir.AnchorMissing("Template::to_owned")
        b = P.body(ks[0])
        bodies = [b] + P.closures_of(b)
        pc = [c for x in bodies for c in x.calls(normal_only=True) if (c.callee.get("path") or "").endswith("Part<'a>>::to_owned")]
        if not pc:
            return False, "Template::to_owned does not convert each part with Part::to_owned", [], b.span
        return True, "", [pc[0].loc]
    chk.ob("C16.R4:Template::to_owned", "an owned template is built part by part with Part::to_owned", tpl_to_owned)

    common.arg_agreement_rule(chk, P, "C16", [("emit_core", "src/template.rs"), ("emit_macros", "src/template.rs"), ("emit_macros", "src/fmt.rs")], 3)
    if True:
        from . import corpus
        corpus.template_rules(chk, "C16")
    def macro_text_unchanged():
        """fv_template hands visit_text the fragment with `{{`/`}}` already unescaped: the visitor appends exactly that text to the
        literal (span names, format strings) and interpolates exactly that text into Part::text(..)"""
        bs = [b for k, b in P.bodies.items() if "TemplateVisitor" in k and k.endswith("LiteralVisitor>::visit_text")]
        if not bs:
            raise mir.AnchorMissing("impl LiteralVisitor for TemplateVisitor::visit_text")
        b = bs[0]
        ps = [c for c in b.calls(normal_only=True) if c.callee.get("name") == "push_str"]
        tt = [c for c in b.calls(normal_only=True) if c.callee.get("name") == "to_tokens"]
        if len(ps) != 1 or len(tt) != 1:
            return False, "visit_text appends %d strings to the literal and interpolates %d values (expected one each)" % (len(ps), len(tt)), [], b.span
        for c, i, what in ((ps[0], 1, "appended to the template literal"), (tt[0], 0, "interpolated into Part::text(..)")):
            o = b.origin(c.args[i])
            r = o
            while r[0] in ("ref", "deref", "copy"):
                r = r[1]
            if not mir.o_is_param(r, idx=2):
                return False, ("the text %s is %s, not the fragment fv_template passed in: escapes are already resolved by the parser, "
                               "so any further rewriting changes the rendered text" % (what, mir.o_str(o))), [], c.loc
        return True, "", [ps[0].loc, tt[0].loc]
    chk.ob("C16.R3:macro-text-unchanged", "the template macro copies each text fragment unchanged into the literal and into the generated "
           "text part", macro_text_unchanged)

    def fmt_flags_parsed_verbatim():
        """`#[emit::fmt("..")]` / `#[emit::fmt(flags: "..")]`: the flags stored by the argument parser are the literal's value, untouched -
        every character of a format spec is significant (`:` is a legal fill character)."""
        bs = [b for k, b in P.bodies.items() if b.crate == "emit_macros" and k == "<emit_macros::fmt::Args as syn::parse::Parse>::parse"]
        if not bs:
            raise mir.AnchorMissing("<emit_macros::fmt::Args as syn::parse::Parse>::parse")
        b = bs[0]
        n, ev = 0, []
        for bb, j, st in b.statements(normal_only=True):
            rv = st.get("rv") if st["k"] == "assign" else None
            if not (rv and rv["k"] == "agg" and (rv.get("adt") or "").endswith("fmt::Args")):
                continue
            for f, op in zip(rv.get("fields") or [], rv["ops"]):
                if f != "flags":
                    continue
                n += 1
                o = b.origin(op)
                if not (o[0] == "call" and o[1].callee.get("name") in ("value", "take_or_default", "take")):
                    return False, ("fmt::Args.flags is %s at %s:%s, not the literal's value as written: a rewritten flag string formats "
                                   "differently (e.g. stripping a leading `:` changes the fill character of `:>8`)" % (mir.o_str(o)[:140], b.file, st.get("line"))), \
                        [], "%s:%s" % (b.file, st.get("line"))
                ev.append("%s:%s %s" % (b.file, st.get("line"), o[1].callee.get("name")))
        if n < 2:
            raise mir.AnchorMissing("fmt::Args { flags } construction sites (found %d)" % n)
        return True, "", ev
    chk.ob("C16.R3:fmt-flags-parsed-verbatim", "#[emit::fmt] stores the flag string exactly as written, in both argument forms", fmt_flags_parsed_verbatim)

    def text_verbatim():
        """Every write_text in the workspace (the trait default and any override) writes the fragment with write_str - or forwards
        to an inner write_text - never through a formatting call that applies the outer width/precision/alignment per fragment."""
        n = 0
        sites = []
        for b in P.bodies.values():
            if b.is_closure or b.method != "write_text" and not b.key.endswith("template::Write::write_text"):
                continue
            if not (b.trait == WRITE or b.key == T + "Write::write_text"):
                continue
            n += 1
            cs = [c for c in b.calls(normal_only=True)]
            if len(cs) != 1 or cs[0].callee.get("name") not in ("write_str", "write_text"):
                return False, ("%s writes a text fragment through %s: fragments must be written verbatim (write_str); Display::fmt / write_fmt "
                               "would apply the caller's width, precision or alignment to every fragment separately"
                               % (b.key, [c.callee.get("name") for c in cs])), [], b.span
            if not mir.o_is_param(b.origin(cs[0].args[1], through_calls=("deref",)), idx=2):
                return False, "%s writes %s, not the fragment it was given" % (b.key, o_str(b.origin(cs[0].args[1]))), [], cs[0].loc
            sites.append(cs[0].loc)
        if n < 2:
            raise mir.AnchorMissing("write_text implementations (found %d)" % n)
        return True, "", sites
    chk.ob("C16.R3:text-verbatim", "every writer writes text fragments verbatim (write_str), never through a formatting call", text_verbatim)

    def hole_attrs_from_prop():
        """The macro's template visitor builds every hole from the *property's* attributes (where #[emit::fmt] lives) and capture flag,
        the same way whether or not the property is #[cfg]-gated."""
        bs = [b for b in P.by_crate["emit_macros"] if "TemplateVisitor" in b.key and "visit_hole" in b.key]
        sites = []
        for b in bs:
            for c in b.calls(normal_only=True):
                if c.callee.get("name") != "template_hole_with_hook":
                    continue
                a0 = b.origin(c.args[0], through_calls=("deref", "as_ref", "as_slice"))
                a3 = b.origin(c.args[3])
                n0 = mir.o_field_path(a0)
                n3 = mir.o_field_path(a3)
                def from_prop(fp, fld):
                    root, names = fp
                    return names[-1:] == [fld] and root is not None and root[0] == "call" and root[1].callee.get("name") in ("expect", "unwrap", "get", "ok_or_else", "branch")\
                        and any(k == "callsite" and b.blocks[v]["term"]["callee"].get("name") == "get" for k, v in common.roots(root))
                if not from_prop(n0, "attrs") or not from_prop(n3, "captured"):
                    return False, ("a template hole is generated from the attributes %s / capture flag %s, not from the property the hole names "
                                   "(`field.attrs`, `field.captured`): its #[emit::fmt] flags would be lost for some call-site shapes (e.g. cfg-gated "
                                   "properties)" % (o_str(a0), o_str(a3))), [], c.loc
                sites.append(c.loc)
        if not sites:
            raise mir.AnchorMissing("template_hole_with_hook calls in TemplateVisitor::visit_hole")
        if len(sites) != 1:
            return False, "holes are generated at %d different sites; cfg-gated and plain properties must share one" % len(sites), [], sites[1]
        return True, "", sites
    chk.ob("C16.R3:hole-attrs-from-prop", "macro-generated holes take formatter attributes and capture flag from the property they name, at one site", hole_attrs_from_prop)

    def fmt_flags_verbatim():
        b = P.body("emit_macros::fmt::Args::to_format_args")
        shown = [c for c in b.calls(normal_only=True) if c.callee.get("name") in ("new_display", "new_debug") and "Argument" in (c.callee.get("full") or c.callee.get("path") or "")]
        if len(shown) != 1:
            raise mir.AnchorMissing("the one displayed argument of to_format_args (found %d)" % len(shown))
        o = b.origin(shown[0].args[0], through_calls=("deref", "as_str", "as_ref", "borrow"))
        root, names = mir.o_field_path(o)
        if not (names == ["flags"] and root is not None and mir.o_is_param(root, idx=1)):
            return False, ("the format flags written into the generated `{:...}` are %s, not the attribute's flags verbatim: a flag "
                           "string is a complete format spec (a leading `:` is a fill character), so any rewriting changes how the hole "
                           "is rendered compared with the same formatter given by hand" % o_str(o)), [], shown[0].loc
        return True, "", [shown[0].loc]
    chk.ob("C16.R3:fmt-flags-verbatim", "#[emit::fmt] hands its flags to the generated format string unchanged", fmt_flags_verbatim)

    common.builder_rules(chk, P, "C16", lambda b: b.key.startswith("emit_core::template::Render::<"), 1)
    # macro/runtime boundary: what the expansion passes at each named hook parameter (read off emit_macros' quote! templates)
    from . import quotes
    quotes.boundary_rule(chk, P, "C16", {"__private_format", "__private_emit", "__private_evt"}, 4)
    if not getattr(chk, "_overlay", None):
        def macro_props_get():
            from . import c02
            b = P.impl_method("emit_core::props::Props", "emit::macro_hooks::__PrivateMacroProps<'a, N>", "get")
            return c02.macro_get(P, b)
        chk.ob("C16.R2:MacroProps-get", "a hole's value is looked up in a macro-built collection past empty optional entries (the same entry enumeration yields)", macro_props_get)

    def private_format():
        """emit::format!: the hook renders the template with the props into a String and returns that String - the render's write is called
        on the very buffer that is returned, with the hook's own template and props."""
        k = "emit::macro_hooks::__private_format"
        if not P.has_body(k):
            if getattr(chk, "_overlay", None):
                return True, "", ["absent in this configuration"]
            raise mir.AnchorMissing(k)
        b = P.body(k)
        wr = [c for c in b.calls(normal_only=True) if c.callee.get("name") == "write" and "Render" in (c.callee.get("path") or "")]
        if len(wr) != 1 or not b.must_pass([wr[0].bb]):
            return False, "__private_format does not write the rendered template on every path (write calls: %d): format! would return an empty string" % len(wr), [], b.span
        buf = mir.o_root(b.origin(wr[0].args[1]))
        ret = mir.o_root(b.origin(0))
        same = (buf[0] == ret[0] == "call" and buf[1].bb == ret[1].bb) or buf[:2] == ret[:2]
        if not same:
            return False, "__private_format writes into %s but returns %s" % (o_str(buf), o_str(ret)), [], wr[0].loc
        rn = mir.o_root(b.origin(wr[0].args[0]))
        if not (rn[0] == "call" and rn[1].callee.get("name") == "render" and mir.o_is_param(mir.o_root(b.origin(rn[1].args[0])), idx=1)
                and mir.o_is_param(mir.o_root(b.origin(rn[1].args[1])), idx=2)):
            return False, "__private_format does not render its own template with its own props", [], wr[0].loc
        return True, "", [wr[0].loc]
    chk.ob("C16.R2:__private_format", "format! returns the buffer the template was rendered into", private_format)
    return chk
