"""Finite-automaton extraction for emit_core::path::is_valid_path (C15.R3).

An abstract interpreter over the function's built MIR: integers/bools are concrete, characters are one of
five classes (':' | XID_Start | '_' | other XID_Continue-only | other), the input is a list of classes.  The two
unicode predicates are modelled as class membership.  The resulting automaton (states = values of the
loop-carried locals) is compared by product exploration with two reference automata:
  strict  = ident ("::" ident)*,  ident = XID_Start XID_Continue* | '_' XID_Continue+   (Rust identifiers, i.e. what
            module_path!() can produce; must be accepted)
  loose   = seg ("::" seg)*,      seg   = (XID_Start|XID_Continue)+     (nothing outside may be accepted)
No path constraints, no solver: the transfer functions are evaluated on every (state, class) pair."""
from . import mir

CLASSES = ("colon", "S", "U", "C", "O")


class NotModelled(Exception):
    pass


def _interp(b, word, max_steps=20000):
    """Run the function on an abstract word. Returns (result_bool, state_at_end) where state is the
    tuple of loop-carried integer/bool locals observed at the final `next()` call (None if it returned early)."""
    env = {}
    heap_iter = {"pos": 0}
    bb = 0
    steps = 0
    last_state = None

    def place_get(pl):
        v = env.get(pl["l"])
        for pr in pl.get("p", ()):
            if pr == "*":
                if isinstance(v, tuple) and v[0] == "ref":
                    v = env.get(v[1])
                elif isinstance(v, tuple) and v[0] == "str":
                    pass
                continue
            if isinstance(pr, dict) and "d" in pr:
                if not (isinstance(v, tuple) and v[0] == pr["d"]):
                    raise NotModelled("downcast %s of %r" % (pr["d"], v))
                continue
            if isinstance(pr, dict) and "f" in pr:
                if isinstance(v, tuple) and v[0] in ("Some",):
                    v = v[1 + pr["f"]]
                elif isinstance(v, tuple) and v[0] == "pair":
                    v = v[1 + pr["f"]]
                else:
                    raise NotModelled("field of %r" % (v,))
                continue
            raise NotModelled("projection %r" % (pr,))
        return v

    def op_val(o):
        if "c" in o:
            return place_get(o["c"])
        if "m" in o:
            return place_get(o["m"])
        k = o.get("k")
        if isinstance(k, dict):
            v = k.get("v")
            if v is None:
                if k.get("ty") == "()":
                    return ()
                raise NotModelled("constant without value %r" % (k,))
            if "int" in v and "char" not in v:
                return int(v["int"])
            if "bool" in v:
                return bool(v["bool"])
            if "char" in v:
                return ("char", v["char"])
            raise NotModelled("constant %r" % (v,))
        raise NotModelled("operand %r" % (o,))

    def cls_eq_char(c, ch):
        if ch == ":":
            return c == "colon"
        if ch == "_":
            return c == "U"
        raise NotModelled("comparison with char %r" % ch)

    while True:
        steps += 1
        if steps > max_steps:
            raise NotModelled("step budget")
        blk = b.blocks[bb]
        for s in blk["stmts"]:
            if s["k"] != "assign":
                continue
            rv = s["rv"]
            k = rv["k"]
            if k == "use":
                val = op_val(rv["op"])
            elif k == "ref":
                pl = rv["place"]
                if "p" in pl and pl["p"] == ["*"]:
                    val = env.get(pl["l"])
                elif "p" not in pl:
                    val = ("ref", pl["l"])
                else:
                    raise NotModelled("ref of %r" % (pl,))
            elif k == "binop":
                x, y = op_val(rv["a"]), op_val(rv["b"])
                op = rv["op"]
                if op in ("Eq", "Ne") and (isinstance(x, str) or isinstance(y, str)):
                    c, ch = (x, y) if isinstance(x, str) else (y, x)
                    r = cls_eq_char(c, ch[1])
                    val = r if op == "Eq" else not r
                elif op == "Eq":
                    val = x == y
                elif op == "Ne":
                    val = x != y
                elif op == "Lt":
                    val = x < y
                elif op == "Le":
                    val = x <= y
                elif op == "Gt":
                    val = x > y
                elif op == "Ge":
                    val = x >= y
                elif op == "Rem":
                    val = abs(x) % abs(y) * (1 if x >= 0 else -1)
                elif op == "BitAnd":
                    val = (x and y) if isinstance(x, bool) else (x & y)
                elif op == "BitOr":
                    val = (x or y) if isinstance(x, bool) else (x | y)
                elif op in ("Add", "AddWithOverflow"):
                    val = x + y if op == "Add" else ("pair", x + y, False)
                elif op in ("Sub", "SubWithOverflow"):
                    val = x - y if op == "Sub" else ("pair", x - y, False)
                else:
                    raise NotModelled("binop %s" % op)
            elif k == "unop":
                x = op_val(rv["a"])
                if rv["op"] == "Not":
                    val = not x
                else:
                    raise NotModelled("unop %s" % rv["op"])
            elif k == "discr":
                v = place_get(rv["place"])
                if isinstance(v, tuple) and v[0] == "Some":
                    val = 1
                elif isinstance(v, tuple) and v[0] == "None":
                    val = 0
                else:
                    raise NotModelled("discriminant of %r" % (v,))
            elif k == "agg" and rv.get("ak") == "tuple" and not rv["ops"]:
                val = ()
            else:
                raise NotModelled("rvalue %s" % k)
            pl = s["place"]
            if "p" in pl:
                raise NotModelled("projected assignment")
            env[pl["l"]] = val
        t = blk["term"]
        k = t["k"]
        if k in ("goto", "falseunwind", "falseedge"):
            bb = t["t"]
        elif k == "switch":
            v = op_val(t["discr"])
            nxt = None
            for val, tgt in t["targets"]:
                iv = int(val)
                if isinstance(v, str):
                    if iv == 58:
                        if v == "colon":
                            nxt = tgt
                    elif iv == 95:
                        if v == "U":
                            nxt = tgt
                    else:
                        raise NotModelled("char switch on %d" % iv)
                elif isinstance(v, bool):
                    if int(v) == iv:
                        nxt = tgt
                elif v == iv:
                    nxt = tgt
            bb = nxt if nxt is not None else t["otherwise"]
        elif k == "assert":
            bb = t["t"]
        elif k == "drop":
            bb = t["t"]
        elif k == "return":
            r = env.get(0)
            if not isinstance(r, bool):
                raise NotModelled("non-bool result %r" % (r,))
            return r, last_state
        elif k == "call":
            c = t["callee"]
            nm = c.get("name")
            p = c.get("path") or ""
            args = [op_val(a) for a in t["args"]] if nm not in ("chars", "len", "starts_with", "into_iter") else None
            if p.endswith("str>::len") or (nm == "len" and "str" in p):
                val = len(word)
            elif nm == "starts_with" and "str" in p:
                ch = op_val(t["args"][1])
                if not (isinstance(ch, tuple) and ch[0] == "char"):
                    raise NotModelled("starts_with non-char")
                val = bool(word) and cls_eq_char(word[0], ch[1])
            elif nm == "chars":
                val = ("iter",)
            elif nm == "into_iter":
                val = ("iter",)
            elif nm == "next":
                # observe loop-carried state
                st = tuple(sorted((l, v) for l, v in env.items() if isinstance(v, (int, bool)) and not isinstance(v, tuple)
                                  and b.local_name(l) is not None))
                if heap_iter["pos"] < len(word):
                    val = ("Some", word[heap_iter["pos"]])
                    heap_iter["pos"] += 1
                else:
                    val = ("None",)
                    last_state = st
            elif nm == "is_xid_start":
                val = args[0] == "S"
            elif nm == "is_xid_continue":
                val = args[0] in ("S", "C", "U")
            else:
                raise NotModelled("call %s" % (c.get("full") or nm))
            d = t["dest"]
            if "p" in d:
                raise NotModelled("projected call destination")
            env[d["l"]] = val
            if "t" not in t:
                raise NotModelled("diverging call")
            bb = t["t"]
        else:
            raise NotModelled("terminator %s" % k)


# reference automata over CLASSES ------------------------------------------------------------------------------

def strict_step(q, c):
    # 0: expect ident start; "u": seen only a leading '_'; 1: in ident; 2: after one ':'; D: dead
    if q == "D":
        return "D"
    if q == 0:
        return 1 if c == "S" else ("u" if c == "U" else "D")
    if q == "u":
        return 1 if c in ("S", "C", "U") else "D"
    if q == 1:
        if c in ("S", "C", "U"):
            return 1
        if c == "colon":
            return 2
        return "D"
    if q == 2:
        return 0 if c == "colon" else "D"


def strict_accept(q):
    return q == 1


def loose_step(q, c):
    if q == "D":
        return "D"
    if q == 0:
        return 1 if c in ("S", "C", "U") else "D"
    if q == 1:
        if c in ("S", "C", "U"):
            return 1
        if c == "colon":
            return 2
        return "D"
    if q == 2:
        return 0 if c == "colon" else "D"


def loose_accept(q):
    return q == 1


def check(P):
    """Returns (ok, detail, sites)."""
    b = P.body("emit_core::path::is_valid_path")
    try:
        seen = {}
        work = [((), 0, 0)]
        explored = 0
        transitions = 0
        while work:
            w, qs, ql = work.pop()
            res, st = _interp(b, list(w))
            key = (st if st is not None else ("early", res), qs, ql)
            if key in seen:
                continue
            seen[key] = w
            explored += 1
            if strict_accept(qs) and not res:
                return False, ("is_valid_path rejects the class string %s, which is of the form ident(::ident)* "
                               "(colon=':', S=XID_Start, U='_', C=other XID_Continue-only, O=other)" % (list(w),)), [], b.span
            if res and not loose_accept(ql):
                return False, ("is_valid_path accepts the class string %s, which is not segments of identifier characters joined "
                               "by exactly '::' (colon=':', S=XID_Start, U='_', C=other XID_Continue-only, O=other)" % (list(w),)), [], b.span
            if len(w) > 24:
                return False, "state space did not close (word length > 24)", [], b.span
            if st is None and not res and len(w) > 0:
                # early reject is a dead state of the code only if every extension is rejected too: keep exploring one level
                pass
            for c in CLASSES:
                transitions += 1
                work.append((w + (c,), strict_step(qs, c), loose_step(ql, c)))
        return True, "automaton closed: %d product states, %d transitions evaluated" % (explored, transitions), ["%d product states" % explored]
    except NotModelled as e:
        return False, "is_valid_path has a shape the abstract interpreter does not model (%s): the grammar clause cannot be decided" % e, [], b.span
