"""C11 — rolling files roll, retain and name as configured and stay inside their own set.

Decided: the keep-the-active-file condition (fits && same period, equality on the period); the directory
listing is read before retention is applied on every path that creates a file; retention deletes only
dir/<popped name>, cannot panic, and nobody else deletes; sort order, `current` end and retention end of
the listing agree; the name writer and the period reader agree on the position of the period."""
import re

from . import c10, common, mir
from .mir import o_str


def order_agreement(P):
    """Shared with C10: retention deletes from the oldest end of the listing - never the file that was just written and acknowledged."""
    rd = P.body("emit_file::ActiveFileSet::<'a>::read")
    so = [c for c in rd.calls(normal_only=True) if c.callee.get("name") in ("sort", "sort_unstable", "sort_by", "sort_unstable_by", "sort_by_key", "sort_by_cached_key")]
    if len(so) != 1:
        return False, "expected the listing to be sorted once", [], rd.span
    s = so[0]
    descending = False
    if s.callee["name"] in ("sort_by", "sort_unstable_by"):
        clo = rd.origin(s.args[1])
        cb = P.body(clo[1]["def"])
        rev = [c for c in cb.calls(normal_only=True) if c.callee.get("name") == "reverse"]
        cm = [c for c in cb.calls(normal_only=True) if c.callee.get("name") == "cmp"]
        swapped = False
        if cm:
            a0 = cb.origin(cm[0].args[0])
            a1 = cb.origin(cm[0].args[1])
            swapped = (a0[0] == "param" and a0[1] == 3) and (a1[0] == "param" and a1[1] == 2)
        descending = bool(rev) != swapped
    elif s.callee["name"] in ("sort_by_key", "sort_by_cached_key"):
        clo = rd.origin(s.args[1])
        cb = P.body(clo[1]["def"])
        descending = any("Reverse" in (x["rv"].get("adt") or "") for bb, j, x in cb.statements(normal_only=True) if x["k"] == "assign" and x["rv"]["k"] == "agg")
    cur = P.body("emit_file::ActiveFileSet::<'a>::current_file_name")
    ce = [c for c in cur.calls(normal_only=True) if c.callee.get("name") in ("first", "last")]
    if len(ce) != 1:
        return False, "current_file_name must read one end of the listing", [], cur.span
    ret = P.body("emit_file::ActiveFileSet::<'a>::apply_retention")
    rm = [c for c in ret.calls(normal_only=True) if c.callee.get("name") in ("pop", "remove") and "Vec" in (c.callee.get("full") or "")]
    if len(rm) != 1:
        return False, "retention must remove from one end of the listing", [], ret.span
    newest_end = "first" if descending else "last"
    oldest_op = "pop" if descending else "remove"
    if ce[0].callee["name"] != newest_end:
        return False, ("the listing is sorted %s but current_file_name() reads `%s()`: the file offered for reuse is the oldest, "
                       "not the newest" % ("descending" if descending else "ascending", ce[0].callee["name"])), [], ce[0].loc
    if rm[0].callee["name"] != oldest_op or (oldest_op == "remove" and mir.o_const_value(ret.origin(rm[0].args[1])) != 0):
        return False, ("the listing is sorted %s (newest %s) but retention removes with `%s`: it deletes the newest files and "
                       "keeps the oldest" % ("descending" if descending else "ascending", newest_end, rm[0].callee["name"])), [], rm[0].loc
    return True, "", [s.loc, ce[0].loc, rm[0].loc]


def retention_terminates(P):
    """Shared with C08 (the worker always makes progress).  The retention loop runs `while len >= max`; what makes it end is that each
    iteration takes one name *out of* the listing - also when deleting that file fails (a failed delete is counted and skipped).  Decided on
    the CFG: with the removing call's block taken out, the loop header can no longer reach itself."""
    b = P.body("emit_file::ActiveFileSet::<'a>::apply_retention")
    pops = [x for x in b.calls(normal_only=True) if x.callee.get("name") in ("pop", "remove", "swap_remove", "truncate", "drain", "pop_front", "pop_back", "split_off")
            and ("Vec" in (x.callee.get("full") or "")) and b.in_cycle(x.bb)]
    if not pops:
        raise mir.AnchorMissing("a removal from the listing inside the retention loop")
    hdrs = {t for s_, t in b.back_edges() if any(p.bb in b.loop_body(t) for p in pops)}
    if not hdrs:
        raise mir.AnchorMissing("the retention loop")
    gone = {p.bb for p in pops}
    for h in hdrs:
        for n in b.succs()[h]:
            if n in gone:
                continue
            if h in b.reachable_from(n, removed_blocks=gone):
                return False, ("the retention loop can go round without removing a name from the listing (e.g. when remove_file fails): the listing "
                               "never drops under the bound, the loop never ends, and the worker thread spins inside on_batch - no later batch, no "
                               "flush, no shutdown"), [], pops[0].loc
    return True, "", [p.loc for p in pops]


def run(chk):
    P = mir.Program("K1")
    chk.use_program(P)
    chk.explain("Rules over built MIR of emit_file: R1 the active file is kept iff size + remaining <= max (<=) AND its period "
                "== the current period (String equality, not an ordering); R2 ActiveFileSet::apply_retention is dominated by "
                "ActiveFileSet::read on every path that creates a file; R3 Filesystem::remove_file is called only by "
                "apply_retention with dir joined with a name popped from its own listing, and the loop cannot pop an empty "
                "listing; R4 sort order of the listing, the end current_file_name() reads and the end retention removes are "
                "consistent (descending/first/pop or ascending/last/remove(0)); R5 file_name() puts the period second of "
                "four dot-joined parts in the order prefix, period, id, ext, and read_file_name_ts() finds the period "
                "whatever the prefix contains; a new file is named from the period of the same clock reading that decides rolling.")
    chk.trust("rustc nightly; Vec::pop/first/sort_by, str::split contracts")
    chk.assume("membership of a file in the set (starts_with(prefix) && ends_with(ext)), calendar arithmetic of the rolling id is value-level and not decided (not claimed)")
    chk.exhaustive = True

    def r1():
        cb = c10.main_closure(P)
        fl = [c for c in cb.calls(normal_only=True) if c.callee.get("name") == "filter" and "Option" in (c.callee.get("full") or "")
              and "ActiveFile" in (c.callee.get("full") or "")]
        if len(fl) != 1:
            return False, "expected the keep-the-active-file decision to be one Option::filter", [], cb.span
        clo = cb.origin(fl[0].args[1])
        if clo[0] != "agg" or clo[1].get("ak") != "closure":
            return False, "filter predicate is not a closure", [], fl[0].loc
        fb = P.body(clo[1]["def"])
        # atoms: the size comparison and the period comparison
        size_atom = None
        per_atom = None
        rows = []
        for rb in fb.return_blocks():
            for path in fb.acyclic_paths(0, rb):
                ps = mir.PathSummary(fb, path)
                dec = {}
                for bb, o, vals in ps.decisions():
                    t = mir.truthy(vals)
                    if o[0] == "binop" and o[1] in ("Le", "Lt", "Ge", "Gt"):
                        size_atom = o
                        dec["size"] = t
                    elif o[0] == "call" and o[1].callee.get("name") in ("eq", "ne", "ge", "gt", "le", "lt", "cmp"):
                        per_atom = o
                        dec["period"] = t
                r = ps.ret()
                v = mir.o_const_value(r)
                if v is None:
                    # returns an atom directly
                    if r[0] == "call" and r[1].callee.get("name") in ("eq", "ne", "ge", "gt", "le", "lt"):
                        per_atom = r
                        v = "period"
                    elif r[0] == "binop":
                        size_atom = r
                        v = "size"
                rows.append((dec, v))
        if size_atom is None or per_atom is None:
            return False, "the predicate does not combine a size test and a period test", [], fb.span
        if per_atom[1].callee.get("name") != "eq":
            return False, ("the active file's period is compared with the current period using `%s`, not equality: when the clock "
                           "steps back a period the file of the later period keeps receiving events instead of a new file being "
                           "started" % per_atom[1].callee.get("name")), [], per_atom[1].loc
        sides = [fb.origin(a) for a in per_atom[1].args]
        fl_names = [mir.o_field_path(s)[1][-1:] for s in sides]
        if ["file_ts"] not in fl_names:
            return False, "the period test does not read the file's file_ts", [], per_atom[1].loc
        # the other side is (a capture of) the value computed by file_ts(..) for this batch's clock reading - by provenance, not by name
        def from_file_ts_call(s_):
            if s_[0] != "capture":
                return False
            po = P.capture_origin(fb, s_)
            par = P.bodies.get(fb.parent_key)
            if par is None:
                return False
            return any(k == "callsite" and par.blocks[v]["term"]["callee"].get("path") == "emit_file::file_ts" for k, v in common.roots(po))
        if not any(from_file_ts_call(s_) for s_ in sides):
            return False, "the file's period is not compared with the period of the current clock reading", [], per_atom[1].loc
        if size_atom[1] != "Le":
            return False, "size test is `%s`, must be `size + remaining <= max`" % size_atom[1], [], fb.span
        lhs, rhs = size_atom[2], size_atom[3]
        ln = set()
        def walk(o, d=0):
            if d > 10:
                return
            if o[0] == "field":
                ln.add(o[2])
                walk(o[1], d + 1)
            elif o[0] == "capture":
                ln.add(o[1].rsplit("__", 1)[-1])
            elif o[0] == "binop":
                walk(o[2], d + 1)
                walk(o[3], d + 1)
            elif o[0] in ("cast", "downcast", "index"):
                walk(o[1], d + 1)
        walk(lhs)
        if not {"file_size_bytes", "remaining_bytes"} <= ln:
            return False, "the size test adds %s, expected file_size_bytes + remaining_bytes" % sorted(ln), [], fb.span
        rhs_name = rhs[1].rsplit("__", 1)[-1] if rhs[0] == "capture" else (mir.o_field_path(rhs)[1] or [None])[-1]
        if rhs_name != "max_file_size_bytes":
            return False, "the size limit compared against is %s" % o_str(rhs), [], fb.span
        # truth table: true iff both
        for s in (False, True):
            for p in (False, True):
                outs = set()
                for dec, v in rows:
                    if all({"size": s, "period": p}[k] == t for k, t in dec.items() if t is not None):
                        outs.add({"size": s, "period": p}.get(v, v))
                if outs != {s and p}:
                    return False, "with fits=%s, same-period=%s the file is kept: %s (must be kept iff both hold)" % (s, p, sorted(map(str, outs))), [], fb.span
        return True, "", [fl[0].loc]
    chk.ob("C11.R1:keep-active-file", "the active file is kept iff the batch fits and its period equals the current one", r1)

    def every_candidate_checked():
        """Both candidates for "the file this batch goes to" - the active file carried over from the previous batch and a file re-opened for reuse
        after a restart / failed write - pass the fits-and-same-period decision: on the CFG, no path from either source (the take() of the
        active file, the try_open_reuse call) reaches the first write without going through that decision."""
        cb = c10.main_closure(P)
        fl = [c for c in cb.calls(normal_only=True) if c.callee.get("name") == "filter" and "Option" in (c.callee.get("full") or "")
              and "ActiveFile" in (c.callee.get("full") or "")]
        we = cb.calls_to(path="emit_file::ActiveFile::write_event")
        srcs = [c for c in cb.calls(normal_only=True) if c.callee.get("name") == "try_open_reuse" or
                (c.callee.get("name") == "take" and mir.o_field_path(cb.origin(c.args[0]))[1][-1:] == ["active_file"])]
        if len(fl) != 1 or len(we) != 1 or len(srcs) < 2:
            raise mir.AnchorMissing("filter / write_event / the two sources of the file in Worker::on_batch (%d, %d, %d)" % (len(fl), len(we), len(srcs)))
        for sc in srcs:
            if sc.bb == fl[0].bb:
                continue
            if not cb.must_pass({fl[0].bb}, start=sc.term.get("t", sc.bb), ends={we[0].bb}):
                return False, ("a file obtained at %s (%s) can reach the write without the fits-and-same-period decision at %s: a file re-opened for reuse - "
                               "possibly of an older period, possibly full - would receive the batch" % (sc.loc, sc.callee.get("name"), fl[0].loc)), [], sc.loc
        return True, "", [c.loc for c in srcs] + [fl[0].loc]
    chk.ob("C11.R1:every-candidate-checked", "the carried-over file and the file re-opened for reuse both pass the keep decision before anything is written", every_candidate_checked)

    def r2():
        cb = c10.main_closure(P)
        ar = cb.calls_to(path_re=r"ActiveFileSet::<.*>::apply_retention$")
        rd = list(cb.calls_to(path_re=r"ActiveFileSet::<.*>::read$"))
        # a local helper closure that reads the listing counts as a read at each of its call sites
        for c in cb.calls(normal_only=True):
            if c.callee.get("name") in ("call", "call_mut", "call_once") and c.args:
                o = cb.origin(c.args[0])
                if o[0] == "agg" and o[1].get("ak") == "closure":
                    hb = P.bodies.get(o[1]["def"])
                    if hb is not None and hb.calls_to(path_re=r"ActiveFileSet::<.*>::read$"):
                        rd.append(c)
        if len(ar) != 1 or not rd:
            return False, "expected apply_retention and read in the worker", [], cb.span
        a = ar[0]
        rdb = {c.bb for c in rd}
        fp = cb.feasible_paths(0, a.bb)
        if not fp or any(not (rdb & set(p)) for p in fp):
            return False, ("apply_retention at %s is not preceded by ActiveFileSet::read on every path: the listing is only read "
                           "when there is no active file, so when an active file is rolled in-process (size limit or period "
                           "change) retention sees an empty set and deletes nothing - the set grows past max_files until the "
                           "next restart or failed write" % a.loc), [], a.loc
        for c in rd:
            tgt = c.args[0] if c.callee.get("name") == "read" else None
            if tgt is None:
                # helper closure: the listing is its (tupled) argument
                ao = cb.origin(c.args[1])
                lst = ao[2][0] if ao[0] == "agg" and ao[2] else ao
                if mir.o_str(lst) != mir.o_str(cb.origin(a.args[0])):
                    return False, "retention is applied to a different listing than the one read", [], a.loc
            elif mir.o_str(cb.origin(tgt)) != mir.o_str(cb.origin(a.args[0])):
                return False, "retention is applied to a different listing than the one read", [], a.loc
        # retention happens before the new file is created
        cr = cb.calls_to(path="emit_file::ActiveFile::try_open_create")
        if len(cr) != 1 or not cb.dominates(a.bb, cr[0].bb):
            return False, "a file is created without retention having been applied first", [], (cr[0].loc if cr else cb.span)
        # bound passed: max_files - 1 (leave room for the new file)
        bo = cb.origin(a.args[2])
        if not (mir.o_is_call(bo, name="saturating_sub") and mir.o_const_value(cb.origin(bo[1].args[1])) == 1
                and mir.o_field_path(cb.origin(bo[1].args[0]))[1][-1:] == ["max_files"]):
            return False, "retention bound is %s, expected max_files.saturating_sub(1) (room for the file about to be created)" % o_str(bo), [], a.loc
        return True, "", [c.loc for c in rd] + [a.loc]
    chk.ob("C11.R2:read-before-retention", "the directory listing is read before retention on every path that creates a file", r2)

    def r3():
        sites = []
        for b in P.by_crate["emit_file"]:
            for c in b.calls(normal_only=True):
                if c.callee.get("name") == "remove_file" and ((c.callee.get("trait") or "") == "emit_file::Filesystem" or "std::fs" in (c.callee.get("path") or "")):
                    root = (P.bodies.get(b.root_key) or b) if b.root_key else b
                    sites.append((root, b, c))
        allowed = []
        for root, b, c in sites:
            if root.trait == "emit_file::Filesystem" and root.method == "remove_file":
                continue  # the filesystem impl / forwarding impl itself
            if not root.key.endswith("::apply_retention"):
                return False, "%s deletes a file at %s; only retention may" % (root.key, c.loc), [], c.loc
            allowed.append((b, c))
        if len(allowed) != 1:
            return False, "expected exactly one remove_file in apply_retention, found %d" % len(allowed), [], None
        b, c = allowed[0]
        po = b.origin(c.args[1])
        # path = PathBuf::from(self.dir) ; path.push(<popped name>)
        pushes = [x for x in b.calls(normal_only=True) if x.callee.get("name") == "push" and "PathBuf" in (x.callee.get("full") or "")]
        pops = [x for x in b.calls(normal_only=True) if x.callee.get("name") in ("pop", "remove") and "Vec" in (x.callee.get("full") or "")]
        if len(pushes) != 1 or len(pops) != 1:
            return False, "the deleted path must be dir joined with one name taken from the listing", [], c.loc
        if not common.has_root(b.origin(pushes[0].args[1]), "callsite", pops[0].bb):
            return False, "the file name joined is %s, not the one popped from the listing" % o_str(b.origin(pushes[0].args[1])), [], pushes[0].loc
        if mir.o_field_path(b.origin(pops[0].args[0], through_calls=("deref_mut",)))[1] != ["file_set"]:
            return False, "names are taken from %s" % o_str(b.origin(pops[0].args[0])), [], pops[0].loc
        fr = [x for x in b.calls(normal_only=True) if x.callee.get("name") == "from" and "PathBuf" in (x.callee.get("full") or "")]
        if not fr or mir.o_field_path(b.origin(fr[0].args[0]))[1] != ["dir"]:
            return False, "the deleted path is not rooted at the file set's directory", [], c.loc
        # no unwrap on the pop
        from . import panics
        for s in panics.sites(b):
            if s["kind"] in ("call:unwrap", "call:expect") and "String" in (s.get("on") or ""):
                return False, ("retention unwraps the popped name at %s: with max_files(1) the bound is 0 and the loop pops an "
                               "empty listing" % s["loc"]), [], s["loc"]
        return True, "", [c.loc, pops[0].loc]
    chk.ob("C11.R3:retention-safe", "retention deletes only dir/<name popped from its own listing>, cannot panic on an empty listing, and nobody else deletes", r3)

    chk.ob("C11.R4:order-agreement", "sort order, the end offered for reuse (newest) and the end retention deletes (oldest) agree", lambda: order_agreement(P))

    def r5():
        fn = P.body("emit_file::file_name")
        names = [fn.local_name(i) for i in range(1, fn.argc + 1)]
        # order of the displayed arguments
        order = []
        for c in fn.calls(normal_only=True):
            if c.callee.get("name") in ("new_display", "new") and "Argument" in (c.callee.get("full") or ""):
                o = fn.origin(c.args[0])
                if o[0] == "param":
                    order.append(o[2])
        if order != ["file_prefix", "ts", "id", "file_ext"]:
            return False, "file_name() formats its parts in the order %s; names must be prefix.period.id.ext" % order, [], fn.span
        rd = P.body("emit_file::read_file_name_ts")
        sp = [c for c in rd.calls(normal_only=True) if c.callee.get("name") in ("split", "rsplit")]
        if len(sp) != 1:
            return False, "read_file_name_ts must split the name once", [], rd.span
        so = rd.origin(sp[0].args[1])
        sepv = mir.o_const_value(so)
        if sepv not in (".", 46) and not (so[0] == "const" and (so[1].get("v") or {}).get("char") == "."):
            return False, "read_file_name_ts must split the name on '.' (found %r)" % (sepv,), [], rd.span
        sk = [c for c in rd.calls(normal_only=True) if c.callee.get("name") in ("skip", "nth")]
        if len(sk) != 1 or not isinstance(mir.o_const_value(rd.origin(sk[0].args[1])), int):
            return False, "read_file_name_ts must take one constant part of the dot-separated name (position checked by R5:reader-any-prefix)", [], rd.span
        # the worker names a new file with the file_ts of this batch's clock reading
        cb = c10.main_closure(P)
        fnc = cb.calls_to(path="emit_file::file_name")
        fts = cb.calls_to(path="emit_file::file_ts")
        if len(fnc) != 1 or len(fts) != 1:
            return False, "expected one file_name and one file_ts call in the worker", [], cb.span
        if not common.has_root(cb.origin(fnc[0].args[2]), "callsite", fts[0].bb):
            return False, "the new file is not named with the period of the current clock reading", [], fnc[0].loc
        now = [c for c in cb.calls(normal_only=True) if c.callee.get("name") == "now"]
        if len(now) != 1 or not common.has_root(cb.origin(fts[0].args[1]), "callsite", now[0].bb):
            return False, "the period is not derived from this batch's clock reading", [], fts[0].loc
        return True, "", [fn.span, rd.span]
    chk.ob("C11.R5:name-writer-reader", "the name writer puts the period where the reader looks for it; new files are named from the current reading", r5)

    def _listing_decision():
        rd = P.body("emit_file::ActiveFileSet::<'a>::read")
        pu = [c for c in rd.calls(normal_only=True) if c.callee.get("name") == "push" and "Vec" in (c.callee.get("full") or "") and rd.in_cycle(c.bb)]
        if len(pu) != 1:
            raise mir.AnchorMissing("one push of a directory entry into the listing (found %d)" % len(pu))
        origins = [rd.switch_origin(gbb) for gbb, vals, n in rd.guards_of(pu[0].bb) if rd.in_cycle(gbb)]
        return rd, pu[0], common.decision_region(P, rd, origins, crate="emit_file")

    def membership():
        """Both the configured prefix and the configured extension take part in the decision that lets a directory entry into the listing:
        the prefix in a prefix-side test (starts_with / strip_prefix), the extension in a suffix-side test (ends_with / strip_suffix) -
        written in `read` itself, in closures, or in a predicate function it calls with them; directly or through a formatted copy."""
        rd, pu, region = _listing_decision()
        PRE, SUF = ("starts_with", "strip_prefix"), ("ends_with", "strip_suffix")
        found = {"prefix": [], "ext": []}
        for x, c, via in region:
            nm = c.callee.get("name")
            if nm in PRE + SUF and len(c.args) > 1:
                ps = common.entry_params(P, rd, x, x.origin(c.args[1]), via)
                if 3 in ps and nm in PRE:
                    found["prefix"].append(c)
                if 4 in ps and nm in SUF:
                    found["ext"].append(c)
        if not found["prefix"] or not found["ext"]:
            return False, ("a directory entry enters the listing without matching %s" %
                           " and ".join(w for w, k in (("the configured prefix", "prefix"), ("the configured extension", "ext")) if not found[k])), [], pu.loc
        return True, "", [found["prefix"][0].loc, found["ext"][0].loc]
    chk.ob("C11.R3:listing-filter", "only entries matching both the configured prefix and extension enter the listing (necessary part of staying inside the set)", membership)


    # ---- R6: the set's directory is usable ---------------------------------------------------------------------------
    def r6():
        b = P.body("emit_file::dir_prefix_ext")
        par = [c for c in b.calls(normal_only=True) if (c.callee.get("path") or "") == "std::path::Path::parent"]
        if not par:
            raise mir.AnchorMissing("Path::parent in dir_prefix_ext")
        checked = 0
        for rb in b.return_blocks():
            for path in b.acyclic_paths(0, rb, limit=4000):
                ps = mir.PathSummary(b, path)
                r = ps.ret()
                # Ok((dir, prefix, ext))
                while r[0] in ("call",) and r[1].callee.get("name") in ("Ok",):
                    r = ps.origin(r[1].args[0])
                if r[0] != "agg" or r[1].get("variant") not in ("Ok", None):
                    continue
                inner = r[2][0] if r[1].get("variant") == "Ok" else r
                if inner[0] != "agg" or len(inner[2]) != 3:
                    continue
                d = inner[2][0]
                checked += 1
                rs = common.roots(d)
                consts = [v for k, v in rs if k == "const" and isinstance(v, str)]
                derived = [v for k, v in rs if k == "callsite"]
                may_be_empty = any(k == "callsite" and (b.blocks[v]["term"]["callee"].get("path") in ("std::path::Path::parent",) or
                                                        b.blocks[v]["term"]["callee"].get("path", "").endswith("String::new")) for k, v in rs)
                if not may_be_empty:
                    if consts and all(consts):
                        continue
                    continue
                # an is_empty() test on the same value, taken on its false edge, must lie on this path
                ok = False
                for sbb, o, vals in ps.decisions():
                    if o[0] == "call" and o[1].callee.get("name") == "is_empty":
                        tested = common.roots(ps.origin(o[1].args[0], at=ps.pos[sbb]))
                        if tested & {x for x in rs if x[0] == "callsite"} and tuple(vals) in (("0",), (0,)):
                            ok = True
                if not ok:
                    return False, ("the set directory returned for a template is %s and is never tested for emptiness: "
                                   "Path::parent() of a template without a directory component (\"app.log\") is the empty path, "
                                   "which std::fs::read_dir and File::open reject, so the listing is never read (no retention, "
                                   "no reuse) and the parent can never be synced" % o_str(d)), [], par[0].loc
        if not checked:
            raise mir.AnchorMissing("Ok((dir, prefix, ext)) in dir_prefix_ext")
        return True, "", [par[0].loc]
    chk.ob("C11.R6:set-directory-usable", "the directory of the set is never the empty path (Path::parent of a bare file name): it is tested and replaced before use", r6)

    # ---- R7: retention is a loop bounded by the listing length --------------------------------------------------------
    def r7():
        b = P.body("emit_file::ActiveFileSet::<'a>::apply_retention")
        pops = [x for x in b.calls(normal_only=True) if x.callee.get("name") in ("pop", "remove") and "Vec" in (x.callee.get("full") or "")]
        rm = [x for x in b.calls(normal_only=True) if x.callee.get("name") == "remove_file"]
        if len(pops) != 1 or len(rm) != 1:
            raise mir.AnchorMissing("pop/remove_file in apply_retention")
        if not b.in_cycle(pops[0].bb) or not b.in_cycle(rm[0].bb):
            return False, ("retention removes at most one file per batch (the pop at %s is not in a loop): a set that is two or more "
                           "files over the maximum - a lowered max_files, earlier delete failures - never comes back under it"
                           % pops[0].loc), [], pops[0].loc
        # the loop continues while len(file_set) >= max_files (param 3)
        lens = [x for x in b.calls(normal_only=True) if x.callee.get("name") == "len" and "Vec" in (x.callee.get("full") or "")]
        ok = False
        for gbb, vals, n in b.guards_of(pops[0].bb):
            so = b.switch_origin(gbb)
            if so[0] == "binop" and so[1] in ("Ge", "Gt", "Le", "Lt"):
                l, r = so[2], so[3]
                names = {str(common.roots(l)), str(common.roots(r))}
                both = common.roots(l) | common.roots(r)
                if any(k == "callsite" and v in [x.bb for x in lens] for k, v in both) and ("param", 3) in both:
                    op = so[1]
                    left_is_len = any(k == "callsite" for k, v in common.roots(l))
                    taken_true = list(vals) != ["0"]
                    # continue-deleting condition must be len >= max (or max <= len)
                    cond = (op, left_is_len, taken_true)
                    if cond in (("Ge", True, True), ("Le", False, True), ("Lt", True, False), ("Gt", False, False)):
                        ok = True
                    else:
                        return False, "retention continues while %s %s %s is %s: it must delete while len >= the bound" % (
                            o_str(l), op, o_str(r), taken_true), [], pops[0].loc
        if not ok:
            return False, "the retention loop is not controlled by comparing the listing length with the bound", [], pops[0].loc
        return True, "", [pops[0].loc, rm[0].loc]
    chk.ob("C11.R7:retention-loop", "retention keeps deleting while the listing is at or over the bound", r7)
    chk.ob("C11.R7:retention-terminates", "every iteration of the retention loop shrinks the listing, whether or not the delete succeeded",
           lambda: retention_terminates(P))

    def r7b():
        cb = c10.main_closure(P)
        ar = [c for c in cb.calls(normal_only=True) if c.callee.get("name") == "apply_retention"]
        if len(ar) != 1:
            raise mir.AnchorMissing("apply_retention call in the worker")
        o = cb.origin(ar[0].args[2])
        # max_files - 1 (saturating): leaves room for the file about to be created
        if not (o[0] == "call" and o[1].callee.get("name") in ("saturating_sub", "checked_sub", "wrapping_sub")
                and mir.o_field_path(cb.origin(o[1].args[0]))[1][-1:] == ["max_files"]
                and mir.o_const_value(cb.origin(o[1].args[1])) == 1) and not (
                o[0] == "binop" and o[1] == "Sub"):
            if mir.o_field_path(o)[1][-1:] == ["max_files"]:
                return False, ("retention is bounded by max_files itself, leaving no room for the file about to be created: the set "
                               "holds max_files + 1 files after the batch"), [], ar[0].loc
            return False, "the retention bound is %s, not max_files - 1" % o_str(o), [], ar[0].loc
        if o[0] == "call" and o[1].callee.get("name") != "saturating_sub":
            return False, "max_files - 1 must saturate (max_files(1) gives a bound of 0)", [], ar[0].loc
        return True, "", [ar[0].loc]
    chk.ob("C11.R7:retention-bound", "retention runs with the bound max_files - 1 (saturating), leaving room for the file about to be created", r7b)

    # ---- R8: the in-period counter is monotone in the clock -------------------------------------------------------------
    def r8():
        b = P.body("emit_file::rolling_millis")
        r = b.origin(0)
        inner = r[1] if r[0] == "cast" else r
        if not (inner[0] == "call" and (inner[1].callee.get("path") or "").startswith("core::time::Duration::")):
            return False, "the counter is %s, not a reading of the time elapsed in the period" % o_str(r), [], b.span
        acc = inner[1].callee.get("name")
        if acc not in ("as_millis", "as_micros", "as_nanos", "as_secs"):
            return False, ("the counter is Duration::%s(): a sub-second part wraps every second, so within one period later files "
                           "can get smaller counters and descending name order no longer puts the newest file first" % acc), [], inner[1].loc
        ds = [c for c in b.calls(normal_only=True) if c.callee.get("name") == "duration_since"]
        if len(ds) != 1 or not common.has_root(b.origin(inner[1].args[0]), "callsite", ds[0].bb):
            return False, "the counter is not derived from duration_since", [], b.span
        if b.origin(ds[0].args[0])[:2] != ("param", 2):
            return False, "the elapsed time is not measured from the batch's clock reading (ts)", [], ds[0].loc
        fp = [c for c in b.calls(normal_only=True) if c.callee.get("name") == "from_parts"]
        if len(fp) != 3:
            return False, "expected one period start per roll-by arm (3), found %d" % len(fp), [], b.span
        if not all(("param", 3) in common.roots(b.origin(c.args[0])) for c in fp):
            return False, "the period start is not built from the same reading's calendar parts", [], b.span
        # which fields are kept per arm: day ⊂ hour ⊂ minute
        kept = []
        for c in fp:
            o = b.origin(c.args[0])
            if o[0] != "agg":
                return False, "period start is not a Parts literal", [], c.loc
            names = o[1].get("fields") or []
            k = [n for n, x in zip(names, o[2]) if ("param", 3) in common.roots(x)]
            kept.append(tuple(k))
        want = {("years", "months", "days"), ("years", "months", "days", "hours"), ("years", "months", "days", "hours", "minutes")}
        if set(kept) != want:
            return False, "period starts keep the fields %s; day/hour/minute periods must keep exactly y-m-d, y-m-d-h, y-m-d-h-m" % sorted(kept), [], b.span
        return True, "", [inner[1].loc, ds[0].loc]
    chk.ob("C11.R8:counter-monotone", "the name's counter is the whole time elapsed since the start of the current period, so it grows with the clock inside a period", r8)

    def r8b():
        cb = c10.main_closure(P)
        rm = cb.calls_to(path="emit_file::rolling_millis")
        fts = cb.calls_to(path="emit_file::file_ts")
        tp = [c for c in cb.calls(normal_only=True) if c.callee.get("name") == "to_parts"]
        now = [c for c in cb.calls(normal_only=True) if c.callee.get("name") == "now"]
        if len(rm) != 1 or len(fts) != 1 or len(tp) != 1 or len(now) != 1:
            raise mir.AnchorMissing("rolling_millis/file_ts/to_parts/now in the worker")
        if not common.has_root(cb.origin(rm[0].args[1]), "callsite", now[0].bb):
            return False, "the counter is not computed from this batch's clock reading", [], rm[0].loc
        for c in (rm[0], fts[0]):
            a = c.args[2] if c is rm[0] else c.args[1]
            if not common.has_root(cb.origin(a), "callsite", tp[0].bb):
                return False, "%s is not given the calendar parts of this batch's clock reading" % c.callee.get("name"), [], c.loc
        if not common.has_root(cb.origin(tp[0].args[0]), "callsite", now[0].bb):
            return False, "the calendar parts are not those of this batch's clock reading", [], tp[0].loc
        if mir.o_field_path(cb.origin(rm[0].args[0]))[1][-1:] != ["roll_by"] or mir.o_field_path(cb.origin(fts[0].args[0]))[1][-1:] != ["roll_by"]:
            return False, "period and counter are not computed with the configured roll_by", [], rm[0].loc
        return True, "", [rm[0].loc, fts[0].loc]
    chk.ob("C11.R8:one-reading", "period, counter and calendar parts of a new name all come from the one clock reading taken for the batch", r8b)

    # ---- R9: a file's period is read from its own name --------------------------------------------------------------------
    def r9():
        sites = []
        for fn, opener in (("try_open_reuse", "open_existing"), ("try_open_create", "open_new")):
            b = P.body("emit_file::ActiveFile::%s" % fn)
            rd = b.calls_to(path="emit_file::read_file_path_ts")
            op = [c for c in b.calls(normal_only=True) if c.callee.get("name") == opener]
            if len(rd) != 1 or len(op) != 1:
                return False, "%s: expected one read_file_path_ts and one %s" % (fn, opener), [], b.span
            aggs = [(bb, st) for bb, j, st in b.statements(normal_only=True) if st["k"] == "assign" and st["rv"]["k"] == "agg"
                    and (st["rv"].get("adt") or "").endswith("ActiveFile")]
            if len(aggs) != 1:
                return False, "%s: expected one ActiveFile literal" % fn, [], b.span
            st = aggs[0][1]
            names = st["rv"].get("fields") or []
            ops = dict(zip(names, st["rv"]["ops"]))
            if not common.has_root(b.origin(ops["file_ts"]), "callsite", rd[0].bb):
                return False, ("%s takes the file's period from %s, not from the file's own name: a file of an earlier period that is "
                               "re-opened would pass the same-period test and be appended to" % (fn, o_str(b.origin(ops["file_ts"])))), [], rd[0].loc if rd else b.span
            pr = common.roots(b.origin(rd[0].args[0]))
            po = common.roots(b.origin(op[0].args[1]))
            if not (("param", 2) in pr and ("param", 2) in po):
                return False, "%s reads the period of one path and opens another" % fn, [], rd[0].loc
            if not common.has_root(b.origin(ops["file_path"]), "param", 2):
                return False, "%s records a different path than the one it opened" % fn, [], b.span
            sites += [rd[0].loc, op[0].loc]
        return True, "", sites
    chk.ob("C11.R9:period-from-own-name", "an opened file's period is parsed from the name of the very path that was opened", r9)


    # ---- R3b: a foreign directory entry is skipped, it never fails the listing ---------------------------------------------------------
    def listing_total():
        rd = P.body("emit_file::ActiveFileSet::<'a>::read")
        so = [c for c in rd.calls(normal_only=True) if c.callee.get("name") in ("sort", "sort_unstable", "sort_by", "sort_unstable_by", "sort_by_key")]
        nx = [c for c in rd.calls(normal_only=True) if c.callee.get("name") == "next" and rd.in_cycle(c.bb)]
        if len(so) != 1 or len(nx) != 1:
            raise mir.AnchorMissing("entry loop and sort in ActiveFileSet::read")
        # from inside the loop every way to a return leads through the sort: no entry can abort the listing
        for bb in rd.loop_body(nx[0].bb) if hasattr(rd, "loop_body") else []:
            pass
        if not rd.must_pass({so[0].bb}, start=nx[0].bb):
            return False, ("the loop over directory entries in ActiveFileSet::read can return before the listing is complete (an entry that "
                           "is not this set's - e.g. a name that is not valid UTF-8 - makes the whole read fail): the set is then empty, so "
                           "retention deletes nothing and nothing is reused, whatever else shares the directory"), [], nx[0].loc
        # ... and the listing that was built and sorted is what the set holds afterwards: on every Ok path `self.file_set` is assigned the
        # vector the entries were pushed into (the same one the sort was applied to)
        pu = [c for c in rd.calls(normal_only=True) if c.callee.get("name") == "push" and rd.in_cycle(c.bb)]
        vec = mir.Body._op_local(pu[0].args[0]) if pu else None
        base = None
        if pu:
            o = rd.origin(pu[0].args[0])
            r = mir.o_root(o)
            base = r
        stores = [(bb, j, st) for bb, j, st in rd.statements(normal_only=True) if st["k"] == "assign" and st["place"].get("p") and
                  [p.get("n") for p in st["place"]["p"] if isinstance(p, dict) and "n" in p][-1:] == ["file_set"] and bb in rd.reachable_from(so[0].bb)]
        sort_recv = mir.o_root(rd.origin(so[0].args[0], through_calls=("deref_mut", "deref", "as_mut_slice")))
        if not stores:
            return False, ("ActiveFileSet::read never stores the sorted listing in self.file_set: the set stays empty, so retention deletes nothing and "
                           "no file is ever reused"), [], so[0].loc
        val = mir.o_root(rd.origin(stores[0][2]["rv"]["op"])) if stores[0][2]["rv"]["k"] == "use" else ("unknown",)
        same = (val[0] == sort_recv[0] == "call" and val[1].bb == sort_recv[1].bb) or (val[0] == sort_recv[0] != "call" and val[:2] == sort_recv[:2])
        if not same:
            return False, "self.file_set is assigned %s, not the listing that was sorted (%s)" % (o_str(val), o_str(sort_recv)), [], so[0].loc
        if not rd.must_pass({stores[0][0]}, start=so[0].bb):
            return False, "a path from the sort to the return skips storing the listing", [], so[0].loc
        return True, "", [nx[0].loc, so[0].loc]
    chk.ob("C11.R3:listing-total", "no directory entry can make the listing fail: foreign entries are skipped", listing_total)

    def own_files_only():
        """A directory entry joins the set only if it is *delimited* like one of the set's own names (`prefix` `.` ... `.` `ext`): the
        membership decision in ActiveFileSet::read involves the `.` separator next to the prefix / extension.  A bare
        starts_with(prefix) && ends_with(ext) also matches `prefix-notes.ext` and the files of a set called `prefix2`, which retention then
        deletes and reuse appends to."""
        rd, pu, region = _listing_decision()
        TESTS = ("starts_with", "ends_with", "strip_prefix", "strip_suffix", "split", "rsplit", "split_once", "rsplit_once", "eq", "ne", "find",
                 "rfind", "splitn", "rsplitn", "matches")
        tests = [(x, c) for x, c, via in region if c.callee.get("name") in TESTS]
        if not tests:
            return False, "no membership test guards the listing of a directory entry", [], pu.loc

        def is_sep(v):
            if v == 46 or v == ".":
                return True
            if isinstance(v, bytes):
                v = v.decode("latin1")
            # a short literal, or a format template (literal pieces of a format string), containing the separator
            return isinstance(v, str) and "." in v and len(v) <= 8
        capped = [(x, c) for x, c, via in region if c.callee.get("name") in ("splitn", "rsplitn", "take", "nth", "skip")]
        if capped:
            return False, ("the membership decision looks at a capped number of name components (%s at %s): a name with *more* components than the "
                           "set's own - a sibling set `prefix.audit` - passes as this set's" % (capped[0][1].callee.get("name"), capped[0][1].loc)), [], capped[0][1].loc
        seps = []
        for x, c in tests:
            for a in c.args:
                if any(l[0] == "const" and is_sep(l[1]) for l in common.deep_roots(P, x, x.origin(a))):
                    seps.append((x, c))
                    break
        if not seps:
            return False, ("a directory entry joins the set on %s alone - no test involves the `.` that separates the prefix and the extension from "
                           "the rest of the name: `prefix-notes.ext`, or the files of a sibling set `prefix2`, are listed as this set's own, so "
                           "retention deletes them and reuse appends to them" % sorted({c.callee.get("name") for x, c in tests})), \
                [c.loc for x, c in tests], tests[0][1].loc
        return True, "", ["%s %s" % (c.loc, c.callee.get("name")) for x, c in seps]
    chk.ob("C11.R10:own-files-only", "membership in the file set is decided on `.`-delimited name components, not on a bare prefix/suffix match", own_files_only)

    def stem_and_extension():
        dp = P.body("emit_file::dir_prefix_ext")
        r = None
        for rb in dp.return_blocks():
            for path in dp.acyclic_paths(0, rb, limit=4000):
                ps = mir.PathSummary(dp, path)
                o = ps.ret()
                if o[0] == "agg" and o[1].get("variant") == "Ok" and o[2] and o[2][0][0] == "agg" and len(o[2][0][2]) == 3:
                    r = o[2][0][2]
                    pre = {dp.blocks[v]["term"]["callee"].get("path") for k, v in common.roots(r[1]) if k == "callsite"}
                    ext = {dp.blocks[v]["term"]["callee"].get("path") for k, v in common.roots(r[2]) if k == "callsite"}
                    if "std::path::Path::file_stem" not in pre:
                        others = sorted(x for x in pre if x and x.startswith("std::path::Path::"))
                        return False, ("the prefix of a template is taken with %s, not Path::file_stem: prefix and extension must split the file "
                                       "name at the same (last) dot, or a dotted template such as `svc.api.log` loses part of its prefix and "
                                       "claims a sibling set's files" % (others or sorted(pre))), [], dp.span
                    if "std::path::Path::extension" not in ext and not any(k == "const" for k, v in common.roots(r[2])):
                        return False, "the extension is not Path::extension() or a constant default", [], dp.span
        if r is None:
            raise mir.AnchorMissing("Ok((dir, prefix, ext)) in dir_prefix_ext")
        return True, "", [dp.span]
    chk.ob("C11.R5:stem-and-extension", "prefix = Path::file_stem and extension = Path::extension of the template: both split at the last dot", stem_and_extension)

    # ---- R5b: the reader finds the period whatever the configured prefix contains -------------------------------------------------
    def r5b():
        from . import fmtspec
        rd = P.body("emit_file::read_file_name_ts")
        sp = [c for c in rd.calls(normal_only=True) if c.callee.get("name") in ("split", "rsplit", "splitn", "rsplitn")]
        sk = [c for c in rd.calls(normal_only=True) if c.callee.get("name") in ("skip", "nth")]
        if len(sp) != 1 or len(sk) != 1:
            raise mir.AnchorMissing("split + skip/nth in read_file_name_ts")
        k = mir.o_const_value(rd.origin(sk[0].args[1]))
        from_end = sp[0].callee.get("name").startswith("r")
        try:
            fid = fmtspec.templates(P.body("emit_file::file_id"))[0][1]
        except (fmtspec.BadTemplate, IndexError) as e:
            return False, "the id template could not be decoded (%s)" % e, [], None
        id_parts = 1 + sum(x[1].count(".") for x in fid if x[0] == "lit")
        dp = P.body("emit_file::dir_prefix_ext")
        if not from_end:
            # counting from the front: everything before the period must be free of the separator; the prefix is whatever the user
            # configured (file_stem of the template), so it has to be validated
            if k != 1:
                return False, "the reader takes part %s from the front; the writer puts the period at part 1" % k, [], rd.span
            validated = [c for c in dp.calls(normal_only=True) if c.callee.get("name") in ("contains", "find", "split", "split_once", "matches")]
            if not validated:
                return False, ("read_file_name_ts takes the part after the *first* '.', but the name starts with the configured prefix, which "
                               "dir_prefix_ext takes from Path::file_stem() unchecked: with a template such as `svc.api.log` the prefix is "
                               "`svc.api`, the reader sees `api` as the period, never equal to the current one, and every batch starts a new file"), [], sp[0].loc
            return True, "", [sp[0].loc]
        # counting from the end: after the period come the id (id_parts parts) and the extension (Path::extension: no dot)
        want = id_parts + 1
        if k != want:
            return False, "the reader takes part %s from the end; after the period come %d id parts and the extension, so it is part %d" % (k, id_parts, want), [], sk[0].loc
        ext_ok = [c for c in dp.calls(normal_only=True) if (c.callee.get("path") or "").endswith("Path::extension")]
        if not ext_ok:
            return False, "the extension is not taken with Path::extension (it could contain the separator)", [], dp.span
        return True, "", [sp[0].loc, sk[0].loc]
    chk.ob("C11.R5:reader-any-prefix", "the period is located in a file name independently of what the configured prefix contains", r5b)

    # ---- R10: names sort like the clock: every numeric component is fixed-width and zero-padded -----------------------------------
    def r10():
        from . import fmtspec
        try:
            ts = fmtspec.templates(P.body("emit_file::file_ts"))
            fid = fmtspec.templates(P.body("emit_file::file_id"))
            fnm = fmtspec.templates(P.body("emit_file::file_name"))
        except fmtspec.BadTemplate as e:
            return False, "a format template of the file-name writers could not be decoded (%s): ordering of names cannot be decided" % e, [], None
        if len(ts) != 3 or len(fid) != 1 or len(fnm) != 1:
            raise mir.AnchorMissing("format templates of file_ts (3 arms) / file_id / file_name (found %d/%d/%d)" % (len(ts), len(fid), len(fnm)))
        b = P.body("emit_file::file_ts")
        want_fields = ["years", "months", "days", "hours", "minutes"]
        want_width = {"years": 4, "months": 2, "days": 2, "hours": 2, "minutes": 2}
        seen_lens = set()
        for loc, t, ops, traits in ts:
            phs = [x[1] for x in t if x[0] == "ph"]
            lits = [x[1] for x in t if x[0] == "lit"]
            seen_lens.add(len(phs))
            if len(set(lits)) > 1 or any("." in l for l in lits):
                return False, "the period's components are joined by %s at %s (one separator, never '.', which separates the name's parts)" % (lits, loc), [], loc
            for i, ph in enumerate(phs):
                names = mir.o_field_path(b.origin(ops[ph["arg"]], through_calls=("deref",)))[1] if ops[ph["arg"]] is not None else []
                fld = names[-1] if names else None
                if fld != want_fields[i]:
                    return False, "the period at %s writes `%s` in position %d; coarse-to-fine order is %s" % (loc, fld, i, want_fields[:len(phs)]), [], loc
                pad = ph["zero_pad"] or (ph["fill"] == "0" and ph["align"] == 1)
                if ph["width"] != want_width[fld] or not pad or ph["width_indirect"]:
                    return False, ("the period at %s writes `%s` with width %s, zero padding %s: without a fixed zero-padded width "
                                   "(%d) names no longer sort like the clock (month 10 sorts before month 9)"
                                   % (loc, fld, ph["width"], pad, want_width[fld])), [], loc
        if seen_lens != {3, 4, 5}:
            return False, "day/hour/minute periods must write 3/4/5 components, found %s" % sorted(seen_lens), [], b.span
        loc, t, ops, traits = fid[0]
        phs = [x[1] for x in t if x[0] == "ph"]
        fb = P.body("emit_file::file_id")
        if len(phs) != 2 or [x for x in t if x[0] == "lit"] != [("lit", ".")]:
            return False, "the id is not `<counter>.<random>`", [], loc
        for ph, wantp, tr in zip(phs, (1, 2), ("new_display", "new_lower_hex")):
            pad = ph["zero_pad"] or (ph["fill"] == "0" and ph["align"] == 1)
            if ph["width"] != 8 or not pad:
                return False, ("the id's component %d has width %s, zero padding %s: the in-period counter (up to 86,400,000 ms) and the "
                               "32-bit id need 8 zero-padded digits to sort numerically" % (ph["arg"], ph["width"], pad)), [], loc
            if fb.origin(ops[ph["arg"]])[:2] != ("param", wantp):
                return False, "the id's components are not (counter, random id) in that order", [], loc
            if traits[ph["arg"]] != tr:
                return False, "the id's component %d is written with %s" % (ph["arg"], traits[ph["arg"]]), [], loc
        loc, t, ops, traits = fnm[0]
        if [x[1] for x in t if x[0] == "lit"] != [".", ".", "."] or any(x[1]["width"] is not None for x in t if x[0] == "ph"):
            return False, "file_name must join its four parts with single dots and no padding (the reader splits on '.')", [], loc
        return True, "", [x[0] for x in ts] + [fid[0][0], fnm[0][0]]
    chk.ob("C11.R10:fixed-width-names", "every numeric component of a file name is zero-padded to a fixed width, coarse to fine, so descending name order is newest first", r10)

    # size-based rolling relies on the batch's byte accounting: clear() really empties it (shared with C09)
    from . import batcher
    batcher.channel_impls(chk, P, "C11.channel")
    # the size-limit decision reads the batch's byte count: after a failed write the retried batch must report its full size again
    c10.rewind_rule(chk, P, "C11.R1b")

    def size_accounting():
        """The size limit is applied to `file_size_bytes`, so every byte handed to the file is counted: in ActiveFile::write_event each
        write of a buffer is accompanied, on every path reaching it, by `file_size_bytes += <that buffer>.len()`; a reused file starts from
        its length on disk and a new one from zero."""
        b = P.body("emit_file::ActiveFile::write_event")
        writes = [c for c in b.calls(normal_only=True) if c.callee.get("name") in ("write_all", "write")]
        if len(writes) < 2:
            raise mir.AnchorMissing("the separator and event writes of ActiveFile::write_event")
        adds = []
        for bb, j, st in b.statements(normal_only=True):
            if st["k"] == "assign" and st["place"].get("p") and [p.get("n") for p in st["place"]["p"] if isinstance(p, dict) and "n" in p][-1:] == ["file_size_bytes"]:
                o = b.origin(st["rv"]["op"]) if st["rv"]["k"] == "use" else ("unknown",)
                r = o
                while r[0] in ("field", "cast", "copy"):
                    r = r[1]
                if r[0] == "binop" and r[1] in ("Add", "AddWithOverflow", "AddUnchecked"):
                    ln = r[3] if r[3][0] == "call" else r[2]
                    if ln[0] == "call" and ln[1].callee.get("name") == "len" and ln[1].args:
                        adds.append((bb, mir.o_root(b.origin(ln[1].args[0]))))
                    elif ln[0] in ("PtrMetadata",) or "PtrMetadata" in mir.o_str(ln):
                        adds.append((bb, mir.o_root(ln[1]) if len(ln) > 1 else ("unknown",)))
        for w in writes:
            buf = mir.o_root(b.origin(w.args[1]))
            mine = [bb for bb, src in adds if src == buf or (src[0] == buf[0] == "param" and src[1] == buf[1])]
            if not mine or not b.must_pass(mine, ends=[w.bb]):
                return False, ("ActiveFile::write_event writes %s at %s without adding its length to file_size_bytes on every path to the write: the "
                               "bytes are in the file but not in the count the size limit is applied to, so the file grows past max_file_size_bytes"
                               % (mir.o_str(buf), w.loc)), [], w.loc
        return True, "", [w.loc for w in writes]
    chk.ob("C11.R1c:size-accounting", "every buffer written to the active file is added to file_size_bytes", size_accounting)
    c10.std_adapter_rule(chk, P, "C11.R12")
    common.builder_rules(chk, P, "C11", lambda b: b.key.startswith("emit_file::FileSetBuilder::"), 7)
    common.arg_agreement_rule(chk, P, "C11", [("emit_file", None)], 5)
    common.config_wiring_rule(chk, P, "C11.R11:configuration-reaches-worker", "every builder option (roll_by, reuse_files, max_files, max_file_size_bytes, "
                              "separator) reaches the worker / the emitter unchanged under its own name",
                              ["emit_file::FileSetBuilder::spawn_inner"], 6)
    # the worker reaches files and the filesystem through `&mut F` / `Box<F>` wrappers: they pass every method on
    common.wrapper_family_rule(chk, P, "C11", "emit_file::File", 2)
    common.wrapper_family_rule(chk, P, "C11", "emit_file::Filesystem", 1)
    from . import shapes
    shapes.non_members_rejected(chk, P, "C11.R10:non-members-rejected")
    shapes.std_listing_files_only(chk, P, "C11.R3:std-listing-files-only")
    shapes.member_component_count(chk, P, "C11.R10:member-component-count")
    shapes.retention_not_ended_by_failure(chk, P, "C11.R3:retention-not-ended-by-failure")
    return chk
